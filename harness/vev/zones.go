package vev

// Real time zones with daylight-saving rules.  The zone database is embedded into the test binaries
// (time/tzdata), so the zones resolve identically on every host and offline.

import (
	"sync"
	"time"
	_ "time/tzdata"
)

// Zones: whole-hour and fractional offsets, northern and southern DST, a 30-minute DST step (Lord Howe),
// a zone that skipped a calendar day (Apia, 2011) and one without DST.
var Zones = []string{"Europe/Berlin", "America/New_York", "Australia/Lord_Howe", "America/St_Johns", "Pacific/Apia", "Europe/London", "Asia/Kolkata", "America/Santiago"}

func Zone(name string) *time.Location {
	l, err := time.LoadLocation(name)
	if err != nil {
		panic("vev.Zone: " + name + ": " + err.Error())
	}
	return l
}

var (
	transMu sync.Mutex
	trans   = map[string][]int64{}
)

// Transitions returns the unix seconds of the first instant after every offset change of the zone in 2000-2037.
func Transitions(name string) []int64 {
	transMu.Lock()
	defer transMu.Unlock()
	if l, ok := trans[name]; ok {
		return l
	}
	loc := Zone(name)
	off := func(u int64) int { _, o := time.Unix(u, 0).In(loc).Zone(); return o }
	var l []int64
	lo := time.Date(2000, 1, 1, 0, 0, 0, 0, time.UTC).Unix()
	hi := time.Date(2037, 12, 31, 0, 0, 0, 0, time.UTC).Unix()
	for u := lo; u < hi; u += 86400 {
		if off(u) != off(u+86400) {
			a, b := u, u+86400 // off(a) != off(b)
			for b-a > 1 {
				m := (a + b) / 2
				if off(m) == off(a) {
					a = m
				} else {
					b = m
				}
			}
			l = append(l, b)
		}
	}
	trans[name] = l
	return l
}

// The process' local time zone.  A library that formats or parses instants must not depend on it, so the checks run
// under a real zone with DST rules chosen from (seed, shard) - one run in nine under UTC - instead of whatever the
// host happens to be set to (after C16-s15: a decoder reading UTC texts with time.Local).  Replay files record the
// zone.

var localZoneName = "UTC"

func LocalZoneFor(seed, shard int) string {
	k := (seed + shard) % (len(Zones) + 1)
	if k == len(Zones) {
		return "UTC"
	}
	return Zones[(k+3)%len(Zones)]
}

func UseLocalZone(name string) {
	if name == "" || name == "UTC" {
		time.Local = time.UTC
		localZoneName = "UTC"
		return
	}
	time.Local = Zone(name)
	localZoneName = name
}

func LocalZoneName() string { return localZoneName }
