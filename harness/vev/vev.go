// Package vev is the evidence / violation / known-finding plumbing shared by
// every property package of the harness.
//
// A property package creates one Rec per property id, reports every executed
// case through Rec.Case, reports deviations through Rec.Fail (inside rapid) or
// Rec.Violation (inside enumerators), and flushes the partial evidence in
// TestMain.  The driver (/verif/check) merges the partial files of all shards
// into /verif/evidence/<id>.json.
package vev

import (
	"bufio"
	"encoding/json"
	"flag"
	"fmt"
	"hash/fnv"
	"os"
	"path"
	"path/filepath"
	"sort"
	"strconv"
	"strings"
	"sync"
	"testing"
	"time"

	"pgregory.net/rapid"
)

// ---------------------------------------------------------------------------
// environment

func env(k, def string) string {
	if v := os.Getenv(k); v != "" {
		return v
	}
	return def
}

func envInt(k string, def int) int {
	if v := os.Getenv(k); v != "" {
		if n, err := strconv.Atoi(v); err == nil {
			return n
		}
	}
	return def
}

// Root is /verif (where KNOWN_FINDINGS.txt, findings/ and replays/ live).
func Root() string { return env("VERIF_ROOT", "/verif") }

// Tier is "quick" or "thorough".
func Tier() string { return env("VERIF_TIER", "quick") }

func Thorough() bool { return Tier() == "thorough" }

func SeedValue() int { return envInt("VERIF_SEED", 1) }
func Shard() int     { return envInt("VERIF_SHARD", 0) }
func NShards() int {
	n := envInt("VERIF_NSHARDS", 1)
	if n < 1 {
		n = 1
	}
	return n
}

// SelectedProp is the property the driver asked for (shared binaries serve
// several); "" means all.
func SelectedProp() string { return os.Getenv("VERIF_PROP") }

// RapidSeed maps (VERIF_SEED, shard) to a rapid seed that is never 0 (0 means
// "random" to rapid).
func RapidSeed(salt int) uint64 {
	return uint64(SeedValue())*1000003 + uint64(Shard())*7919 + uint64(salt)*104729 + 1
}

// ThoroughScale multiplies every thorough-tier random case count (the numbers
// written at the call sites were sized for a one-minute run; the thorough tier
// is meant to be several minutes per property on 16 cores).
const ThoroughScale = 8

// N picks a per-shard case count: quick in the quick tier, thorough*ThoroughScale/NShards
// in the thorough tier.
func N(quick, thorough int) int {
	if !Thorough() {
		return quick
	}
	n := thorough * ThoroughScale / NShards()
	if n < 1 {
		n = 1
	}
	return n
}

// MyShare reports whether enumerated item i belongs to this shard.
func MyShare(i int) bool { return i%NShards() == Shard() }

// ---------------------------------------------------------------------------
// known findings

type knownFinding struct {
	Prop, ID, Sig, Text string
}

var (
	kfOnce sync.Once
	kfList []knownFinding
)

func loadKnown() {
	kfOnce.Do(func() {
		f, err := os.Open(filepath.Join(Root(), "KNOWN_FINDINGS.txt"))
		if err != nil {
			return
		}
		defer f.Close()
		sc := bufio.NewScanner(f)
		for sc.Scan() {
			line := strings.TrimSpace(sc.Text())
			if !strings.HasPrefix(line, "known:") {
				continue
			}
			fields := strings.Fields(strings.TrimPrefix(line, "known:"))
			var kf knownFinding
			rest := []string{}
			for _, f := range fields {
				switch {
				case kf.Prop == "" && strings.HasPrefix(f, "property="):
					kf.Prop = strings.TrimPrefix(f, "property=")
				case kf.ID == "" && strings.HasPrefix(f, "id="):
					kf.ID = strings.TrimPrefix(f, "id=")
				case kf.Sig == "" && strings.HasPrefix(f, "sig="):
					kf.Sig = strings.TrimPrefix(f, "sig=")
				default:
					rest = append(rest, f)
				}
			}
			kf.Text = strings.Join(rest, " ")
			if kf.Prop != "" && kf.Sig != "" {
				kfList = append(kfList, kf)
			}
		}
	})
}

// ---------------------------------------------------------------------------
// recorder

type sample struct {
	h uint64
	v any
}

type failure struct {
	Sig  string
	Kind string
	Case any
	Msg  string
}

type Rec struct {
	Prop string

	mu         sync.Mutex
	start      time.Time
	evals      int64
	classes    map[string]int64
	nt         map[uint64]struct{}
	first      []any
	bottom     []sample // bottom-k by hash: deterministic, mergeable sample
	knownHits  map[string]int64
	knownText  map[string]string
	violations int
	reported   map[string]bool
	lastFail   *failure
	rule       string
	assume     []string
	exSub      []string
	exhaustive bool
	extra      map[string]any
}

const nFirst, nBottom = 3, 7

var (
	recMu sync.Mutex
	recs  = map[string]*Rec{}
)

// For returns the process-wide recorder of a property.
func For(prop string) *Rec {
	recMu.Lock()
	defer recMu.Unlock()
	if r, ok := recs[prop]; ok {
		return r
	}
	r := &Rec{Prop: prop, start: time.Now(), classes: map[string]int64{}, nt: map[uint64]struct{}{},
		knownHits: map[string]int64{}, knownText: map[string]string{}, reported: map[string]bool{}, extra: map[string]any{}}
	recs[prop] = r
	return r
}

// Active reports whether this property was selected by the driver.
func (r *Rec) Active() bool {
	s := SelectedProp()
	return s == "" || s == r.Prop
}

func Hash(s string) uint64 {
	h := fnv.New64a()
	h.Write([]byte(s))
	return h.Sum64()
}

func (r *Rec) SetRule(s string)            { r.mu.Lock(); r.rule = s; r.mu.Unlock() }
func (r *Rec) Assume(s ...string)          { r.mu.Lock(); r.assume = append(r.assume, s...); r.mu.Unlock() }
func (r *Rec) ExhaustiveSub(s string)      { r.mu.Lock(); r.exSub = append(r.exSub, s); r.mu.Unlock() }
func (r *Rec) SetExhaustive(b bool)        { r.mu.Lock(); r.exhaustive = b; r.mu.Unlock() }
func (r *Rec) SetExtra(k string, v any)    { r.mu.Lock(); r.extra[k] = v; r.mu.Unlock() }
func (r *Rec) Count(label string, n int64) { r.mu.Lock(); r.classes[label] += n; r.mu.Unlock() }

// Case records one executed case: its class label, whether it is non-trivial
// by the property's rule, a canonical key (hashed for distinctness) and a lazy
// sample constructor.
func (r *Rec) Case(class string, nontrivial bool, key string, mk func() any) {
	h := Hash(key)
	r.mu.Lock()
	defer r.mu.Unlock()
	r.evals++
	if class != "" {
		r.classes[class]++
	}
	if !nontrivial {
		return
	}
	if _, dup := r.nt[h]; dup {
		return
	}
	r.nt[h] = struct{}{}
	if mk == nil {
		return
	}
	if len(r.first) < nFirst {
		r.first = append(r.first, mk())
		return
	}
	if len(r.bottom) < nBottom {
		r.bottom = append(r.bottom, sample{h, mk()})
		sort.Slice(r.bottom, func(i, j int) bool { return r.bottom[i].h < r.bottom[j].h })
		return
	}
	if h < r.bottom[len(r.bottom)-1].h {
		r.bottom[len(r.bottom)-1] = sample{h, mk()}
		sort.Slice(r.bottom, func(i, j int) bool { return r.bottom[i].h < r.bottom[j].h })
	}
}

// Known reports whether a deviation signature is listed in KNOWN_FINDINGS.txt
// for this property, and counts the hit.
func (r *Rec) Known(sig string) bool {
	loadKnown()
	for _, kf := range kfList {
		if kf.Prop != r.Prop {
			continue
		}
		if ok, _ := path.Match(kf.Sig, sig); ok || kf.Sig == sig {
			r.mu.Lock()
			r.knownHits[kf.ID]++
			r.knownText[kf.ID] = kf.Text
			r.mu.Unlock()
			return true
		}
	}
	return false
}

func sanitize(s string) string {
	var b strings.Builder
	for _, c := range s {
		if c == ' ' || c == '\n' || c == '\t' || c == '\r' {
			b.WriteByte('_')
		} else {
			b.WriteRune(c)
		}
	}
	return b.String()
}

// Sig builds a whitespace-free signature from parts.
func Sig(parts ...string) string { return sanitize(strings.Join(parts, "|")) }

// Fail is used inside a rapid property: it remembers the failing case (rapid
// re-runs the shrunk case last, so the remembered one is minimal) and fails the
// rapid test.  Known findings must be filtered by the caller *before* Fail.
func (r *Rec) Fail(t *rapid.T, sig, kind string, c any, format string, args ...any) {
	msg := fmt.Sprintf(format, args...)
	r.mu.Lock()
	r.lastFail = &failure{Sig: sig, Kind: kind, Case: c, Msg: msg}
	r.mu.Unlock()
	t.Fatalf("%s: %s", sig, msg)
}

// Violation is used outside rapid (enumerators, replay): it writes the replay
// file immediately and prints the VIOLATION line (at most once per signature,
// at most 5 per process).
func (r *Rec) Violation(tb testing.TB, sig, kind string, c any, format string, args ...any) {
	msg := fmt.Sprintf(format, args...)
	r.mu.Lock()
	r.violations++
	dup := r.reported[sig] || len(r.reported) >= 5
	r.reported[sig] = true
	r.mu.Unlock()
	if os.Getenv("VERIF_DEBUG") != "" {
		fmt.Fprintf(os.Stdout, "DEV %s %s :: %.400s\n", r.Prop, sig, strings.ReplaceAll(msg, "\n", " "))
	}
	if tb != nil && !dup {
		tb.Errorf("%s %s: %s", r.Prop, sig, msg)
	} else if tb != nil {
		tb.Fail()
	}
	if dup || !r.Active() {
		return
	}
	r.emit(&failure{Sig: sig, Kind: kind, Case: c, Msg: msg})
}

func (r *Rec) emit(f *failure) {
	doc := map[string]any{"property": r.Prop, "sig": f.Sig, "kind": f.Kind, "message": f.Msg, "case": f.Case,
		"tier": Tier(), "seed": SeedValue(), "shard": Shard(), "local_zone": LocalZoneName()}
	b, err := json.MarshalIndent(doc, "", " ")
	if err != nil {
		b = []byte(fmt.Sprintf(`{"property":%q,"sig":%q,"kind":%q,"message":%q,"case":null,"marshal_error":%q}`, r.Prop, f.Sig, f.Kind, f.Msg, err.Error()))
	}
	dir := filepath.Join(Root(), "replays")
	os.MkdirAll(dir, 0o755)
	p := filepath.Join(dir, fmt.Sprintf("%s-%016x.json", r.Prop, Hash(f.Sig+"\x00"+string(b))))
	os.WriteFile(p, b, 0o644)
	fmt.Fprintf(os.Stdout, "\nVIOLATION property=%s replay=%s\n", r.Prop, p)
	fmt.Fprintf(os.Stdout, "  sig=%s\n  %s\n", f.Sig, strings.ReplaceAll(f.Msg, "\n", "\n  "))
}

// Rapid runs a rapid property with a fixed seed/check count and converts a
// failure into a replay file + VIOLATION line for rec.
func Rapid(t *testing.T, rec *Rec, salt, checks int, prop func(*rapid.T)) {
	t.Helper()
	flag.Set("rapid.checks", strconv.Itoa(checks))
	flag.Set("rapid.seed", strconv.FormatUint(RapidSeed(salt), 10))
	flag.Set("rapid.nofailfile", "true")
	if os.Getenv("VERIF_SHRINKTIME") != "" {
		flag.Set("rapid.shrinktime", os.Getenv("VERIF_SHRINKTIME"))
	} else {
		flag.Set("rapid.shrinktime", "20s")
	}
	rec.mu.Lock()
	rec.lastFail = nil
	rec.mu.Unlock()
	defer func() {
		if !t.Failed() {
			return
		}
		rec.mu.Lock()
		f := rec.lastFail
		rec.lastFail = nil
		rec.violations++
		rec.mu.Unlock()
		if !rec.Active() {
			return
		}
		if f == nil {
			f = &failure{Sig: "harness-or-panic", Kind: "none", Msg: "rapid reported a failure that did not go through Rec.Fail (panic in the property?) in " + t.Name()}
		}
		rec.emit(f)
	}()
	rapid.Check(t, prop)
}

// ---------------------------------------------------------------------------
// flushing

type partial struct {
	Prop        string            `json:"property_id"`
	Tier        string            `json:"tier"`
	Seed        int               `json:"seed"`
	Shard       int               `json:"shard"`
	Evals       int64             `json:"evaluations"`
	NT          []uint64          `json:"nt_hashes"`
	Classes     map[string]int64  `json:"classes"`
	First       []any             `json:"first"`
	Bottom      []map[string]any  `json:"bottom"`
	KnownHits   map[string]int64  `json:"known_finding_hits"`
	KnownText   map[string]string `json:"known_finding_text"`
	Violations  int               `json:"violations"`
	Rule        string            `json:"rule"`
	Assumptions []string          `json:"assumptions"`
	ExSub       []string          `json:"exhaustive_subdomains"`
	Exhaustive  bool              `json:"exhaustive"`
	Extra       map[string]any    `json:"extra"`
	WallS       float64           `json:"wall_s"`
}

// FlushAll writes one partial evidence file per recorder into $VERIF_OUT.
func FlushAll() {
	out := os.Getenv("VERIF_OUT")
	recMu.Lock()
	defer recMu.Unlock()
	for _, r := range recs {
		r.mu.Lock()
		p := partial{Prop: r.Prop, Tier: Tier(), Seed: SeedValue(), Shard: Shard(), Evals: r.evals, Classes: r.classes,
			First: r.first, KnownHits: r.knownHits, KnownText: r.knownText, Violations: r.violations, Rule: r.rule,
			Assumptions: r.assume, ExSub: r.exSub, Exhaustive: r.exhaustive, Extra: r.extra, WallS: time.Since(r.start).Seconds()}
		for h := range r.nt {
			p.NT = append(p.NT, h)
		}
		for _, s := range r.bottom {
			p.Bottom = append(p.Bottom, map[string]any{"h": s.h, "v": s.v})
		}
		// KNOWN-FINDING lines: one per listed finding that was hit.
		ids := make([]string, 0, len(r.knownHits))
		for id := range r.knownHits {
			ids = append(ids, id)
		}
		sort.Strings(ids)
		if r.Active() {
			for _, id := range ids {
				fmt.Fprintf(os.Stdout, "KNOWN-FINDING: property=%s id=%s hits=%d %s\n", r.Prop, id, r.knownHits[id], r.knownText[id])
			}
		}
		r.mu.Unlock()
		if out == "" {
			continue
		}
		os.MkdirAll(out, 0o755)
		b, err := json.Marshal(p)
		if err != nil {
			fmt.Fprintf(os.Stderr, "vev: cannot marshal evidence for %s: %v\n", r.Prop, err)
			// retry without samples
			p.First, p.Bottom = nil, nil
			b, _ = json.Marshal(p)
		}
		os.WriteFile(filepath.Join(out, fmt.Sprintf("%s.%d.json", r.Prop, Shard())), b, 0o644)
	}
}

// Main is the common TestMain body.
func Main(m *testing.M) {
	UseLocalZone(LocalZoneFor(SeedValue(), Shard()))
	code := m.Run()
	FlushAll()
	os.Exit(code)
}

// ---------------------------------------------------------------------------
// replay files

type ReplayDoc struct {
	Property string          `json:"property"`
	Sig      string          `json:"sig"`
	Kind     string          `json:"kind"`
	Message  string          `json:"message"`
	Case     json.RawMessage `json:"case"`
	LocalZone string `json:"local_zone,omitempty"` // the process' local time zone when the case was found
	// findings/ witnesses only:
	Expect string `json:"expect,omitempty"` // "pass" (fixed) or "known" (still failing, listed)
	Note   string `json:"note,omitempty"`
}

func LoadReplay(p string) (*ReplayDoc, error) {
	b, err := os.ReadFile(p)
	if err != nil {
		return nil, err
	}
	var d ReplayDoc
	if err := json.Unmarshal(b, &d); err != nil {
		return nil, err
	}
	return &d, nil
}

// ReplayFile is the file the driver asked to replay ("" = none).
func ReplayFile() string { return os.Getenv("VERIF_REPLAY") }

// Witnesses lists /verif/findings/<prop>-*.json.
func Witnesses(prop string) []string {
	l, _ := filepath.Glob(filepath.Join(Root(), "findings", prop+"-*.json"))
	sort.Strings(l)
	return l
}

// Outcome of re-executing a case: "" = property held; otherwise a signature and
// message of the deviation.
type Outcome struct {
	Sig, Msg string
}

func (o Outcome) OK() bool { return o.Sig == "" }

// RunReplays implements the two replay duties of a package for property rec:
// (1) VERIF_REPLAY=<file>: re-execute that file, report a violation if it still
// deviates (and is not a known finding); (2) otherwise re-execute every
// committed witness of the property: a "pass" witness must hold, a "known"
// witness should still deviate with a listed signature.
func RunReplays(t *testing.T, rec *Rec, exec func(kind string, c json.RawMessage) (Outcome, error)) {
	if !rec.Active() {
		return
	}
	files := Witnesses(rec.Prop)
	explicit := false
	if f := ReplayFile(); f != "" {
		files, explicit = []string{f}, true
	}
	for _, f := range files {
		d, err := LoadReplay(f)
		if err != nil {
			t.Errorf("replay %s: %v", f, err)
			continue
		}
		if d.Property != rec.Prop {
			continue
		}
		prev := LocalZoneName()
		if d.LocalZone != "" {
			UseLocalZone(d.LocalZone)
		}
		o, err := exec(d.Kind, d.Case)
		UseLocalZone(prev)
		if err != nil {
			t.Errorf("replay %s: cannot execute: %v", f, err)
			continue
		}
		rec.Count("replayed-witness", 1)
		switch {
		case o.OK():
			if explicit {
				fmt.Fprintf(os.Stdout, "REPLAY-OK property=%s file=%s\n", rec.Prop, f)
			} else if d.Expect == "known" {
				fmt.Fprintf(os.Stdout, "NOTE property=%s witness %s of a known finding no longer deviates (stale entry?)\n", rec.Prop, filepath.Base(f))
			}
		case rec.Known(o.Sig):
			// listed: FlushAll prints the KNOWN-FINDING line
		default:
			rec.Violation(t, o.Sig, d.Kind, d.Case, "witness %s: %s", filepath.Base(f), o.Msg)
		}
	}
}

// B is a string that may hold arbitrary bytes; it is (un)marshalled as a Go
// quoted ASCII literal so that replay files reproduce invalid UTF-8 exactly.
type B string

func (b B) MarshalJSON() ([]byte, error) {
	return json.Marshal(strconv.QuoteToASCII(string(b)))
}

func (b *B) UnmarshalJSON(data []byte) error {
	var q string
	if err := json.Unmarshal(data, &q); err != nil {
		return err
	}
	s, err := strconv.Unquote(q)
	if err != nil {
		return err
	}
	*b = B(s)
	return nil
}
