package vev
import _ "pgregory.net/rapid"
import _ "github.com/emersion/go-webdav"
