// C16 — wire primitives round-trip exactly and reject what they cannot represent.
package c16

import (
	"bufio"
	"context"
	"encoding/json"
	"encoding/xml"
	"fmt"
	"net/http"
	"net/http/httptest"
	"net/url"
	"regexp"
	"strings"
	"testing"
	"time"
	"unicode/utf8"

	"github.com/emersion/go-ical"
	webdav "github.com/emersion/go-webdav"
	"github.com/emersion/go-webdav/caldav"
	"github.com/emersion/go-webdav/internal"
	"github.com/emersion/go-webdav/verifharness/vdbl"
	"github.com/emersion/go-webdav/verifharness/vev"
	"github.com/emersion/go-webdav/verifharness/vwire"
	"pgregory.net/rapid"
)

var rec = vev.For("C16")

func TestMain(m *testing.M) {
	rec.SetRule("per primitive an encode->decode identity over its domain and a rejection set: entity tags (any byte string; codec, HTTP header through CalDAV server+client, XML through PROPFIND+client), status lines (every code 100-999 x generated phrases), HTTP dates and CalDAV UTC date-times (instants in years 1-9999 in arbitrary fixed zones and in real zones with DST rules around their offset changes (zone database embedded in the test binary); the latter end-to-end through QueryCalendar capture and REPORT->backend), Depth and Overwrite (complete), hrefs (absolute paths with non-empty first segment, any bytes); rejection: enumerated near-misses plus random texts that a harness-side recogniser places outside the grammar. non-trivial = identity: the value needs escaping or a zone conversion; rejection: every text; distinct by (primitive, value)")
	rec.Assume("a status text with fewer than three fields is not in the rejection set when it is empty (absent status); 'HTTP/1.1 200' without reason phrase is not asserted either way", "leniency of net/url and net/http parsers themselves (e.g. blanks inside a path) is not counted against the library")
	vev.Main(m)
}

type Case struct {
	Prim string `json:"prim"`
	Mode string `json:"mode"` // identity | reject
	S    vev.B  `json:"s,omitempty"`
	N    int64  `json:"n,omitempty"`  // code / unix seconds
	Z    int    `json:"z,omitempty"`  // zone offset seconds
	NS   int    `json:"ns,omitempty"` // sub-second part
	TZ   string `json:"tz,omitempty"` // a real zone with DST rules (embedded zone database); overrides Z
}

func out(prim, kind, f string, a ...any) vev.Outcome {
	return vev.Outcome{Sig: vev.Sig(prim, kind), Msg: fmt.Sprintf(f, a...)}
}

func instant(c Case) time.Time {
	if c.TZ != "" {
		return time.Unix(c.N, int64(c.NS)).In(vev.Zone(c.TZ))
	}
	return time.Unix(c.N, int64(c.NS)).In(time.FixedZone("", c.Z))
}

// genZoned: an instant in a real zone, mostly within two hours of one of its offset changes (both occurrences of a
// repeated wall-clock hour, both sides of a skipped one)
func genZoned(rt *rapid.T) (n int64, tz string, ns int) {
	tz = rapid.SampledFrom(vev.Zones).Draw(rt, "tz")
	tr := vev.Transitions(tz)
	if len(tr) == 0 || rapid.IntRange(0, 3).Draw(rt, "anywhere") == 0 {
		n = rapid.Int64Range(0, 4102444800).Draw(rt, "unix-zoned")
	} else {
		n = tr[rapid.IntRange(0, len(tr)-1).Draw(rt, "transition")] + rapid.Int64Range(-7300, 7300).Draw(rt, "delta")
	}
	ns = rapid.SampledFrom([]int{0, 0, 1, 999999999}).Draw(rt, "ns")
	return
}

func needsEscape(s string) bool {
	if !utf8.ValidString(s) {
		return true
	}
	for _, r := range s {
		if r < 0x21 || r > 0x7e || strings.ContainsRune(`"\%#?;+'<>&`, r) {
			return true
		}
	}
	return false
}

// ---------------------------------------------------------------------------

func evaluate(c Case) (o vev.Outcome) {
	defer func() {
		if p := recover(); p != nil {
			o = out(c.Prim, "panic", "%s: panic: %v", mustJSON(c), p)
		}
	}()
	s := string(c.S)
	switch c.Prim + "/" + c.Mode {
	case "etag/identity":
		// the announced form of a tag matches the tag (whatever characters it holds: commas, quotes, ...)
		if s != "" {
			if ok, err := webdav.ConditionalMatch(internal.ETag(s).String()).MatchETag(s); err != nil || !ok {
				return out("etag", "matchetag", "ConditionalMatch(%q).MatchETag(%q) = %v, %v", internal.ETag(s).String(), s, ok, err)
			}
		}
		e := internal.ETag(s)
		txt, err := e.MarshalText()
		if err != nil || string(txt) != e.String() {
			return out("etag", "marshal", "MarshalText(%q) = %q, %v; String() = %q", s, txt, err, e.String())
		}
		var d internal.ETag
		if err := d.UnmarshalText(txt); err != nil || string(d) != s {
			return out("etag", "codec-roundtrip", "tag %q encodes to %q and decodes to %q, %v", s, txt, string(d), err)
		}
		if got, err := webdav.ConditionalMatch(txt).ETag(); err != nil || got != s {
			return out("etag", "conditionalmatch", "ConditionalMatch(%q).ETag() = %q, %v", txt, got, err)
		}
		// through an XML element
		b, err := xml.Marshal(&internal.GetETag{ETag: e})
		if err != nil {
			return out("etag", "xml-marshal", "cannot marshal getetag for %q: %v", s, err)
		}
		var g internal.GetETag
		if err := xml.Unmarshal(b, &g); err != nil || string(g.ETag) != s {
			return out("etag", "xml-roundtrip", "tag %q through getetag %q gives %q, %v", s, b, string(g.ETag), err)
		}
	case "etag-header/identity":
		// backend tag -> CalDAV server ETag header -> CalDAV client
		cal := ical.NewCalendar()
		cal.Props.SetText(ical.PropVersion, "2.0")
		cal.Props.SetText(ical.PropProductID, "-//verif//EN")
		ev := ical.NewEvent()
		ev.Props.SetText(ical.PropUID, "u")
		ev.Props.SetDateTime(ical.PropDateTimeStamp, time.Unix(0, 0).UTC())
		ev.Props.SetDateTime(ical.PropDateTimeStart, time.Unix(0, 0).UTC())
		cal.Children = append(cal.Children, ev.Component)
		b := &vdbl.CalBackend{Principal: "/u/", HomeSet: "/u/cal/", Objects: map[string][]caldav.CalendarObject{"/u/cal/c/": {{Path: "/u/cal/c/o.ics", ETag: s, Data: cal}}}}
		hc, _ := vwire.Client(&caldav.Handler{Backend: b})
		cl, _ := caldav.NewClient(hc, "http://dav.example/")
		got, err := cl.GetCalendarObject(context.Background(), "/u/cal/c/o.ics")
		if err != nil {
			return out("etag-header", "error", "tag %q: GetCalendarObject failed: %v", s, err)
		}
		if got.ETag != s {
			return out("etag-header", "roundtrip", "backend tag %q reached the client as %q", s, got.ETag)
		}
	case "etag-xml/identity":
		// backend tag -> PROPFIND getetag -> webdav.Client.Stat
		fs := vdbl.NewMemFS()
		fs.Add(webdav.FileInfo{Path: "/f", Size: 3, ETag: s, ModTime: time.Unix(1e9, 0)}, []byte("abc"))
		hc, _ := vwire.Client(&webdav.Handler{FileSystem: fs})
		cl, _ := webdav.NewClient(hc, "http://dav.example/")
		fi, err := cl.Stat(context.Background(), "/f")
		if err != nil {
			return out("etag-xml", "error", "tag %q: Stat failed: %v", s, err)
		}
		if fi.ETag != s {
			return out("etag-xml", "roundtrip", "backend tag %q reached the client as %q", s, fi.ETag)
		}
	case "etag/reject":
		var d internal.ETag
		if err := d.UnmarshalText([]byte(s)); err == nil {
			return out("etag", "accepted-outside-grammar", "text %q is not a quoted string but decodes to tag %q", s, string(d))
		}
		if got, err := webdav.ConditionalMatch(s).ETag(); err == nil {
			return out("etag", "conditionalmatch-accepted", "ConditionalMatch(%q).ETag() = %q without error", s, got)
		}
	case "status/identity":
		st := internal.Status{Code: int(c.N), Text: s}
		txt, err := st.MarshalText()
		if err != nil {
			return out("status", "marshal", "%v", err)
		}
		var d internal.Status
		if err := d.UnmarshalText(txt); err != nil {
			return out("status", "decode-error", "status %d %q encodes to %q which does not decode: %v", c.N, s, txt, err)
		}
		want := s
		if want == "" {
			want = http.StatusText(int(c.N))
		}
		if d.Code != int(c.N) || d.Text != want {
			return out("status", "roundtrip", "status %d %q encodes to %q and decodes to %d %q", c.N, s, txt, d.Code, d.Text)
		}
	case "status/reject":
		var d internal.Status
		if err := d.UnmarshalText([]byte(s)); err == nil {
			return out("status", "accepted-outside-grammar", "text %q is not a status line but decodes to %d %q", s, d.Code, d.Text)
		}
	case "httpdate/identity":
		tm := instant(c)
		it := internal.Time(tm)
		txt, err := it.MarshalText()
		if err != nil {
			return out("httpdate", "marshal", "%v", err)
		}
		var d internal.Time
		if err := d.UnmarshalText(txt); err != nil {
			return out("httpdate", "decode-error", "instant %v encodes to %q which does not decode: %v", tm, txt, err)
		}
		if time.Time(d).Unix() != tm.Unix() {
			return out("httpdate", "roundtrip", "instant %v (unix %d) encodes to %q and decodes to %v (unix %d)", tm, tm.Unix(), txt, time.Time(d), time.Time(d).Unix())
		}
		if !strings.HasSuffix(string(txt), " GMT") {
			return out("httpdate", "not-gmt", "instant %v encodes to %q", tm, txt)
		}
	case "httpdate/reject":
		var d internal.Time
		if err := d.UnmarshalText([]byte(s)); err == nil {
			return out("httpdate", "accepted-outside-grammar", "text %q is not an HTTP-date but decodes to %v", s, time.Time(d))
		}
	case "depth/identity":
		d, err := internal.ParseDepth(s)
		if err != nil || d.String() != s {
			return out("depth", "roundtrip", "ParseDepth(%q) = %v, %v; String() = %q", s, d, err, d.String())
		}
		for _, x := range []internal.Depth{internal.DepthZero, internal.DepthOne, internal.DepthInfinity} {
			if p, err := internal.ParseDepth(x.String()); err != nil || p != x {
				return out("depth", "roundtrip", "Depth %d -> %q -> %v, %v", x, x.String(), p, err)
			}
		}
	case "depth/reject":
		if d, err := internal.ParseDepth(s); err == nil {
			return out("depth", "accepted-outside-grammar", "ParseDepth(%q) = %v without error", s, d)
		}
	case "overwrite/identity":
		v, err := internal.ParseOverwrite(s)
		if err != nil || internal.FormatOverwrite(v) != s {
			return out("overwrite", "roundtrip", "ParseOverwrite(%q) = %v, %v", s, v, err)
		}
		for _, b := range []bool{true, false} {
			if p, err := internal.ParseOverwrite(internal.FormatOverwrite(b)); err != nil || p != b {
				return out("overwrite", "roundtrip", "%v -> %q -> %v, %v", b, internal.FormatOverwrite(b), p, err)
			}
		}
		// end to end: every combination of the two options of Copy and of the one of Move reaches the server's
		// FileSystem as given (added after seeded change C16-s10: the two header translations are independent)
		for _, noRec := range []bool{false, true} {
			for _, noOver := range []bool{false, true} {
				var gotCopy *webdav.CopyOptions
				var gotMove *webdav.MoveOptions
				fs := &optionSpy{onCopy: func(o *webdav.CopyOptions) { gotCopy = o }, onMove: func(o *webdav.MoveOptions) { gotMove = o }}
				hc, _ := vwire.Client(&webdav.Handler{FileSystem: fs})
				cl, err := webdav.NewClient(hc, "http://dav.example/")
				if err != nil {
					return out("overwrite", "harness", "%v", err)
				}
				if err := cl.Copy(context.Background(), "/a", "/b", &webdav.CopyOptions{NoRecursive: noRec, NoOverwrite: noOver}); err != nil || gotCopy == nil || gotCopy.NoRecursive != noRec || gotCopy.NoOverwrite != noOver {
					return out("overwrite", "copy-options", "Copy with NoRecursive=%v NoOverwrite=%v reached the FileSystem as %+v (%v)", noRec, noOver, gotCopy, err)
				}
				if !noRec {
					if err := cl.Move(context.Background(), "/a", "/b", &webdav.MoveOptions{NoOverwrite: noOver}); err != nil || gotMove == nil || gotMove.NoOverwrite != noOver {
						return out("overwrite", "move-options", "Move with NoOverwrite=%v reached the FileSystem as %+v (%v)", noOver, gotMove, err)
					}
				}
			}
		}
	case "overwrite/reject":
		if v, err := internal.ParseOverwrite(s); err == nil {
			return out("overwrite", "accepted-outside-grammar", "ParseOverwrite(%q) = %v without error", s, v)
		}
	case "href/identity":
		h := internal.Href{Path: s}
		txt, err := h.MarshalText()
		if err != nil || string(txt) != h.String() {
			return out("href", "marshal", "%q: %q %v", s, txt, err)
		}
		var d internal.Href
		if err := d.UnmarshalText(txt); err != nil {
			return out("href", "decode-error", "path %q encodes to %q which does not decode: %v", s, txt, err)
		}
		if d.Path != s || d.Host != "" || d.Scheme != "" || d.RawQuery != "" || d.Fragment != "" {
			return out("href", "roundtrip", "path %q encodes to %q and decodes to path %q host %q query %q fragment %q", s, txt, d.Path, d.Host, d.RawQuery, d.Fragment)
		}
		// inside an XML element
		b, err := xml.Marshal(&internal.Location{Href: h})
		if err != nil {
			return out("href", "xml-marshal", "%v", err)
		}
		var l internal.Location
		if err := xml.Unmarshal(b, &l); err != nil || l.Href.Path != s {
			return out("href", "xml-roundtrip", "path %q through %q gives %q, %v", s, b, l.Href.Path, err)
		}
		// as the request-target and as the Destination header of a client call (added after seeded change C16-s9)
		var seenPath, seenDest string
		hc, _ := vwire.Client(http.HandlerFunc(func(w http.ResponseWriter, r *http.Request) {
			seenPath, seenDest = r.URL.Path, r.Header.Get("Destination")
			w.WriteHeader(http.StatusCreated)
		}))
		if cl, err := webdav.NewClient(hc, "http://dav.example/"); err == nil {
			if err := cl.Mkdir(context.Background(), s); err == nil && seenPath != s {
				return out("href", "request-target", "Mkdir(%q) reached the server as %q", s, seenPath)
			}
			if err := cl.Move(context.Background(), "/src", s, nil); err == nil {
				if u, perr := url.Parse(seenDest); perr != nil {
					return out("href", "destination-header", "Move(.., %q) sent Destination %q: %v", s, seenDest, perr)
				} else if u.Path != s {
					return out("href", "destination-header", "Move(.., %q) sent Destination %q, which denotes path %q", s, seenDest, u.Path)
				}
			}
		}
	case "href/reject":
		var d internal.Href
		if err := d.UnmarshalText([]byte(s)); err == nil {
			return out("href", "accepted-outside-grammar", "text %q is not a URI reference but decodes to path %q", s, d.Path)
		}
	case "caldate-client/identity":
		return caldateClient(c)
	case "caldate-server/identity":
		return caldateServer(c, instant(c).UTC().Format("20060102T150405Z"), true)
	case "caldate-server/reject":
		return caldateServer(c, s, false)
	default:
		return vev.Outcome{Sig: "bad-case", Msg: "unknown case " + c.Prim + "/" + c.Mode}
	}
	return vev.Outcome{}
}

// optionSpy is a FileSystem that only records the options of Copy and Move.
type optionSpy struct {
	webdav.FileSystem
	onCopy func(*webdav.CopyOptions)
	onMove func(*webdav.MoveOptions)
}

func (f *optionSpy) Copy(ctx context.Context, name, dest string, o *webdav.CopyOptions) (bool, error) {
	f.onCopy(o)
	return true, nil
}

func (f *optionSpy) Move(ctx context.Context, name, dest string, o *webdav.MoveOptions) (bool, error) {
	f.onMove(o)
	return true, nil
}

var timeRangeRe = regexp.MustCompile(`<[A-Za-z0-9:]*time-range[^>]*>`)
var expandRe = regexp.MustCompile(`<[A-Za-z0-9:]*expand[^>]*>`)
var attrRe = regexp.MustCompile(`(start|end)="([^"]*)"`)

func attrs(tag string) map[string]string {
	m := map[string]string{}
	for _, a := range attrRe.FindAllStringSubmatch(tag, -1) {
		m[a[1]] = a[2]
	}
	return m
}

// caldateClient: an instant given in any zone is written as the UTC date-time.
func caldateClient(c Case) vev.Outcome {
	tm := instant(c)
	end := tm.Add(time.Hour)
	capt := &vwire.Capture{}
	cl, _ := caldav.NewClient(capt, "http://dav.example/")
	q := &caldav.CalendarQuery{
		CompRequest: caldav.CalendarCompRequest{Name: "VCALENDAR", AllProps: true, AllComps: true, Expand: &caldav.CalendarExpandRequest{Start: tm, End: end}},
		CompFilter:  caldav.CompFilter{Name: "VCALENDAR", Comps: []caldav.CompFilter{{Name: "VEVENT", Start: tm, End: end}}},
	}
	if _, err := cl.QueryCalendar(context.Background(), "/cal/", q); err != nil {
		return out("caldate-client", "error", "QueryCalendar failed: %v", err)
	}
	ex, _ := capt.Last()
	body := string(ex.Body)
	wantS, wantE := tm.UTC().Format("20060102T150405Z"), end.UTC().Format("20060102T150405Z")
	for _, x := range []struct {
		name string
		re   *regexp.Regexp
	}{{"time-range", timeRangeRe}, {"expand", expandRe}} {
		tag := x.re.FindString(body)
		a := attrs(tag)
		if a["start"] != wantS || a["end"] != wantE {
			return out("caldate-client", x.name, "instant %v (UTC %s) .. %s was written as %s (want start=%q end=%q)", tm, wantS, wantE, tag, wantS, wantE)
		}
	}
	return vev.Outcome{}
}

// caldateServer: a date-time attribute reaches the backend as that instant, or
// is refused with 400 when it is not a UTC date-time.
func caldateServer(c Case, text string, valid bool) vev.Outcome {
	body := `<?xml version="1.0" encoding="utf-8"?><C:calendar-query xmlns:D="DAV:" xmlns:C="urn:ietf:params:xml:ns:caldav"><D:prop><D:getetag/></D:prop><C:filter><C:comp-filter name="VCALENDAR"><C:comp-filter name="VEVENT"><C:time-range start="` + xmlAttr(text) + `"/></C:comp-filter></C:comp-filter></C:filter></C:calendar-query>`
	raw := fmt.Sprintf("REPORT /u/cal/c/ HTTP/1.1\r\nHost: dav.example\r\nDepth: 1\r\nContent-Type: application/xml\r\nContent-Length: %d\r\n\r\n%s", len(body), body)
	req, err := http.ReadRequest(bufio.NewReader(strings.NewReader(raw)))
	if err != nil {
		return vev.Outcome{Sig: "bad-case", Msg: err.Error()}
	}
	b := &vdbl.CalBackend{Principal: "/u/", HomeSet: "/u/cal/"}
	w := httptest.NewRecorder()
	(&caldav.Handler{Backend: b}).ServeHTTP(w, req)
	var q *caldav.CalendarQuery
	for _, call := range b.Log() {
		if call.Op == "QueryCalendarObjects" {
			q = call.Query
		}
	}
	if valid {
		if w.Code != 207 || q == nil || len(q.CompFilter.Comps) != 1 {
			return out("caldate-server", "valid-refused", "time-range start=%q answered %d (%.100q)", text, w.Code, w.Body.String())
		}
		if got := q.CompFilter.Comps[0].Start; got.Unix() != c.N {
			return out("caldate-server", "roundtrip", "time-range start=%q reached the backend as %v (unix %d), want unix %d", text, got, got.Unix(), c.N)
		}
		return vev.Outcome{}
	}
	if w.Code != 400 || q != nil {
		return out("caldate-server", "accepted-outside-grammar", "time-range start=%q is not a UTC date-time but answered %d (backend called: %v)", text, w.Code, q != nil)
	}
	return vev.Outcome{}
}

func xmlAttr(s string) string {
	var b strings.Builder
	xml.EscapeText(&b, []byte(s))
	return strings.ReplaceAll(b.String(), `"`, "&quot;")
}

// ---------------------------------------------------------------------------

func run(t *testing.T, rt *rapid.T, c Case, nontrivial bool) {
	rec.Case(c.Prim+"/"+c.Mode, nontrivial, mustJSON(c), func() any { return c })
	o := evaluate(c)
	if o.OK() || rec.Known(o.Sig) {
		return
	}
	if rt != nil {
		rec.Fail(rt, o.Sig, "c16", c, "%s", o.Msg)
	} else {
		rec.Violation(t, o.Sig, "c16", c, "%s", o.Msg)
	}
}

func TestAReplay(t *testing.T) {
	vev.RunReplays(t, rec, func(kind string, raw json.RawMessage) (vev.Outcome, error) {
		var c Case
		if err := json.Unmarshal(raw, &c); err != nil {
			return vev.Outcome{}, err
		}
		return evaluate(c), nil
	})
}

var rejects = map[string][]string{
	"etag": {`abc`, `"abc`, `abc"`, `W/"abc"`, `"a", "b"`, ` "a"`, `"a" `, "\"a\nb\"", `"\q"`, `'a'`, "`a`", `""x`, ``, `"`, `"a"b"`, `*`, `"a" "b"`, `w/"a"`, `'"a"'`, "\t\"a\"", `"\x"`, `"\u12"`, `"\400"`},
	"status": {"HTTP/1.1", "HTTP/1.1 200", "HTTP/1.1 abc OK", "HTTP/1.1\t200\tOK", " HTTP/1.1 200 OK", "HTTP/1.1 +200 OK", "HTTP/1.1 -1 OK", "HTTP/1.1 20 OK", "HTTP/1.1 2000 OK",
		"HTTP/1.1 0200 OK", "FOO 200 OK", "200 OK", "200 OK OK", "HTTP/1.1  200 OK", "HTTP/1.1 2e2 OK", "HTTP/1.1 0x1f OK", "HTTP/1.1 ２００ OK", "OK", "HTTP/1.1 200.0 OK", "HTTP/1.1 1_0 OK", "http/1.1 -200 OK",
		"HTTP/A 000 ", "HTTP/ 200 OK", "HTTP/1 200 OK", "HTTP/1.x 200 OK", "HTTP/.1 200 OK", "HTTP/1. 200 OK", "HTTP/+1.1 200 OK", "HTTPS/1.1 200 OK", "HTTP/1.1.1 200 OK"},
	"httpdate": {"2006-01-02T15:04:05Z", "Mon, 02 Jan 2006 15:04:05 +0000", "Mon, 02 Jan 2006 15:04:05 UTC", "Mon, 02 Jan 2006 15:04:05 GMT ", "Mon, 02 Jan 2006 24:00:00 GMT", "",
		"Mon, 32 Jan 2006 15:04:05 GMT", "0", "now", "Mon, 02 Jan 2006 15:04:05", "02 Jan 2006 15:04:05 GMT", "Mon, 02 Foo 2006 15:04:05 GMT", "Mon, 2 Jan 2006 15:04:05 GMT", "1136214245", " Mon, 02 Jan 2006 15:04:05 GMT", "Mon, 02 Jan 2006 15:04:60 GMT", "Mon, 02 Jan 2006 15:04:05 PST"},
	"depth":     {"", " 0", "0 ", "00", "2", "-1", "Infinity", "INFINITY", "infinite", "0,1", "1, infinity", "01", "+1", "1.0", "inf", "∞", "0\t", "true"},
	"overwrite": {"", "t", "f", " T", "T ", "true", "false", "TRUE", "1", "0", "yes", "no", "TF", "T,F", "Т"},
	"href":      {"%zz", "/a%", "/a%2", "/%g1", "http://[::1", "http://h:abc/", "/a\x7f", "/a\nb", "http://h\x00/", "http://[fe80::1%en0]/", "/a%\x00", ":", "1http://h/", "/\x00", "\x01"},
}

var caldateRejects = []string{"20060102T150405", "20060102T150405+0100", "20060102", "2006-01-02T15:04:05Z", "20060102T1504Z", "", "20060102T150405z", "20060102t150405Z", "20060132T150405Z", "20060102T250000Z", "20060102T150405ZZ", " 20060102T150405Z", "20060102T150405Z ", "now", "1136214245", "20060102T150405.5Z", "２００６0102T150405Z", "20060102T150405.0Z", "20060102T150405,0Z", "20060102T150405.000Z", "20060102T150405.0000000001Z", "20060102T150405.Z"}

func TestEnumerated(t *testing.T) {
	if vev.ReplayFile() != "" {
		t.Skip()
	}
	for prim, l := range rejects {
		for _, s := range l {
			run(t, nil, Case{Prim: prim, Mode: "reject", S: vev.B(s)}, true)
		}
	}
	for _, s := range caldateRejects {
		run(t, nil, Case{Prim: "caldate-server", Mode: "reject", S: vev.B(s)}, true)
	}
	for _, s := range []string{"0", "1", "infinity"} {
		run(t, nil, Case{Prim: "depth", Mode: "identity", S: vev.B(s)}, true)
	}
	for _, s := range []string{"T", "F"} {
		run(t, nil, Case{Prim: "overwrite", Mode: "identity", S: vev.B(s)}, true)
	}
	phrases := []string{"", "OK", "Not Found", "x", "Multi-Status", " lead", "trail ", "a  b", "é", "tab\there"}
	for code := 100; code <= 999; code++ {
		if !vev.MyShare(code) {
			continue
		}
		for _, p := range phrases {
			run(t, nil, Case{Prim: "status", Mode: "identity", N: int64(code), S: vev.B(p)}, p != "OK")
		}
	}
	// every offset change 2015-2026 of eight real zones x 11 distances: both occurrences of a repeated wall-clock
	// hour and both sides of a skipped one must keep their instant (after C16-s13)
	idx := 0
	for _, tz := range vev.Zones {
		for _, tr := range vev.Transitions(tz) {
			if y := time.Unix(tr, 0).UTC().Year(); y < 2015 || y > 2026 {
				continue
			}
			for _, d := range []int64{-7200, -3601, -3600, -1800, -1, 0, 1, 1799, 1800, 3599, 3600} {
				idx++
				if !vev.MyShare(idx) {
					continue
				}
				run(t, nil, Case{Prim: "httpdate", Mode: "identity", N: tr + d, TZ: tz}, true)
				run(t, nil, Case{Prim: "caldate-client", Mode: "identity", N: tr + d, TZ: tz}, true)
			}
		}
	}
	rec.ExhaustiveSub("Depth {0,1,infinity}, Overwrite {T,F}, status codes 100-999 x 10 phrases, the enumerated near-miss rejection sets of every primitive, and HTTP dates / CalDAV date-times at 11 distances around every offset change 2015-2026 of 8 real zones")
}

func genBytes() *rapid.Generator[string] {
	return rapid.OneOf(
		rapid.SampledFrom([]string{"", "a", "abc123", `"quoted"`, `"a\"b"`, `a"b`, `a\b`, `"`, `\`, "é", "a b", "W/x", "*", "a\nb", "\x00", "\x80\xff", "💥", `\"`, `'a'`, "a\tb", "\r\n", "<&>", "%41", "a?b#c", "+", ";"}),
		rapid.StringMatching(`[a-f0-9]{1,24}`),
		rapid.StringMatching(`[a-z"\\ %#?&<>é\x00-\x1f\x7f-\xff]{0,10}`),
		rapid.String(),
		// long values (after C16-s14: a length guard on one of the routes): 1-9 KiB plain, or 0.3-3 KiB of bytes that
		// each need an escape
		rapid.Custom(func(t *rapid.T) string {
			unit := rapid.SampledFrom([]string{"a", "0123456789abcdef", "\x01", "\"", "é", "\xff"}).Draw(t, "unit")
			n := rapid.SampledFrom([]int{1000, 2047, 4093, 4094, 4095, 4096, 4097, 5000, 9000}).Draw(t, "len") / len(unit)
			return strings.Repeat(unit, n+1)
		}),
	)
}

func genInstant(rt *rapid.T) (n int64, z, ns int) {
	// years 1..9999
	lo := time.Date(1, 1, 1, 0, 0, 0, 0, time.UTC).Unix() + 86400
	hi := time.Date(9999, 12, 31, 0, 0, 0, 0, time.UTC).Unix()
	switch rapid.IntRange(0, 3).Draw(rt, "ikind") {
	case 0:
		n = rapid.Int64Range(lo, hi).Draw(rt, "unix")
	case 1:
		n = rapid.Int64Range(0, 4102444800).Draw(rt, "unix-modern")
	case 2:
		n = rapid.SampledFrom([]int64{lo, hi, 0, -1, 951782400, 1709164800, 1136214245, 253402300799 - 86400}).Draw(rt, "unix-edge")
	default:
		n = rapid.Int64Range(1e9, 2e9).Draw(rt, "unix-recent")
	}
	z = rapid.SampledFrom([]int{0, 0, 3600, -3600, 19800, -34200, 50400, -43200, 45900, 1, -1, 86399 / 2}).Draw(rt, "zone")
	ns = rapid.SampledFrom([]int{0, 0, 1, 500000000, 999999999}).Draw(rt, "ns")
	return
}

var (
	quotedRe = regexp.MustCompile(`^".*"$`)
	statusRe = regexp.MustCompile(`^HTTP/[0-9]+(\.[0-9]+)? [0-9]{3} `)
)

func TestRandom(t *testing.T) {
	if vev.ReplayFile() != "" {
		t.Skip()
	}
	vev.Rapid(t, rec, 0, vev.N(6000, 600000), func(rt *rapid.T) {
		switch rapid.IntRange(0, 11).Draw(rt, "which") {
		case 0, 1:
			s := genBytes().Draw(rt, "tag")
			run(t, rt, Case{Prim: "etag", Mode: "identity", S: vev.B(s)}, needsEscape(s))
		case 2:
			s := genBytes().Draw(rt, "text")
			if len(s) >= 2 && s[0] == '"' && s[len(s)-1] == '"' {
				return // possibly inside the grammar
			}
			run(t, rt, Case{Prim: "etag", Mode: "reject", S: vev.B(s)}, true)
		case 3:
			s := rapid.OneOf(rapid.StringMatching(`[ -~]{0,20}`), rapid.StringMatching(`[A-Za-z \-'é]{0,12}`),
				// long reason phrases (a length guard is as plausible here as on the tag route)
				rapid.Custom(func(t *rapid.T) string {
					return strings.TrimSpace(strings.Repeat(rapid.SampledFrom([]string{"Very Long Reason ", "x", "é "}).Draw(t, "unit"), rapid.SampledFrom([]int{70, 300, 1024, 4096, 9000}).Draw(t, "n")))
				})).Draw(rt, "phrase")
			code := rapid.IntRange(100, 999).Draw(rt, "code")
			if rapid.IntRange(0, 3).Draw(rt, "near-standard") == 0 {
				// phrases that are almost the registered one of this or another code (after C16-s18): letter case,
				// one letter changed, cut short, extended
				code = rapid.SampledFrom([]int{100, 200, 201, 204, 207, 301, 304, 400, 403, 404, 409, 412, 415, 423, 424, 500, 507}).Draw(rt, "std-code")
				std := http.StatusText(rapid.SampledFrom([]int{code, code, code, 200, 404, 207}).Draw(rt, "phrase-of"))
				switch rapid.IntRange(0, 6).Draw(rt, "variant") {
				case 0:
					s = strings.ToUpper(std)
				case 1:
					s = strings.ToLower(std)
				case 2:
					i := rapid.IntRange(0, len(std)-1).Draw(rt, "at")
					s = std[:i] + strings.ToUpper(std[i:i+1]) + std[i+1:]
					if s == std {
						s = std[:i] + strings.ToLower(std[i:i+1]) + std[i+1:]
					}
				case 3:
					s = std[:rapid.IntRange(1, len(std)).Draw(rt, "cut")]
				case 4:
					s = std + rapid.SampledFrom([]string{".", " ", "s", " (x)"}).Draw(rt, "tail")
					s = strings.TrimSpace(s)
				case 5:
					s = strings.ReplaceAll(std, " ", "  ")
				default:
					s = std
				}
			}
			run(t, rt, Case{Prim: "status", Mode: "identity", N: int64(code), S: vev.B(s)}, s != "")
		case 4:
			s := rapid.OneOf(rapid.StringMatching(`(HTTP/1\.1|HTTP|FOO|)[ \t]{0,2}[-+0-9a-fx_.]{0,5}[ \t]{0,2}[A-Za-z ]{0,6}`), genBytes()).Draw(rt, "text")
			if s == "" || statusRe.MatchString(s) {
				return
			}
			run(t, rt, Case{Prim: "status", Mode: "reject", S: vev.B(s)}, true)
		case 5:
			if rapid.IntRange(0, 2).Draw(rt, "zoned") == 0 {
				n, tz, ns := genZoned(rt)
				run(t, rt, Case{Prim: "httpdate", Mode: "identity", N: n, TZ: tz, NS: ns}, true)
				return
			}
			n, z, ns := genInstant(rt)
			run(t, rt, Case{Prim: "httpdate", Mode: "identity", N: n, Z: z, NS: ns}, z != 0 || ns != 0)
		case 6:
			if rapid.IntRange(0, 2).Draw(rt, "zoned") == 0 {
				n, tz, ns := genZoned(rt)
				run(t, rt, Case{Prim: "caldate-client", Mode: "identity", N: n, TZ: tz, NS: ns}, true)
				return
			}
			n, z, ns := genInstant(rt)
			run(t, rt, Case{Prim: "caldate-client", Mode: "identity", N: n, Z: z, NS: ns}, z != 0 || ns != 0)
		case 7:
			n, z, _ := genInstant(rt)
			run(t, rt, Case{Prim: "caldate-server", Mode: "identity", N: n, Z: z}, true)
		case 8:
			s := genBytes().Draw(rt, "text")
			if s != "0" && s != "1" && s != "infinity" {
				run(t, rt, Case{Prim: "depth", Mode: "reject", S: vev.B(s)}, true)
			}
			if s != "T" && s != "F" {
				run(t, rt, Case{Prim: "overwrite", Mode: "reject", S: vev.B(s)}, true)
			}
		case 9, 10:
			// absolute path, first segment non-empty, any bytes
			first := genBytes().Draw(rt, "seg0")
			first = strings.ReplaceAll(first, "/", "")
			if first == "" {
				first = "x"
			}
			p := "/" + first
			for i, n := 0, rapid.IntRange(0, 3).Draw(rt, "nseg"); i < n; i++ {
				p += "/" + genBytes().Draw(rt, "seg")
			}
			run(t, rt, Case{Prim: "href", Mode: "identity", S: vev.B(p)}, needsEscape(p))
		case 11:
			s := genBytes().Draw(rt, "tag")
			if rapid.Bool().Draw(rt, "via") {
				run(t, rt, Case{Prim: "etag-header", Mode: "identity", S: vev.B(s)}, needsEscape(s))
			} else {
				run(t, rt, Case{Prim: "etag-xml", Mode: "identity", S: vev.B(s)}, needsEscape(s))
			}
		}
	})
}

func mustJSON(v any) string {
	b, _ := json.Marshal(v)
	return string(b)
}

var _ = quotedRe

// FuzzDecoders: coverage-guided (thorough tier).  No decoder may panic; what a
// decoder accepts must re-encode to a text that decodes to the same value, and
// must lie inside the primitive's grammar as the harness recognises it.
func FuzzDecoders(f *testing.F) {
	for _, s := range []string{`"abc"`, `W/"x"`, "HTTP/1.1 200 OK", "HTTP/1.1 +200 OK", "Mon, 02 Jan 2006 15:04:05 GMT", "0", "infinity", "T", "/a%20b", "http://h/x", "20060102T150405Z", `'a'`, "\"a\\\"b\""} {
		f.Add(s)
	}
	f.Fuzz(func(t *testing.T, s string) {
		var e internal.ETag
		if err := e.UnmarshalText([]byte(s)); err == nil {
			if len(s) < 2 || s[0] != '"' || s[len(s)-1] != '"' {
				t.Fatalf("etag|accepted-outside-grammar: %q decodes to %q", s, string(e))
			}
			var e2 internal.ETag
			if err := e2.UnmarshalText([]byte(e.String())); err != nil || e2 != e {
				t.Fatalf("etag|reencode: %q -> %q -> %q, %v", s, e.String(), string(e2), err)
			}
		}
		var st internal.Status
		if err := st.UnmarshalText([]byte(s)); err == nil && s != "" {
			if !statusRe.MatchString(s) {
				t.Fatalf("status|accepted-outside-grammar: %q decodes to %d %q", s, st.Code, st.Text)
			}
		}
		var tm internal.Time
		if err := tm.UnmarshalText([]byte(s)); err == nil {
			b, _ := tm.MarshalText()
			var tm2 internal.Time
			if err := tm2.UnmarshalText(b); err != nil || !time.Time(tm2).Equal(time.Time(tm)) {
				t.Fatalf("httpdate|reencode: %q -> %q -> %v, %v", s, b, time.Time(tm2), err)
			}
		}
		if d, err := internal.ParseDepth(s); err == nil && d.String() != s {
			t.Fatalf("depth|accepted-outside-grammar: %q parsed as %v", s, d)
		}
		if v, err := internal.ParseOverwrite(s); err == nil && internal.FormatOverwrite(v) != s {
			t.Fatalf("overwrite|accepted-outside-grammar: %q parsed as %v", s, v)
		}
		var h internal.Href
		if err := h.UnmarshalText([]byte(s)); err == nil && strings.HasPrefix(h.Path, "/") && !strings.HasPrefix(h.Path, "//") && h.Host == "" && h.Scheme == "" && h.Opaque == "" {
			// the property's domain: absolute paths whose first segment is not empty (a path that begins with two
			// slashes cannot be written as a reference without a host: "/%2F " reads as path "// ", which net/url
			// writes as "//%20" - a host; false alarm of this target found by the thorough run of round 7, see DESIGN.md section 10)
			var h2 internal.Href
			if err := h2.UnmarshalText([]byte(h.String())); err != nil || h2.Path != h.Path {
				t.Fatalf("href|reencode: %q -> %q -> path %q vs %q, %v", s, h.String(), h2.Path, h.Path, err)
			}
		}
	})
}
