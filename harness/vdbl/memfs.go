package vdbl

import (
	"bytes"
	"context"
	"fmt"
	"io"
	"sort"
	"strings"
	"sync"

	webdav "github.com/emersion/go-webdav"
)

// MemFS is an in-memory webdav.FileSystem that can hold arbitrary metadata
// and records every call with its arguments.
type MemFS struct {
	mu    sync.Mutex
	Files map[string]*MemFile // key: the path exactly as the backend reports it
	Calls []FSCall
	// results for the mutating calls
	Created bool
	Err     error
}

type MemFile struct {
	Info webdav.FileInfo
	Data []byte
}

type FSCall struct {
	Op          string
	Name, Dest  string
	Recursive   bool
	NoRecursive bool
	NoOverwrite bool
	IfMatch     string
	IfNoneMatch string
	Body        []byte
}

var _ webdav.FileSystem = (*MemFS)(nil)

func NewMemFS() *MemFS { return &MemFS{Files: map[string]*MemFile{}} }

func (m *MemFS) log(c FSCall) { m.mu.Lock(); m.Calls = append(m.Calls, c); m.mu.Unlock() }

func (m *MemFS) Log() []FSCall {
	m.mu.Lock()
	defer m.mu.Unlock()
	return append([]FSCall(nil), m.Calls...)
}

func (m *MemFS) Reset() { m.mu.Lock(); m.Calls = nil; m.mu.Unlock() }

func (m *MemFS) Add(fi webdav.FileInfo, data []byte) {
	m.Files[fi.Path] = &MemFile{Info: fi, Data: data}
}

func norm(p string) string {
	if len(p) > 1 {
		p = strings.TrimSuffix(p, "/")
	}
	return p
}

func (m *MemFS) find(name string) *MemFile {
	if f, ok := m.Files[name]; ok {
		return f
	}
	for k, f := range m.Files {
		if norm(k) == norm(name) {
			return f
		}
	}
	return nil
}

func (m *MemFS) Open(ctx context.Context, name string) (io.ReadCloser, error) {
	m.log(FSCall{Op: "Open", Name: name})
	f := m.find(name)
	if f == nil {
		return nil, webdav.NewHTTPError(404, fmt.Errorf("not found"))
	}
	return io.NopCloser(bytes.NewReader(f.Data)), nil
}

func (m *MemFS) Stat(ctx context.Context, name string) (*webdav.FileInfo, error) {
	m.log(FSCall{Op: "Stat", Name: name})
	f := m.find(name)
	if f == nil {
		return nil, webdav.NewHTTPError(404, fmt.Errorf("not found"))
	}
	fi := f.Info
	return &fi, nil
}

// Members lists the paths ReadDir reports for a collection (itself included).
func (m *MemFS) Members(name string, recursive bool) []string {
	base := norm(name)
	prefix := base + "/"
	if base == "/" {
		prefix = "/"
	}
	var l []string
	for k := range m.Files {
		nk := norm(k)
		if nk == base {
			l = append(l, k)
			continue
		}
		if !strings.HasPrefix(nk, prefix) {
			continue
		}
		rest := nk[len(prefix):]
		if !recursive && strings.Contains(rest, "/") {
			continue
		}
		l = append(l, k)
	}
	sort.Strings(l)
	return l
}

func (m *MemFS) ReadDir(ctx context.Context, name string, recursive bool) ([]webdav.FileInfo, error) {
	m.log(FSCall{Op: "ReadDir", Name: name, Recursive: recursive})
	if m.find(name) == nil {
		return nil, webdav.NewHTTPError(404, fmt.Errorf("not found"))
	}
	var l []webdav.FileInfo
	for _, k := range m.Members(name, recursive) {
		l = append(l, m.Files[k].Info)
	}
	return l, nil
}

func (m *MemFS) Create(ctx context.Context, name string, body io.ReadCloser, opts *webdav.CreateOptions) (*webdav.FileInfo, bool, error) {
	b, err := io.ReadAll(body)
	c := FSCall{Op: "Create", Name: name, Body: b}
	if opts != nil {
		c.IfMatch, c.IfNoneMatch = string(opts.IfMatch), string(opts.IfNoneMatch)
	}
	m.log(c)
	if err != nil {
		return nil, false, err
	}
	if m.Err != nil {
		return nil, false, m.Err
	}
	m.mu.Lock()
	_, existed := m.Files[name]
	fi := webdav.FileInfo{Path: name, Size: int64(len(b)), ETag: fmt.Sprintf("mem%d", len(b))}
	m.Files[name] = &MemFile{Info: fi, Data: b}
	m.mu.Unlock()
	return &fi, !existed, nil
}

func (m *MemFS) RemoveAll(ctx context.Context, name string, opts *webdav.RemoveAllOptions) error {
	c := FSCall{Op: "RemoveAll", Name: name}
	if opts != nil {
		c.IfMatch, c.IfNoneMatch = string(opts.IfMatch), string(opts.IfNoneMatch)
	}
	m.log(c)
	return m.Err
}

func (m *MemFS) Mkdir(ctx context.Context, name string) error {
	m.log(FSCall{Op: "Mkdir", Name: name})
	return m.Err
}

func (m *MemFS) Copy(ctx context.Context, name, dest string, o *webdav.CopyOptions) (bool, error) {
	c := FSCall{Op: "Copy", Name: name, Dest: dest}
	if o != nil {
		c.NoRecursive, c.NoOverwrite = o.NoRecursive, o.NoOverwrite
	}
	m.log(c)
	return m.Created, m.Err
}

func (m *MemFS) Move(ctx context.Context, name, dest string, o *webdav.MoveOptions) (bool, error) {
	c := FSCall{Op: "Move", Name: name, Dest: dest}
	if o != nil {
		c.NoOverwrite = o.NoOverwrite
	}
	m.log(c)
	return m.Created, m.Err
}
