// Package vdbl holds recording / scriptable doubles of the CalDAV and CardDAV
// backends.  They honour the Backend contracts (404 for unknown paths, data
// returned as stored), log every call with copies of the arguments and can be
// scripted to fail a given path with a given HTTP status.
package vdbl

import (
	"context"
	"fmt"
	"sync"

	"github.com/emersion/go-ical"
	"github.com/emersion/go-vcard"
	webdav "github.com/emersion/go-webdav"
	"github.com/emersion/go-webdav/caldav"
	"github.com/emersion/go-webdav/carddav"
)

// ---------------------------------------------------------------------------
// CalDAV

type CalCall struct {
	Op       string
	Path     string
	Query    *caldav.CalendarQuery
	CompReq  *caldav.CalendarCompRequest
	Cal      *ical.Calendar
	Opts     *caldav.PutCalendarObjectOptions
	Calendar *caldav.Calendar
}

type CalBackend struct {
	mu        sync.Mutex
	Principal string
	HomeSet   string
	Calendars []caldav.Calendar
	Objects   map[string][]caldav.CalendarObject // calendar path -> objects
	FailPath  map[string]int                     // object/calendar path -> HTTP status to fail with (negative: wrapped with %w)
	FailOp    map[string]error                   // op name -> error
	PutResult *caldav.CalendarObject             // what PutCalendarObject returns (nil: echo)
	QueryHook func(path string, q *caldav.CalendarQuery) ([]caldav.CalendarObject, error)
	Calls     []CalCall
}

var _ caldav.Backend = (*CalBackend)(nil)

func (b *CalBackend) log(c CalCall) {
	b.mu.Lock()
	b.Calls = append(b.Calls, c)
	b.mu.Unlock()
}

func (b *CalBackend) Log() []CalCall {
	b.mu.Lock()
	defer b.mu.Unlock()
	return append([]CalCall(nil), b.Calls...)
}

func (b *CalBackend) Reset() { b.mu.Lock(); b.Calls = nil; b.mu.Unlock() }

func (b *CalBackend) opErr(op string) error {
	if b.FailOp != nil {
		return b.FailOp[op]
	}
	return nil
}

func (b *CalBackend) pathErr(p string) error {
	if code, ok := b.FailPath[p]; ok {
		if code < 0 {
			// a backend that adds context to its errors: the HTTP error is still in the chain
			return fmt.Errorf("store: %w", webdav.NewHTTPError(-code, fmt.Errorf("scripted failure")))
		}
		return webdav.NewHTTPError(code, fmt.Errorf("scripted failure"))
	}
	return nil
}

func copyCompReq(r *caldav.CalendarCompRequest) *caldav.CalendarCompRequest {
	if r == nil {
		return nil
	}
	c := *r
	c.Props = append([]string(nil), r.Props...)
	c.Comps = nil
	for i := range r.Comps {
		c.Comps = append(c.Comps, *copyCompReq(&r.Comps[i]))
	}
	if r.Expand != nil {
		e := *r.Expand
		c.Expand = &e
	}
	return &c
}

func copyCompFilter(f caldav.CompFilter) caldav.CompFilter {
	c := f
	c.Props = nil
	for _, p := range f.Props {
		q := p
		if p.TextMatch != nil {
			tm := *p.TextMatch
			q.TextMatch = &tm
		}
		q.ParamFilter = nil
		for _, pf := range p.ParamFilter {
			r := pf
			if pf.TextMatch != nil {
				tm := *pf.TextMatch
				r.TextMatch = &tm
			}
			q.ParamFilter = append(q.ParamFilter, r)
		}
		c.Props = append(c.Props, q)
	}
	c.Comps = nil
	for _, ch := range f.Comps {
		c.Comps = append(c.Comps, copyCompFilter(ch))
	}
	return c
}

func (b *CalBackend) CurrentUserPrincipal(ctx context.Context) (string, error) {
	b.log(CalCall{Op: "CurrentUserPrincipal"})
	return b.Principal, b.opErr("CurrentUserPrincipal")
}

func (b *CalBackend) CalendarHomeSetPath(ctx context.Context) (string, error) {
	b.log(CalCall{Op: "CalendarHomeSetPath"})
	return b.HomeSet, b.opErr("CalendarHomeSetPath")
}

func (b *CalBackend) CreateCalendar(ctx context.Context, cal *caldav.Calendar) error {
	c := *cal
	b.log(CalCall{Op: "CreateCalendar", Path: cal.Path, Calendar: &c})
	return b.opErr("CreateCalendar")
}

func (b *CalBackend) ListCalendars(ctx context.Context) ([]caldav.Calendar, error) {
	b.log(CalCall{Op: "ListCalendars"})
	if err := b.opErr("ListCalendars"); err != nil {
		return nil, err
	}
	return append([]caldav.Calendar(nil), b.Calendars...), nil
}

func (b *CalBackend) GetCalendar(ctx context.Context, path string) (*caldav.Calendar, error) {
	b.log(CalCall{Op: "GetCalendar", Path: path})
	if err := b.pathErr(path); err != nil {
		return nil, err
	}
	for i := range b.Calendars {
		if b.Calendars[i].Path == path {
			c := b.Calendars[i]
			return &c, nil
		}
	}
	return nil, webdav.NewHTTPError(404, fmt.Errorf("no such calendar"))
}

func (b *CalBackend) GetCalendarObject(ctx context.Context, path string, req *caldav.CalendarCompRequest) (*caldav.CalendarObject, error) {
	b.log(CalCall{Op: "GetCalendarObject", Path: path, CompReq: copyCompReq(req)})
	if err := b.pathErr(path); err != nil {
		return nil, err
	}
	for _, l := range b.Objects {
		for i := range l {
			if l[i].Path == path {
				o := l[i]
				return &o, nil
			}
		}
	}
	return nil, webdav.NewHTTPError(404, fmt.Errorf("no such object"))
}

func (b *CalBackend) ListCalendarObjects(ctx context.Context, path string, req *caldav.CalendarCompRequest) ([]caldav.CalendarObject, error) {
	b.log(CalCall{Op: "ListCalendarObjects", Path: path, CompReq: copyCompReq(req)})
	if err := b.opErr("ListCalendarObjects"); err != nil {
		return nil, err
	}
	return append([]caldav.CalendarObject(nil), b.Objects[path]...), nil
}

func (b *CalBackend) QueryCalendarObjects(ctx context.Context, path string, q *caldav.CalendarQuery) ([]caldav.CalendarObject, error) {
	var qc *caldav.CalendarQuery
	if q != nil {
		qc = &caldav.CalendarQuery{CompRequest: *copyCompReq(&q.CompRequest), CompFilter: copyCompFilter(q.CompFilter)}
	}
	b.log(CalCall{Op: "QueryCalendarObjects", Path: path, Query: qc})
	if err := b.opErr("QueryCalendarObjects"); err != nil {
		return nil, err
	}
	if b.QueryHook != nil {
		return b.QueryHook(path, q)
	}
	return append([]caldav.CalendarObject(nil), b.Objects[path]...), nil
}

func (b *CalBackend) PutCalendarObject(ctx context.Context, path string, cal *ical.Calendar, opts *caldav.PutCalendarObjectOptions) (*caldav.CalendarObject, error) {
	var oc *caldav.PutCalendarObjectOptions
	if opts != nil {
		o := *opts
		oc = &o
	}
	b.log(CalCall{Op: "PutCalendarObject", Path: path, Cal: cal, Opts: oc})
	if err := b.pathErr(path); err != nil {
		return nil, err
	}
	if err := b.opErr("PutCalendarObject"); err != nil {
		return nil, err
	}
	if b.PutResult != nil {
		r := *b.PutResult
		return &r, nil
	}
	return &caldav.CalendarObject{Path: path, Data: cal}, nil
}

func (b *CalBackend) DeleteCalendarObject(ctx context.Context, path string) error {
	b.log(CalCall{Op: "DeleteCalendarObject", Path: path})
	if err := b.pathErr(path); err != nil {
		return err
	}
	return b.opErr("DeleteCalendarObject")
}

// Mutating reports whether an op name is a create/update/delete call.
func Mutating(op string) bool {
	switch op {
	case "CreateCalendar", "PutCalendarObject", "DeleteCalendarObject",
		"CreateAddressBook", "DeleteAddressBook", "PutAddressObject", "DeleteAddressObject":
		return true
	}
	return false
}

// ---------------------------------------------------------------------------
// CardDAV

type CardCall struct {
	Op      string
	Path    string
	Query   *carddav.AddressBookQuery
	DataReq *carddav.AddressDataRequest
	Card    vcard.Card
	Opts    *carddav.PutAddressObjectOptions
	Book    *carddav.AddressBook
}

type CardBackend struct {
	mu        sync.Mutex
	Principal string
	HomeSet   string
	Books     []carddav.AddressBook
	Objects   map[string][]carddav.AddressObject
	FailPath  map[string]int
	FailOp    map[string]error
	PutResult *carddav.AddressObject
	QueryHook func(path string, q *carddav.AddressBookQuery) ([]carddav.AddressObject, error)
	Calls     []CardCall
}

var _ carddav.Backend = (*CardBackend)(nil)

func (b *CardBackend) log(c CardCall) {
	b.mu.Lock()
	b.Calls = append(b.Calls, c)
	b.mu.Unlock()
}

func (b *CardBackend) Log() []CardCall {
	b.mu.Lock()
	defer b.mu.Unlock()
	return append([]CardCall(nil), b.Calls...)
}

func (b *CardBackend) Reset() { b.mu.Lock(); b.Calls = nil; b.mu.Unlock() }

func (b *CardBackend) opErr(op string) error {
	if b.FailOp != nil {
		return b.FailOp[op]
	}
	return nil
}

func (b *CardBackend) pathErr(p string) error {
	if code, ok := b.FailPath[p]; ok {
		if code < 0 {
			// a backend that adds context to its errors: the HTTP error is still in the chain
			return fmt.Errorf("store: %w", webdav.NewHTTPError(-code, fmt.Errorf("scripted failure")))
		}
		return webdav.NewHTTPError(code, fmt.Errorf("scripted failure"))
	}
	return nil
}

func copyDataReq(r *carddav.AddressDataRequest) *carddav.AddressDataRequest {
	if r == nil {
		return nil
	}
	return &carddav.AddressDataRequest{Props: append([]string(nil), r.Props...), AllProp: r.AllProp}
}

func CopyBookQuery(q *carddav.AddressBookQuery) *carddav.AddressBookQuery {
	if q == nil {
		return nil
	}
	c := *q
	c.DataRequest = *copyDataReq(&q.DataRequest)
	c.PropFilters = nil
	for _, pf := range q.PropFilters {
		p := pf
		p.TextMatches = append([]carddav.TextMatch(nil), pf.TextMatches...)
		p.Params = nil
		for _, pa := range pf.Params {
			x := pa
			if pa.TextMatch != nil {
				tm := *pa.TextMatch
				x.TextMatch = &tm
			}
			p.Params = append(p.Params, x)
		}
		c.PropFilters = append(c.PropFilters, p)
	}
	return &c
}

func (b *CardBackend) CurrentUserPrincipal(ctx context.Context) (string, error) {
	b.log(CardCall{Op: "CurrentUserPrincipal"})
	return b.Principal, b.opErr("CurrentUserPrincipal")
}

func (b *CardBackend) AddressBookHomeSetPath(ctx context.Context) (string, error) {
	b.log(CardCall{Op: "AddressBookHomeSetPath"})
	return b.HomeSet, b.opErr("AddressBookHomeSetPath")
}

func (b *CardBackend) ListAddressBooks(ctx context.Context) ([]carddav.AddressBook, error) {
	b.log(CardCall{Op: "ListAddressBooks"})
	if err := b.opErr("ListAddressBooks"); err != nil {
		return nil, err
	}
	return append([]carddav.AddressBook(nil), b.Books...), nil
}

func (b *CardBackend) GetAddressBook(ctx context.Context, path string) (*carddav.AddressBook, error) {
	b.log(CardCall{Op: "GetAddressBook", Path: path})
	if err := b.pathErr(path); err != nil {
		return nil, err
	}
	for i := range b.Books {
		if b.Books[i].Path == path {
			c := b.Books[i]
			return &c, nil
		}
	}
	return nil, webdav.NewHTTPError(404, fmt.Errorf("no such address book"))
}

func (b *CardBackend) CreateAddressBook(ctx context.Context, ab *carddav.AddressBook) error {
	c := *ab
	b.log(CardCall{Op: "CreateAddressBook", Path: ab.Path, Book: &c})
	return b.opErr("CreateAddressBook")
}

func (b *CardBackend) DeleteAddressBook(ctx context.Context, path string) error {
	b.log(CardCall{Op: "DeleteAddressBook", Path: path})
	if err := b.pathErr(path); err != nil {
		return err
	}
	return b.opErr("DeleteAddressBook")
}

func (b *CardBackend) GetAddressObject(ctx context.Context, path string, req *carddav.AddressDataRequest) (*carddav.AddressObject, error) {
	b.log(CardCall{Op: "GetAddressObject", Path: path, DataReq: copyDataReq(req)})
	if err := b.pathErr(path); err != nil {
		return nil, err
	}
	for _, l := range b.Objects {
		for i := range l {
			if l[i].Path == path {
				o := l[i]
				return &o, nil
			}
		}
	}
	return nil, webdav.NewHTTPError(404, fmt.Errorf("no such object"))
}

func (b *CardBackend) ListAddressObjects(ctx context.Context, path string, req *carddav.AddressDataRequest) ([]carddav.AddressObject, error) {
	b.log(CardCall{Op: "ListAddressObjects", Path: path, DataReq: copyDataReq(req)})
	if err := b.opErr("ListAddressObjects"); err != nil {
		return nil, err
	}
	return append([]carddav.AddressObject(nil), b.Objects[path]...), nil
}

func (b *CardBackend) QueryAddressObjects(ctx context.Context, path string, q *carddav.AddressBookQuery) ([]carddav.AddressObject, error) {
	b.log(CardCall{Op: "QueryAddressObjects", Path: path, Query: CopyBookQuery(q)})
	if err := b.opErr("QueryAddressObjects"); err != nil {
		return nil, err
	}
	if b.QueryHook != nil {
		return b.QueryHook(path, q)
	}
	return append([]carddav.AddressObject(nil), b.Objects[path]...), nil
}

func (b *CardBackend) PutAddressObject(ctx context.Context, path string, card vcard.Card, opts *carddav.PutAddressObjectOptions) (*carddav.AddressObject, error) {
	var oc *carddav.PutAddressObjectOptions
	if opts != nil {
		o := *opts
		oc = &o
	}
	b.log(CardCall{Op: "PutAddressObject", Path: path, Card: card, Opts: oc})
	if err := b.pathErr(path); err != nil {
		return nil, err
	}
	if err := b.opErr("PutAddressObject"); err != nil {
		return nil, err
	}
	if b.PutResult != nil {
		r := *b.PutResult
		return &r, nil
	}
	return &carddav.AddressObject{Path: path, Card: card}, nil
}

func (b *CardBackend) DeleteAddressObject(ctx context.Context, path string) error {
	b.log(CardCall{Op: "DeleteAddressObject", Path: path})
	if err := b.pathErr(path); err != nil {
		return err
	}
	return b.opErr("DeleteAddressObject")
}
