// C03 — the file server never touches anything outside the served directory.
package c03

import (
	"bufio"
	"crypto/rand"
	"encoding/hex"
	"encoding/json"
	"fmt"
	"io"
	"net/http"
	"net/url"
	"os"
	"path/filepath"
	"strings"
	"testing"

	"github.com/emersion/go-webdav/verifharness/cfs"
	"github.com/emersion/go-webdav/verifharness/vev"
	"github.com/emersion/go-webdav/verifharness/vfs"
	"pgregory.net/rapid"
)

var rec = vev.For("C03")

func TestMain(m *testing.M) {
	rec.SetRule("path strings (a fixed list of ~60 traversal forms plus a rapid grammar over segments {name,.,..,empty,%2e%2e,%2E.,.%2e,..%2f,%2f,%5c,..\\,%00,NUL,runs of ../, computed ways to the canaries} with separators /,//,\\ and scheme://host, //host, query and fragment decorations, plus random bytes) x channel {request-target parsed by net/http, URL.Path assigned directly, Destination header} x method, served - in half of the generated cases after a history of 1-3 ordinary requests that reshape the tree (incl. deleting the root collection) - from a root that has sibling/parent canary files, a sibling whose name extends the root's name, and content inside. Oracle: everything in the sandbox outside the root is byte-identical afterwards; no response contains a canary name or content token; every multi-status href, sent back verbatim as a request-target with Depth 0, addresses the same resource (kind, length, tag) and, after cleaning, names an entry of that kind and size inside the served directory; unmappable paths (not absolute, NUL) get 4xx. non-trivial = the string contains a traversal token ('..', a percent-encoded dot/slash/backslash, backslash, NUL, or a host prefix) and reached the handler; distinct by (string, channel, method)")
	rec.Assume("reads outside the root are observed through canary tokens in responses (a read leaving no trace in any response is invisible)", "symbolic links inside the served directory are not generated", "DELETE of the root collection may remove the served directory itself; only its presence is ignored in the outside snapshot")
	vev.Main(m)
}

type Case struct {
	Str     vev.B  `json:"str"`
	Channel string `json:"channel"` // target | urlpath | destination
	Method  string `json:"method"`
	Depth   string `json:"depth,omitempty"`
	Prior   []int  `json:"prior,omitempty"` // indices into priorOps: a benign history served before the probe
	// RootSpell: how the served directory was spelled when it was configured (after C03-s14): 0 plainly, 1 through a
	// symbolic link standing for one of its parents, 2 with a trailing slash, 3 with "/./" and "//" inside, 4 through a
	// link and with a trailing slash
	RootSpell int `json:"root_spell,omitempty"`
}

// priorOps: ordinary requests on ordinary names that reshape the served tree (files where collections were, a
// vanished root, moved subtrees) before the hostile request arrives.
var priorOps = []struct{ method, path, dest string }{
	{"PUT", "/new.txt", ""}, {"MKCOL", "/nd", ""}, {"DELETE", "/d", ""}, {"DELETE", "/f", ""}, {"MOVE", "/d", "/moved"},
	{"COPY", "/f", "/d/f2"}, {"PUT", "/d", ""}, {"DELETE", "/", ""}, {"MOVE", "/f", "/d/sub/f"}, {"MKCOL", "/d/sub/deeper", ""},
	{"MOVE", "/d", "/f"}, {"COPY", "/d", "/a b"},
}

func (s *sandbox) applyPrior(c Case) {
	for _, i := range c.Prior {
		if i < 0 || i >= len(priorOps) {
			continue
		}
		op := priorOps[i]
		var b strings.Builder
		fmt.Fprintf(&b, "%s %s HTTP/1.1\r\nHost: dav.example\r\n", op.method, op.path)
		if op.dest != "" {
			fmt.Fprintf(&b, "Destination: %s\r\n", cfs.EscapePath(op.dest))
		}
		body := ""
		if op.method == "PUT" {
			body = "prior"
		}
		fmt.Fprintf(&b, "Content-Length: %d\r\n\r\n%s", len(body), body)
		if req, err := http.ReadRequest(bufio.NewReader(strings.NewReader(b.String()))); err == nil {
			cfs.Serve(s.srvs[c.RootSpell%len(s.srvs)].H, req)
		}
	}
}

type sandbox struct {
	base, outer, mid, root string
	tokens                 []string // canary names and content tokens
	srv                    *cfs.Server
	srvs                   []*cfs.Server // the same directory configured in several spellings
	outside                *vfs.Node
	inside                 *vfs.Node
}

func tok() string {
	b := make([]byte, 6)
	rand.Read(b)
	return "cnry" + hex.EncodeToString(b)
}

func insideTree() *vfs.Node {
	t := vfs.NewDir()
	t.Kids["f"] = vfs.NewFile("inside-f")
	d := vfs.NewDir()
	d.Kids["g"] = vfs.NewFile("inside-g")
	d.Kids["sub"] = vfs.NewDir()
	t.Kids["d"] = d
	t.Kids["a b"] = vfs.NewFile("blank")
	// names that extend a collection's name, and names holding literal percent escapes: hrefs built by string
	// surgery or written without re-escaping address something else when sent back
	t.Kids["d.zip"] = vfs.NewFile("zipped")
	dz := vfs.NewDir()
	dz.Kids["inner"] = vfs.NewFile("inner")
	t.Kids["dz"] = dz
	t.Kids["p%41q"] = vfs.NewFile("percent")
	t.Kids["%2e%2e"] = vfs.NewFile("dots")
	t.Kids["q?x#y"] = vfs.NewFile("query")
	// names ending in dots (an href "tidied" at its end names something else), incl. a collection called "..."
	t.Kids["notes."] = vfs.NewFile("dotted")
	vd := vfs.NewDir()
	vd.Kids["x"] = vfs.NewFile("in-v1.")
	t.Kids["v1."] = vd
	t.Kids["v1"] = vfs.NewFile("the-other-v1")
	dots := vfs.NewDir()
	dots.Kids["y"] = vfs.NewFile("in-dots")
	t.Kids["..."] = dots
	return t
}

func newSandbox(t testing.TB) *sandbox {
	base, err := os.MkdirTemp("", "c03")
	if err != nil {
		t.Fatal(err)
	}
	s := &sandbox{base: base, outer: filepath.Join(base, "outer"), mid: filepath.Join(base, "outer", "mid")}
	s.root = filepath.Join(s.mid, "root")
	os.MkdirAll(s.root, 0o755)
	put := func(rel string) {
		name, content := tok(), tok()
		p := filepath.Join(s.outer, filepath.FromSlash(strings.ReplaceAll(rel, "NAME", name)))
		os.MkdirAll(filepath.Dir(p), 0o755)
		os.WriteFile(p, []byte("secret "+content+"\n"), 0o644)
		s.tokens = append(s.tokens, name, content)
	}
	put("pNAME.txt")         // outer/  (parent of parent)
	put("mid/cNAME.txt")     // sibling file of root
	put("mid/sib/NAME.txt")  // sibling dir
	put("mid/root-old/NAME") // sibling whose name extends the root's
	put("mid/rootx/NAME")
	put("mid/roo/NAME")
	put("other/deep/NAME.txt")
	// fixed, well-known names as well
	os.WriteFile(filepath.Join(s.mid, "canary.txt"), []byte("secret "+s.tokens[1]+"\n"), 0o644)
	os.WriteFile(filepath.Join(s.outer, "pcanary.txt"), []byte("secret "+s.tokens[1]+"\n"), 0o644)
	os.WriteFile(filepath.Join(s.mid, "root-old", "secret.txt"), []byte("secret "+s.tokens[1]+"\n"), 0o644)
	s.srv = cfs.NewServer(s.root)
	link := filepath.Join(base, "via")
	os.Symlink(s.outer, link)
	s.srvs = []*cfs.Server{s.srv, cfs.NewServer(filepath.Join(link, "mid", "root")), cfs.NewServer(s.root + "/"),
		cfs.NewServer(s.outer + "/./mid//root"), cfs.NewServer(link + "/mid/root/")}
	s.inside = insideTree()
	if err := cfs.Sync(s.root, vfs.NewDir(), s.inside); err != nil {
		t.Fatal(err)
	}
	s.outside = s.snapshotOutside(t)
	return s
}

func (s *sandbox) close() { os.RemoveAll(s.base) }

func (s *sandbox) snapshotOutside(t testing.TB) *vfs.Node {
	n, err := cfs.Snapshot(s.outer)
	if err != nil {
		t.Fatalf("snapshot: %v", err)
	}
	if mid := n.Kids["mid"]; mid != nil && mid.Dir {
		delete(mid.Kids, "root") // the served directory itself is not "outside"
	}
	return n
}

func (s *sandbox) restoreInside(t testing.TB) {
	have, err := cfs.Snapshot(s.root)
	if err != nil {
		t.Fatal(err)
	}
	if have == nil {
		os.MkdirAll(s.root, 0o755)
		have = vfs.NewDir()
	}
	if err := cfs.Sync(s.root, have, s.inside); err != nil {
		t.Fatal(err)
	}
}

func hasTraversalToken(s string) bool {
	l := strings.ToLower(s)
	for _, t := range []string{"..", "%2e", "%2f", "%5c", "\\", "\x00", "%00", "://", "//"} {
		if strings.Contains(l, t) {
			return true
		}
	}
	return false
}

// build constructs the request for a case; ok=false when net/http's parser
// itself refuses the string (the handler is never reached).
func build(c Case) (*http.Request, bool) {
	str := string(c.Str)
	target := "/f"
	if c.Channel == "target" {
		target = str
	}
	var b strings.Builder
	fmt.Fprintf(&b, "%s %s HTTP/1.1\r\nHost: dav.example\r\n", c.Method, target)
	if c.Depth != "" {
		fmt.Fprintf(&b, "Depth: %s\r\n", c.Depth)
	}
	body := ""
	switch c.Method {
	case "PUT":
		body = "written-by-c03"
	case "COPY", "MOVE":
		dest := "/copied"
		if c.Channel == "destination" {
			dest = str
		}
		if strings.ContainsAny(dest, "\r\n") {
			return nil, false
		}
		fmt.Fprintf(&b, "Destination: %s\r\n", dest)
	}
	fmt.Fprintf(&b, "Content-Length: %d\r\n\r\n%s", len(body), body)
	req, err := http.ReadRequest(bufio.NewReader(strings.NewReader(b.String())))
	if err != nil {
		return nil, false
	}
	if c.Channel == "urlpath" {
		req.URL.Path = str
		req.URL.RawPath = ""
	}
	if (c.Method == "COPY" || c.Method == "MOVE") && c.Channel == "destination" && req.Header.Get("Destination") != strings.TrimSpace(str) {
		// the header parser altered it (e.g. invalid bytes): still what a server would hand over
	}
	return req, true
}

func evaluate(t testing.TB, s *sandbox, c Case) vev.Outcome {
	req, ok := build(c)
	if !ok {
		return vev.Outcome{}
	}
	cls := vev.Sig(c.Channel, c.Method)
	s.applyPrior(c)
	// while an upload is in progress nothing may appear outside the root either (temporary files): the body
	// reader looks around when the server first asks it for data
	var during *vfs.Node
	if c.Method == "PUT" && req.Body != nil {
		req.Body = &spyBody{ReadCloser: req.Body, look: func() { during = s.snapshotOutside(t) }}
	}
	resp := cfs.Serve(s.srvs[c.RootSpell%len(s.srvs)].H, req)
	dev := func(kind, f string, a ...any) vev.Outcome {
		return vev.Outcome{Sig: vev.Sig(cls, kind), Msg: fmt.Sprintf("%s %q via %s answered %d: ", c.Method, string(c.Str), c.Channel, resp.Status) + fmt.Sprintf(f, a...)}
	}
	if resp.Panic != nil {
		return dev("panic", "panic: %v", resp.Panic)
	}
	if during != nil && !during.Equal(s.outside) {
		return dev("outside-changed-during-upload", "while the body was being read the sandbox outside the served directory differed\n before %s\n during %s", s.outside, during)
	}
	// the served directory is a collection, whatever was asked: if it exists at all it is still a directory
	if fi, err := os.Lstat(s.root); err == nil && !fi.IsDir() {
		os.Remove(s.root)
		return dev("root-replaced", "the served directory itself was replaced by a non-directory")
	}
	// (i) nothing outside changed
	after := s.snapshotOutside(t)
	if !after.Equal(s.outside) {
		o := dev("outside-changed", "the sandbox outside the served directory changed\n before %s\n after  %s", s.outside, after)
		return o
	}
	// (ii) nothing outside was read into the response
	scan := string(resp.Body)
	for k, vs := range resp.Header {
		scan += "\n" + k + ": " + strings.Join(vs, ",")
	}
	for _, tk := range append(s.tokens, "root:x:0:0") {
		if strings.Contains(scan, tk) {
			return dev("outside-disclosed", "the response contains %q, which only exists outside the served directory: %.300q", tk, scan)
		}
	}
	// (iv) unmappable paths are refused with 4xx
	mapped := string(c.Str)
	if c.Channel == "target" || c.Channel == "destination" {
		if c.Channel == "destination" {
			if u, err := url.Parse(req.Header.Get("Destination")); err == nil {
				mapped = u.Path
			} else {
				mapped = "\x00unparseable"
			}
		} else {
			mapped = req.URL.Path
		}
	}
	unmappable := !strings.HasPrefix(mapped, "/") || strings.Contains(mapped, "\x00")
	if c.Channel == "destination" && c.Method != "COPY" && c.Method != "MOVE" {
		unmappable = false
	}
	if unmappable && (resp.Status < 400 || resp.Status > 499) {
		return dev("unmappable-not-4xx", "the path %q cannot be mapped below the root but was not refused with 4xx", mapped)
	}
	// (iii) reported hrefs
	if resp.Status == 207 {
		reps, err := cfs.ParseMultiStatus(resp.Body)
		if err != nil {
			return dev("multistatus-unreadable", "%v: %.300q", err, resp.Body)
		}
		for _, r := range reps {
			// sent back verbatim as a request-target
			raw := fmt.Sprintf("PROPFIND %s HTTP/1.1\r\nHost: dav.example\r\nDepth: 0\r\nContent-Length: 0\r\n\r\n", strings.TrimSpace(r.RawHref))
			breq, err := http.ReadRequest(bufio.NewReader(strings.NewReader(raw)))
			if err != nil {
				return dev("href-not-a-request-path", "href %q cannot be sent back as a request path: %v", r.RawHref, err)
			}
			back := cfs.Serve(s.srvs[c.RootSpell%len(s.srvs)].H, breq)
			if back.Status != 207 {
				return dev("href-not-readdressable", "href %q sent back answered %d", r.RawHref, back.Status)
			}
			reps2, err := cfs.ParseMultiStatus(back.Body)
			if err != nil || len(reps2) != 1 {
				return dev("href-not-readdressable", "href %q sent back gave %d responses (%v)", r.RawHref, len(reps2), err)
			}
			q := reps2[0]
			if q.IsCollection != r.IsCollection || deref(q.Length) != deref(r.Length) || deref(q.ETag) != deref(r.ETag) {
				return dev("href-other-resource", "href %q sent back names another resource: collection %v/%v length %s/%s tag %s/%s", r.RawHref, r.IsCollection, q.IsCollection, deref(r.Length), deref(q.Length), deref(r.ETag), deref(q.ETag))
			}
			// inside the served namespace: after dot-segment removal it names an
			// entry below the served directory, of the reported kind and length
			fi, err := os.Lstat(filepath.Join(s.root, filepath.FromSlash(r.Path)))
			if err != nil {
				return dev("href-not-inside", "href %q (normalised %q) does not name anything below the served directory", r.RawHref, r.Path)
			}
			if fi.IsDir() != r.IsCollection || (!fi.IsDir() && r.Length != nil && *r.Length != fmt.Sprint(fi.Size())) {
				return dev("href-not-inside", "href %q (normalised %q) names an entry of another kind/size below the served directory", r.RawHref, r.Path)
			}
		}
	}
	return vev.Outcome{}
}

type spyBody struct {
	io.ReadCloser
	look func()
	done bool
}

func (b *spyBody) Read(p []byte) (int, error) {
	if !b.done {
		b.done = true
		b.look()
	}
	return b.ReadCloser.Read(p)
}

func deref(p *string) string {
	if p == nil {
		return "<nil>"
	}
	return *p
}

func run(t *testing.T, rt *rapid.T, s *sandbox, c Case, engine string) {
	_, reached := build(c)
	key := mustJSON(c)
	label := engine + "/" + c.Channel
	if len(c.Prior) > 0 {
		label += "/after-history"
	}
	if !reached {
		label += "/parser-refused"
	}
	rec.Case(label, reached && hasTraversalToken(string(c.Str)), key, func() any { return c })
	o := evaluate(t, s, c)
	s.restoreInside(t)
	if !o.OK() {
		// the sandbox may be damaged: rebuild the reference snapshot for later cases
		defer func() { s.outside = s.snapshotOutside(t) }()
	}
	if o.OK() || rec.Known(o.Sig) {
		return
	}
	if rt != nil {
		rec.Fail(rt, o.Sig, "c03", c, "%s", o.Msg)
	} else {
		rec.Violation(t, o.Sig, "c03", c, "%s", o.Msg)
	}
}

var methods = []struct{ m, depth string }{
	{"GET", ""}, {"HEAD", ""}, {"OPTIONS", ""}, {"PUT", ""}, {"DELETE", ""}, {"MKCOL", ""},
	{"PROPFIND", "0"}, {"PROPFIND", "1"}, {"PROPFIND", ""}, {"COPY", ""}, {"MOVE", ""}, {"COPY", "0"}, {"FROB", ""},
}

func fixedStrings(s *sandbox) []string {
	abs := filepath.Join(s.mid, "canary.txt")
	l := []string{
		"/../canary.txt", "/../../pcanary.txt", "/../root-old/secret.txt", "/../root-old", "/../root-old/", "/..", "/../", "/../sib", "/../sib/",
		"/d/../../canary.txt", "/d/../../../pcanary.txt", "/f/../../canary.txt", "/%2e%2e/canary.txt", "/%2E%2E/canary.txt", "/.%2e/canary.txt", "/%2e./canary.txt",
		"/..%2fcanary.txt", "/..%2Fcanary.txt", "/..%2f..%2fpcanary.txt", "/..\\canary.txt", "/..%5ccanary.txt", "\\..\\canary.txt", "/d\\..\\..\\canary.txt",
		"../canary.txt", "..", "", ".", "./f", "f", "d/g", "/./../canary.txt", "//../canary.txt", "/..//canary.txt", "/d//..//..//canary.txt",
		"/../../../../../../../../../../etc/passwd", "/..%2f..%2f..%2f..%2f..%2f..%2f..%2fetc%2fpasswd", "/" + abs, abs, "/etc/passwd",
		"/\x00", "/f\x00", "/d/\x00/../../canary.txt", "/%00", "/f%00.txt", "/..%00/canary.txt",
		"http://h/../canary.txt", "http://h/../../pcanary.txt", "//h/../canary.txt", "http://h", "http://h/", "//h", "https://h:1/%2e%2e/canary.txt",
		"/../canary.txt?x=1", "/../canary.txt#frag", "/..;/canary.txt", "/.../canary.txt", "/....//canary.txt", "/. ./canary.txt", "/..%20/canary.txt",
		"/root-old/secret.txt", "/../root/f", "/../root/../canary.txt", "/../../mid/canary.txt", "*", "/d/..", "/d/../..", "/d/sub/../../../canary.txt",
		"/%2e%2e%2f%2e%2e%2fpcanary.txt", "/%252e%252e/canary.txt", "/..%c0%afcanary.txt", "/..%ef%bc%8fcanary.txt", "/~/../canary.txt",
	}
	return l
}

func TestFixedStrings(t *testing.T) {
	if vev.ReplayFile() != "" {
		t.Skip()
	}
	s := newSandbox(t)
	defer s.close()
	idx := 0
	for _, str := range fixedStrings(s) {
		for _, ch := range []string{"target", "urlpath", "destination"} {
			for _, m := range methods {
				if ch == "destination" && m.m != "COPY" && m.m != "MOVE" {
					continue
				}
				idx++
				if !vev.MyShare(idx) {
					continue
				}
				run(t, nil, s, Case{Str: vev.B(str), Channel: ch, Method: m.m, Depth: m.depth, RootSpell: idx % 5}, "fixed")
			}
		}
	}
	rec.ExhaustiveSub("the fixed list of traversal strings x 3 channels x 13 method/Depth combinations")
}

func genString(s *sandbox) *rapid.Generator[string] {
	names := []string{"f", "d", "g", "sub", "a b", "x", "canary.txt", "pcanary.txt", "root-old", "secret.txt", "root", "mid", "outer", "sib", "etc", "passwd"}
	seg := rapid.OneOf(
		rapid.SampledFrom(names),
		rapid.SampledFrom([]string{".", "..", "", "%2e%2e", "%2E.", ".%2e", "..%2f", "%2f", "%5c", "..\\", "%00", "\x00", "...", "..;", "%2e", "~", "*"}),
		rapid.SampledFrom([]string{"..", "..", ".."}),
	)
	return rapid.Custom(func(rt *rapid.T) string {
		if rapid.IntRange(0, 11).Draw(rt, "random-bytes") == 0 {
			return string(rapid.SliceOfN(rapid.Byte(), 0, 12).Draw(rt, "bytes"))
		}
		n := rapid.IntRange(0, 6).Draw(rt, "nseg")
		var b strings.Builder
		switch rapid.IntRange(0, 11).Draw(rt, "prefix") {
		case 0:
			b.WriteString("http://h")
		case 1:
			b.WriteString("//h")
		case 2:
			b.WriteString(strings.Repeat("../", rapid.IntRange(1, 12).Draw(rt, "ups")))
		case 3:
			// no leading slash
		case 4:
			b.WriteString("\\")
		default:
			b.WriteString("/")
		}
		for i := 0; i < n; i++ {
			if i > 0 {
				b.WriteString(rapid.SampledFrom([]string{"/", "/", "/", "//", "\\"}).Draw(rt, "sep"))
			}
			b.WriteString(seg.Draw(rt, "seg"))
		}
		switch rapid.IntRange(0, 9).Draw(rt, "suffix") {
		case 0:
			b.WriteString("/")
		case 1:
			b.WriteString("?q=1")
		case 2:
			b.WriteString("#frag")
		}
		return b.String()
	})
}

func TestGrammar(t *testing.T) {
	if vev.ReplayFile() != "" {
		t.Skip()
	}
	s := newSandbox(t)
	defer s.close()
	vev.Rapid(t, rec, 0, vev.N(5000, 400000), func(rt *rapid.T) {
		m := rapid.SampledFrom(methods).Draw(rt, "method")
		c := Case{Str: vev.B(genString(s).Draw(rt, "str")), Method: m.m, Depth: m.depth, Channel: rapid.SampledFrom([]string{"target", "urlpath", "urlpath", "destination"}).Draw(rt, "channel")}
		if c.Channel == "destination" {
			c.Method = rapid.SampledFrom([]string{"COPY", "MOVE"}).Draw(rt, "cm")
		}
		c.RootSpell = rapid.IntRange(0, 4).Draw(rt, "rootspell")
		if rapid.Bool().Draw(rt, "withprior") {
			c.Prior = rapid.SliceOfN(rapid.IntRange(0, len(priorOps)-1), 1, 3).Draw(rt, "prior")
		}
		run(t, rt, s, c, "grammar")
	})
}

func TestAReplay(t *testing.T) {
	vev.RunReplays(t, rec, func(kind string, raw json.RawMessage) (vev.Outcome, error) {
		var c Case
		if err := json.Unmarshal(raw, &c); err != nil {
			return vev.Outcome{}, err
		}
		s := newSandbox(t)
		defer s.close()
		return evaluate(t, s, c), nil
	})
}

func mustJSON(v any) string {
	b, _ := json.Marshal(v)
	return string(b)
}
