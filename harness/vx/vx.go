// Package vx is the harness' own XML layer: a strict, namespace-aware reader
// built on encoding/xml's lexer only (RawToken: no namespace translation, no
// tag matching - both are done here), a writer with generator-controlled
// lexical choices, and namespace-expanded tree comparison.  It shares no
// struct definitions, tags or namespace constants with go-webdav.
package vx

import (
	"bytes"
	"encoding/xml"
	"fmt"
	"io"
	"sort"
	"strings"
	"unicode/utf8"
)

type Kind int

const (
	Element Kind = iota
	Text
	Comment
	PI
)

type Name struct{ Space, Local string }

func (n Name) String() string {
	if n.Space == "" {
		return n.Local
	}
	return "{" + n.Space + "}" + n.Local
}

type Attr struct {
	Name  Name
	Value string
}

type Decl struct{ Prefix, URI string }

type Node struct {
	Kind     Kind
	Name     Name   // element name (expanded); PI target in Local
	Attrs    []Attr // non-declaration attributes, expanded names
	Decls    []Decl // namespace declarations made on this element
	Children []*Node
	Text     string // Text / Comment / PI data
}

const (
	nsXML   = "http://www.w3.org/XML/1998/namespace"
	nsXMLNS = "http://www.w3.org/2000/xmlns/"
)

type scope struct {
	m      map[string]string
	parent *scope
}

func (s *scope) lookup(p string) (string, bool) {
	for ; s != nil; s = s.parent {
		if v, ok := s.m[p]; ok {
			return v, true
		}
	}
	return "", false
}

// Parse reads a complete document strictly: well-formed per encoding/xml's
// strict lexer, single root, matching tags, no content outside the root, every
// prefix bound, no duplicate attributes (by qualified and by expanded name),
// reserved prefixes respected.
func Parse(data []byte) (*Node, error) {
	if !utf8.Valid(data) {
		return nil, fmt.Errorf("vx: document is not valid UTF-8")
	}
	return parse(data, nil)
}

// ParseInScope parses a document whose root may use prefixes bound outside it.
func ParseInScope(data []byte, outer map[string]string) (*Node, error) {
	return parse(data, &scope{m: outer})
}

// isNCName: the lexer accepts names such as "p:0"; the local part and the
// prefix must each start with a letter or underscore.
func isNCName(s string) bool {
	if s == "" {
		return false
	}
	for i, r := range s {
		switch {
		case r == '_' || r >= 0x80 || (r >= 'a' && r <= 'z') || (r >= 'A' && r <= 'Z'):
		case i > 0 && (r == '-' || r == '.' || (r >= '0' && r <= '9')):
		default:
			return false
		}
	}
	return true
}

func parse(data []byte, outer *scope) (*Node, error) {
	d := xml.NewDecoder(bytes.NewReader(data))
	d.Strict = true
	var root *Node
	type frame struct {
		n     *Node
		qname string
		sc    *scope
	}
	var stack []frame
	sc := &scope{m: map[string]string{"xml": nsXML}, parent: outer}
	for {
		tok, err := d.RawToken()
		if err == io.EOF {
			break
		}
		if err != nil {
			return nil, fmt.Errorf("vx: %w", err)
		}
		switch t := tok.(type) {
		case xml.StartElement:
			if len(stack) == 0 && root != nil {
				return nil, fmt.Errorf("vx: second root element <%s>", t.Name.Local)
			}
			if !isNCName(t.Name.Local) || (t.Name.Space != "" && !isNCName(t.Name.Space)) {
				return nil, fmt.Errorf("vx: %q:%q is not a valid element name", t.Name.Space, t.Name.Local)
			}
			for _, a := range t.Attr {
				if !isNCName(a.Name.Local) || (a.Name.Space != "" && !isNCName(a.Name.Space)) {
					return nil, fmt.Errorf("vx: %q:%q is not a valid attribute name", a.Name.Space, a.Name.Local)
				}
			}
			n := &Node{Kind: Element}
			cur := &scope{m: map[string]string{}, parent: sc}
			if len(stack) > 0 {
				cur.parent = stack[len(stack)-1].sc
			}
			seenQ := map[string]bool{}
			// declarations first
			for _, a := range t.Attr {
				q := a.Name.Local
				if a.Name.Space != "" {
					q = a.Name.Space + ":" + a.Name.Local
				}
				if seenQ[q] {
					return nil, fmt.Errorf("vx: duplicate attribute %q on <%s>", q, t.Name.Local)
				}
				seenQ[q] = true
				switch {
				case a.Name.Space == "" && a.Name.Local == "xmlns":
					if a.Value == nsXML || a.Value == nsXMLNS {
						return nil, fmt.Errorf("vx: reserved namespace as default")
					}
					cur.m[""] = a.Value
					n.Decls = append(n.Decls, Decl{"", a.Value})
				case a.Name.Space == "xmlns":
					p := a.Name.Local
					if p == "xmlns" {
						return nil, fmt.Errorf("vx: the xmlns prefix must not be declared")
					}
					if a.Value == "" {
						return nil, fmt.Errorf("vx: prefix %q bound to the empty namespace name", p)
					}
					if (p == "xml") != (a.Value == nsXML) {
						return nil, fmt.Errorf("vx: illegal binding of the xml prefix/namespace")
					}
					if a.Value == nsXMLNS {
						return nil, fmt.Errorf("vx: the xmlns namespace must not be bound")
					}
					cur.m[p] = a.Value
					n.Decls = append(n.Decls, Decl{p, a.Value})
				}
			}
			// element name
			if t.Name.Space == "xmlns" {
				return nil, fmt.Errorf("vx: element uses the xmlns prefix")
			}
			uri, ok := cur.lookup(t.Name.Space)
			if !ok {
				if t.Name.Space != "" {
					return nil, fmt.Errorf("vx: unbound prefix %q on element <%s:%s>", t.Name.Space, t.Name.Space, t.Name.Local)
				}
				uri = ""
			}
			n.Name = Name{uri, t.Name.Local}
			seenE := map[Name]bool{}
			for _, a := range t.Attr {
				if (a.Name.Space == "" && a.Name.Local == "xmlns") || a.Name.Space == "xmlns" {
					continue
				}
				an := Name{"", a.Name.Local}
				if a.Name.Space != "" {
					u, ok := cur.lookup(a.Name.Space)
					if !ok {
						return nil, fmt.Errorf("vx: unbound prefix %q on attribute %s:%s", a.Name.Space, a.Name.Space, a.Name.Local)
					}
					an.Space = u
				}
				if seenE[an] {
					return nil, fmt.Errorf("vx: duplicate attribute %s on <%s>", an, t.Name.Local)
				}
				seenE[an] = true
				n.Attrs = append(n.Attrs, Attr{an, a.Value})
			}
			if len(stack) > 0 {
				p := stack[len(stack)-1].n
				p.Children = append(p.Children, n)
			} else {
				root = n
			}
			q := t.Name.Local
			if t.Name.Space != "" {
				q = t.Name.Space + ":" + t.Name.Local
			}
			stack = append(stack, frame{n, q, cur})
		case xml.EndElement:
			if len(stack) == 0 {
				return nil, fmt.Errorf("vx: unexpected end tag </%s>", t.Name.Local)
			}
			q := t.Name.Local
			if t.Name.Space != "" {
				q = t.Name.Space + ":" + t.Name.Local
			}
			if stack[len(stack)-1].qname != q {
				return nil, fmt.Errorf("vx: end tag </%s> does not match <%s>", q, stack[len(stack)-1].qname)
			}
			stack = stack[:len(stack)-1]
		case xml.CharData:
			if len(stack) == 0 {
				if strings.TrimSpace(string(t)) != "" {
					return nil, fmt.Errorf("vx: character data outside the root element")
				}
				continue
			}
			p := stack[len(stack)-1].n
			if k := len(p.Children); k > 0 && p.Children[k-1].Kind == Text {
				p.Children[k-1].Text += string(t)
			} else {
				p.Children = append(p.Children, &Node{Kind: Text, Text: string(t)})
			}
		case xml.Comment:
			if len(stack) > 0 {
				p := stack[len(stack)-1].n
				p.Children = append(p.Children, &Node{Kind: Comment, Text: string(t)})
			}
		case xml.ProcInst:
			if len(stack) > 0 {
				p := stack[len(stack)-1].n
				p.Children = append(p.Children, &Node{Kind: PI, Name: Name{"", t.Target}, Text: string(t.Inst)})
			} else if t.Target == "xml" && root != nil {
				return nil, fmt.Errorf("vx: XML declaration after the root")
			}
		case xml.Directive:
			if len(stack) > 0 {
				return nil, fmt.Errorf("vx: directive inside an element")
			}
		}
	}
	if len(stack) != 0 {
		return nil, fmt.Errorf("vx: unclosed element <%s>", stack[len(stack)-1].qname)
	}
	if root == nil {
		return nil, fmt.Errorf("vx: no root element")
	}
	return root, nil
}

// FromStd reads a document with encoding/xml's own namespace translation
// (Decoder.Token) - "re-read with encoding/xml" in the C15 statement.  Namespace
// declarations (attributes in the xmlns space or named xmlns) are dropped.
func FromStd(data []byte) (*Node, error) {
	d := xml.NewDecoder(bytes.NewReader(data))
	return FromTokens(d)
}

// FromTokens builds a tree from any token reader (translated names).
func FromTokens(tr xml.TokenReader) (*Node, error) {
	var root *Node
	var stack []*Node
	for {
		tok, err := tr.Token()
		if err == io.EOF {
			break
		}
		if err != nil {
			return nil, err
		}
		switch t := tok.(type) {
		case xml.StartElement:
			n := &Node{Kind: Element, Name: Name{t.Name.Space, t.Name.Local}}
			for _, a := range t.Attr {
				if a.Name.Space == "xmlns" || (a.Name.Space == "" && a.Name.Local == "xmlns") {
					continue
				}
				n.Attrs = append(n.Attrs, Attr{Name{a.Name.Space, a.Name.Local}, a.Value})
			}
			if len(stack) > 0 {
				p := stack[len(stack)-1]
				p.Children = append(p.Children, n)
			} else if root == nil {
				root = n
			} else {
				return nil, fmt.Errorf("second root")
			}
			stack = append(stack, n)
		case xml.EndElement:
			if len(stack) == 0 {
				return nil, fmt.Errorf("unbalanced end element")
			}
			top := stack[len(stack)-1]
			if top.Name.Local != t.Name.Local || top.Name.Space != t.Name.Space {
				return nil, fmt.Errorf("end element %v does not match %v", t.Name, top.Name)
			}
			stack = stack[:len(stack)-1]
		case xml.CharData:
			if len(stack) == 0 {
				continue
			}
			p := stack[len(stack)-1]
			if k := len(p.Children); k > 0 && p.Children[k-1].Kind == Text {
				p.Children[k-1].Text += string(t)
			} else {
				p.Children = append(p.Children, &Node{Kind: Text, Text: string(t)})
			}
		case xml.Comment:
			if len(stack) > 0 {
				p := stack[len(stack)-1]
				p.Children = append(p.Children, &Node{Kind: Comment, Text: string(t)})
			}
		case xml.ProcInst:
			if len(stack) > 0 {
				p := stack[len(stack)-1]
				p.Children = append(p.Children, &Node{Kind: PI, Name: Name{"", t.Target}, Text: string(t.Inst)})
			}
		}
	}
	if len(stack) != 0 {
		return nil, fmt.Errorf("unbalanced token stream: %d open elements", len(stack))
	}
	if root == nil {
		return nil, fmt.Errorf("no root element")
	}
	return root, nil
}

type CmpOpts struct {
	IgnoreWhitespaceText bool // drop text nodes that are whitespace only
	IgnoreComments       bool
	IgnorePIs            bool
}

func norm(n *Node, o CmpOpts) []*Node {
	var l []*Node
	for _, c := range n.Children {
		switch c.Kind {
		case Text:
			if c.Text == "" || (o.IgnoreWhitespaceText && strings.TrimSpace(c.Text) == "") {
				continue
			}
			if k := len(l); k > 0 && l[k-1].Kind == Text {
				l[k-1] = &Node{Kind: Text, Text: l[k-1].Text + c.Text}
				continue
			}
		case Comment:
			if o.IgnoreComments {
				continue
			}
		case PI:
			if o.IgnorePIs {
				continue
			}
		}
		l = append(l, c)
	}
	return l
}

// Diff returns "" when the two trees denote the same element tree, else a
// description of the first difference.
func Diff(a, b *Node, o CmpOpts) string { return diff(a, b, o, "/") }

func diff(a, b *Node, o CmpOpts, at string) string {
	if a.Kind != b.Kind {
		return fmt.Sprintf("%s: node kinds differ (%d vs %d)", at, a.Kind, b.Kind)
	}
	switch a.Kind {
	case Text, Comment:
		if a.Text != b.Text {
			return fmt.Sprintf("%s: text %q vs %q", at, a.Text, b.Text)
		}
		return ""
	case PI:
		if a.Name.Local != b.Name.Local || strings.TrimSpace(a.Text) != strings.TrimSpace(b.Text) {
			return fmt.Sprintf("%s: PI %q %q vs %q %q", at, a.Name.Local, a.Text, b.Name.Local, b.Text)
		}
		return ""
	}
	if a.Name != b.Name {
		return fmt.Sprintf("%s: element %s vs %s", at, a.Name, b.Name)
	}
	at += a.Name.Local
	aa, ba := sortedAttrs(a.Attrs), sortedAttrs(b.Attrs)
	if len(aa) != len(ba) {
		return fmt.Sprintf("%s: attributes %v vs %v", at, aa, ba)
	}
	for i := range aa {
		if aa[i] != ba[i] {
			return fmt.Sprintf("%s: attribute %s=%q vs %s=%q", at, aa[i].Name, aa[i].Value, ba[i].Name, ba[i].Value)
		}
	}
	ac, bc := norm(a, o), norm(b, o)
	if len(ac) != len(bc) {
		return fmt.Sprintf("%s: %d children vs %d", at, len(ac), len(bc))
	}
	for i := range ac {
		if d := diff(ac[i], bc[i], o, fmt.Sprintf("%s[%d]/", at, i)); d != "" {
			return d
		}
	}
	return ""
}

func sortedAttrs(l []Attr) []Attr {
	l = append([]Attr(nil), l...)
	sort.Slice(l, func(i, j int) bool {
		if l[i].Name.Space != l[j].Name.Space {
			return l[i].Name.Space < l[j].Name.Space
		}
		return l[i].Name.Local < l[j].Name.Local
	})
	return l
}

// ---------------------------------------------------------------------------
// helpers for building and querying trees

func El(space, local string, kids ...*Node) *Node {
	return &Node{Kind: Element, Name: Name{space, local}, Children: kids}
}

func T(s string) *Node { return &Node{Kind: Text, Text: s} }

func (n *Node) With(space, local, value string) *Node {
	n.Attrs = append(n.Attrs, Attr{Name{space, local}, value})
	return n
}

func (n *Node) Add(kids ...*Node) *Node {
	n.Children = append(n.Children, kids...)
	return n
}

// Elems returns the child elements (optionally only those named space/local).
func (n *Node) Elems(name ...string) []*Node {
	var l []*Node
	for _, c := range n.Children {
		if c.Kind != Element {
			continue
		}
		if len(name) == 2 && (c.Name.Space != name[0] || c.Name.Local != name[1]) {
			continue
		}
		l = append(l, c)
	}
	return l
}

func (n *Node) First(space, local string) *Node {
	for _, c := range n.Elems(space, local) {
		return c
	}
	return nil
}

// TextContent concatenates all character data directly inside n.
func (n *Node) TextContent() string {
	var b strings.Builder
	for _, c := range n.Children {
		if c.Kind == Text {
			b.WriteString(c.Text)
		}
	}
	return b.String()
}

func (n *Node) Attr(space, local string) (string, bool) {
	for _, a := range n.Attrs {
		if a.Name.Space == space && a.Name.Local == local {
			return a.Value, true
		}
	}
	return "", false
}

// ---------------------------------------------------------------------------
// writer with lexical variants

// Chooser supplies the lexical choices (backed by rapid in generators, by a
// constant in deterministic callers).
type Chooser interface{ Pick(label string, n int) int }

type Fixed int

func (f Fixed) Pick(string, int) int { return int(f) }

type writer struct {
	b     bytes.Buffer
	ch    Chooser
	style int
	pfx   map[string]string // uri -> prefix (style 1: all at root)
	n     int
}

func escText(s string, quot byte) string {
	var b strings.Builder
	for _, r := range s {
		switch r {
		case '<':
			b.WriteString("&lt;")
		case '>':
			b.WriteString("&gt;")
		case '&':
			b.WriteString("&amp;")
		case '\r':
			b.WriteString("&#xD;")
		case '"':
			if quot == '"' {
				b.WriteString("&quot;")
			} else {
				b.WriteRune(r)
			}
		case '\'':
			if quot == '\'' {
				b.WriteString("&apos;")
			} else {
				b.WriteRune(r)
			}
		case '\n', '\t':
			if quot != 0 {
				fmt.Fprintf(&b, "&#%d;", r)
			} else {
				b.WriteRune(r)
			}
		default:
			b.WriteRune(r)
		}
	}
	return b.String()
}

// Write serialises the tree.  The denoted document does not depend on the
// chooser: only prefixes, declaration placement, quoting, empty-element form,
// inter-element whitespace/comments (when ws is true: element-only content
// only), CDATA and character references vary.
func Write(root *Node, ch Chooser, ws bool) []byte {
	w := &writer{ch: ch, style: ch.Pick("ns-style", 3), pfx: map[string]string{}}
	if ch.Pick("xmldecl", 2) == 1 {
		w.b.WriteString(`<?xml version="1.0" encoding="utf-8"?>`)
		if ch.Pick("decl-nl", 2) == 1 {
			w.b.WriteString("\n")
		}
	}
	if w.style == 1 {
		collect(root, func(uri string) {
			if _, ok := w.pfx[uri]; !ok && uri != "" && uri != nsXML {
				w.pfx[uri] = w.newPrefix()
			}
		})
	}
	w.elem(root, map[string]string{}, "", true, ws)
	return w.b.Bytes()
}

func collect(n *Node, f func(string)) {
	if n.Kind != Element {
		return
	}
	f(n.Name.Space)
	for _, a := range n.Attrs {
		f(a.Name.Space)
	}
	for _, c := range n.Children {
		collect(c, f)
	}
}

var prefixNames = []string{"D", "C", "A", "x", "ns1", "d", "cal", "card", "a", "B"}

func (w *writer) newPrefix() string {
	for {
		p := prefixNames[w.ch.Pick("prefix-name", len(prefixNames))]
		if w.n > 0 {
			p = fmt.Sprintf("%s%d", p, w.n)
		}
		w.n++
		used := false
		for _, v := range w.pfx {
			if v == p {
				used = true
			}
		}
		if !used {
			return p
		}
	}
}

func elementOnly(n *Node) bool {
	for _, c := range n.Children {
		if c.Kind == Text {
			return false
		}
	}
	return true
}

// bound: prefix -> uri in scope; def: default namespace in scope
func (w *writer) elem(n *Node, bound map[string]string, def string, isRoot, ws bool) {
	inner := map[string]string{}
	for k, v := range bound {
		inner[k] = v
	}
	var decls []string
	prefixFor := func(uri string, forAttr bool) string {
		if uri == nsXML {
			return "xml"
		}
		for p, u := range inner {
			if u == uri && p != "" {
				return p
			}
		}
		var p string
		if w.style == 1 {
			p = w.pfx[uri]
		} else {
			p = w.newPrefix()
			w.pfx[uri+fmt.Sprint(w.n)] = p
		}
		inner[p] = uri
		decls = append(decls, fmt.Sprintf("xmlns:%s=%s", p, w.quote(uri)))
		return p
	}
	qname := n.Name.Local
	switch {
	case n.Name.Space == "":
		if def != "" {
			decls = append(decls, `xmlns=""`)
			def = ""
		}
	case w.style == 0 || (w.style == 2 && w.ch.Pick("use-default", 2) == 0):
		if def != n.Name.Space {
			decls = append(decls, "xmlns="+w.quote(n.Name.Space))
			def = n.Name.Space
		}
	default:
		if isRoot && w.style == 1 {
			// bind every prefix at the root
			uris := make([]string, 0, len(w.pfx))
			for u := range w.pfx {
				uris = append(uris, u)
			}
			sort.Strings(uris)
			for _, u := range uris {
				inner[w.pfx[u]] = u
				decls = append(decls, fmt.Sprintf("xmlns:%s=%s", w.pfx[u], w.quote(u)))
			}
		}
		qname = prefixFor(n.Name.Space, false) + ":" + n.Name.Local
	}
	var attrs []string
	for _, a := range n.Attrs {
		an := a.Name.Local
		if a.Name.Space != "" {
			an = prefixFor(a.Name.Space, true) + ":" + a.Name.Local
		}
		q := byte('"')
		if w.ch.Pick("quote", 2) == 1 {
			q = '\''
		}
		attrs = append(attrs, fmt.Sprintf("%s=%c%s%c", an, q, escText(a.Value, q), q))
	}
	all := append(decls, attrs...)
	// attribute order
	if len(all) > 1 && w.ch.Pick("attr-order", 2) == 1 {
		for i, j := 0, len(all)-1; i < j; i, j = i+1, j-1 {
			all[i], all[j] = all[j], all[i]
		}
	}
	w.b.WriteString("<" + qname)
	for _, a := range all {
		w.b.WriteString(w.space(true) + a)
	}
	if len(n.Children) == 0 {
		switch w.ch.Pick("empty-form", 3) {
		case 0:
			w.b.WriteString("/>")
		case 1:
			w.b.WriteString(" />")
		default:
			w.b.WriteString("></" + qname + ">")
		}
		return
	}
	w.b.WriteString(">")
	eo := ws && elementOnly(n)
	for _, c := range n.Children {
		if eo {
			w.b.WriteString(w.filler())
		}
		switch c.Kind {
		case Element:
			w.elem(c, inner, def, false, ws)
		case Text:
			w.text(c.Text)
		case Comment:
			w.b.WriteString("<!--" + c.Text + "-->")
		case PI:
			w.b.WriteString("<?" + c.Name.Local + " " + c.Text + "?>")
		}
	}
	if eo {
		w.b.WriteString(w.filler())
	}
	w.b.WriteString("</" + qname + ">")
}

func (w *writer) quote(s string) string {
	if w.ch.Pick("decl-quote", 2) == 1 && !strings.Contains(s, "'") {
		return "'" + escText(s, '\'') + "'"
	}
	return `"` + escText(s, '"') + `"`
}

func (w *writer) space(required bool) string {
	switch w.ch.Pick("space", 4) {
	case 1:
		return "  "
	case 2:
		return "\n  "
	case 3:
		return "\t"
	}
	return " "
}

func (w *writer) filler() string {
	switch w.ch.Pick("filler", 6) {
	case 1:
		return "\n"
	case 2:
		return "\n    "
	case 3:
		return " <!-- c --> "
	case 4:
		return "\r\n\t"
	}
	return ""
}

func (w *writer) text(s string) {
	if s == "" {
		return
	}
	switch w.ch.Pick("text-form", 4) {
	case 1:
		if !strings.Contains(s, "]]>") && !strings.Contains(s, "\r") {
			w.b.WriteString("<![CDATA[" + s + "]]>")
			return
		}
	case 2:
		// numeric character references for the first rune
		r, size := utf8.DecodeRuneInString(s)
		if r != utf8.RuneError {
			fmt.Fprintf(&w.b, "&#x%X;", r)
			w.b.WriteString(escText(s[size:], 0))
			return
		}
	}
	w.b.WriteString(escText(s, 0))
}
