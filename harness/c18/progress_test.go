package c18

import (
	"fmt"
	"io"
	"net/http"
	"net/http/httptest"
	"os"
	"path/filepath"
	"strings"
	"testing"
	"time"

	"github.com/emersion/go-webdav/verifharness/cfs"
	"github.com/emersion/go-webdav/verifharness/vev"
	"github.com/emersion/go-webdav/verifharness/vfs"
)

// Part 3 - independent progress (after C18-s16).  The harness owns this schedule: request A, an upload whose body
// stops arriving after its first bytes, is in flight; request B addresses a resource in another subtree.  B must be
// answered while A is still waiting for its body - "each produces exactly the response it produces when run alone"
// includes being answered at all - and with the status it gets when served alone on the same tree; afterwards A's body
// is completed and A must succeed with its bytes stored.  (A lock held across the reading of a request body, a global
// lock taken by conditional requests, a worker pool of one: each blocks B here.)

type ProgressCase struct {
	ACond string  `json:"a_cond"` // the stalled request: an upload with headers "" | inm-star | im-star (onto an existing file), or propfind-body | proppatch-body (a request document that stops arriving halfway), or get-slow-reader | propfind-slow-reader (the reader of the answer pauses at its first byte)
	B     vfs.Req `json:"b"`
}

type gate struct {
	first   []byte
	rest    []byte
	started chan struct{}
	release chan struct{}
	state   int
}

func (g *gate) Read(p []byte) (int, error) {
	switch g.state {
	case 0:
		g.state = 1
		return copy(p, g.first), nil
	case 1:
		close(g.started)
		<-g.release
		g.state = 2
		return copy(p, g.rest), nil
	}
	return 0, io.EOF
}
func (g *gate) Close() error { return nil }

// slowWriter is a response writer whose reader stops taking bytes: the first Write announces itself and waits.
type slowWriter struct {
	rec     *httptest.ResponseRecorder
	started chan struct{}
	release chan struct{}
	waited  bool
}

func (w *slowWriter) Header() http.Header { return w.rec.Header() }
func (w *slowWriter) WriteHeader(c int)   { w.rec.WriteHeader(c) }
func (w *slowWriter) Write(p []byte) (int, error) {
	if !w.waited {
		w.waited = true
		close(w.started)
		<-w.release
	}
	return w.rec.Write(p)
}

func progressTree(root string) error {
	t := vfs.NewDir()
	a, b := vfs.NewDir(), vfs.NewDir()
	a.Kids["existing.txt"] = vfs.NewFile("old content of a/existing")
	b.Kids["f"] = vfs.NewFile("content of b/f")
	b.Kids["g"] = vfs.NewFile("content of b/g")
	sub := vfs.NewDir()
	sub.Kids["k"] = vfs.NewFile("k")
	b.Kids["sub"] = sub
	t.Kids["a"], t.Kids["b"] = a, b
	os.RemoveAll(root)
	return cfs.Sync(root, nil, t)
}

func evalProgress(c ProgressCase) (vev.Outcome, error) {
	base, err := os.MkdirTemp("", "c18p")
	if err != nil {
		return vev.Outcome{}, err
	}
	defer os.RemoveAll(base)
	cls := "progress|A=" + c.ACond + "|B=" + c.B.Method
	// B alone
	alone := filepath.Join(base, "alone")
	if err := progressTree(alone); err != nil {
		return vev.Outcome{}, err
	}
	want, err := cfs.NewServer(alone).Do(c.B)
	if err != nil {
		return vev.Outcome{}, nil // net/http refuses the request text
	}
	// B while A waits for its body
	root := filepath.Join(base, "root")
	if err := progressTree(root); err != nil {
		return vev.Outcome{}, err
	}
	srv := cfs.NewServer(root)
	ra := vfs.Req{Method: "PUT", Path: "/a/slow.txt", Body: "x"}
	switch c.ACond {
	case "inm-star":
		ra.IfNoneMatch = "*"
	case "im-star":
		ra.Path, ra.IfMatch = "/a/existing.txt", "*"
	}
	first, rest := "first part, ", "second part"
	switch c.ACond {
	case "propfind-body":
		ra = vfs.Req{Method: "PROPFIND", Path: "/a", Depth: "1", Body: "x", ContentType: "application/xml"}
		first, rest = `<?xml version="1.0"?><propfind xmlns="DAV:"><pr`, `op><getcontentlength/><resourcetype/></prop></propfind>`
	case "proppatch-body":
		ra = vfs.Req{Method: "PROPPATCH", Path: "/a/existing.txt", Body: "x", ContentType: "application/xml"}
		first, rest = `<?xml version="1.0"?><propertyupdate xmlns="DAV:"><set><prop><displ`, `ayname>n</displayname></prop></set></propertyupdate>`
	}
	slow := false
	switch c.ACond {
	case "get-slow-reader":
		ra, slow = vfs.Req{Method: "GET", Path: "/a/existing.txt"}, true
	case "propfind-slow-reader":
		ra, slow = vfs.Req{Method: "PROPFIND", Path: "/a", Depth: "1"}, true
	}
	upload := ra.Method == "PUT"
	reqA, _, err := cfs.BuildRequest(ra)
	if err != nil {
		return vev.Outcome{}, err
	}
	g := &gate{first: []byte(first), rest: []byte(rest), started: make(chan struct{}), release: make(chan struct{})}
	doneA := make(chan cfs.Resp, 1)
	if slow {
		// the request is complete; it is the reader of the answer that stalls
		sw := &slowWriter{rec: httptest.NewRecorder(), started: g.started, release: g.release}
		go func() {
			var r cfs.Resp
			func() {
				defer func() {
					if p := recover(); p != nil {
						r.Panic = p
					}
				}()
				srv.H.ServeHTTP(sw, reqA)
			}()
			r.Status, r.Header, r.Body = sw.rec.Code, sw.rec.Header(), sw.rec.Body.Bytes()
			doneA <- r
		}()
	} else {
		reqA.Body, reqA.ContentLength = g, int64(len(g.first)+len(g.rest))
		go func() { doneA <- cfs.Serve(srv.H, reqA) }()
	}
	select {
	case <-g.started:
	case ra := <-doneA:
		if !upload {
			return vev.Outcome{}, nil // answered without reading its document: nothing is pending, the case says nothing
		}
		return dev(cls+"|upload-answered-before-its-body", "the stalled upload was answered %d before its body had arrived", ra.Status), nil
	case <-time.After(20 * time.Second):
		close(g.release)
		return vev.Outcome{}, fmt.Errorf("the stalled upload never asked for the rest of its body")
	}
	doneB := make(chan cfs.Resp, 1)
	go func() {
		r, err := srv.Do(c.B)
		if err != nil {
			r.Status = -1
		}
		doneB <- r
	}()
	var got cfs.Resp
	select {
	case got = <-doneB:
	case <-time.After(20 * time.Second):
		d := dump()
		close(g.release)
		<-doneA
		return dev(cls+"|blocked-behind-unrelated-upload", "%s got no answer within 20 s while an upload to %s was waiting for its body; served alone it is answered %d at once\n%.2500s", c.B.String(), ra.Path, want.Status, d), nil
	}
	close(g.release)
	respA := <-doneA
	if got.Panic != nil || respA.Panic != nil {
		return dev(cls+"|panic", "panic: %v / %v", got.Panic, respA.Panic), nil
	}
	if got.Status != want.Status {
		return dev(cls+"|status-differs-from-alone", "%s answered %d next to a pending upload, %d when served alone", c.B.String(), got.Status, want.Status), nil
	}
	if !upload {
		// served alone, with its document arriving in one piece, the stalled request gets wantA
		if !slow {
			ra.Body = first + rest
		}
		if err := progressTree(alone); err != nil {
			return vev.Outcome{}, err
		}
		wantA, err := cfs.NewServer(alone).Do(ra)
		if err != nil {
			return vev.Outcome{}, err
		}
		if slow && string(respA.Body) != string(wantA.Body) && ra.Method == "GET" {
			return dev(cls+"|stalled-content", "GET delivered %q to a reader that paused, %q when served alone", respA.Body, wantA.Body), nil
		}
		if respA.Status != wantA.Status {
			return dev(cls+"|stalled-status", "%s answered %d after its document was completed next to %s, %d when served alone", ra.Method, respA.Status, c.B.String(), wantA.Status), nil
		}
		if sa, _ := cfs.Snapshot(filepath.Join(alone, "a")); true {
			sb, _ := cfs.Snapshot(filepath.Join(root, "a"))
			if (sa == nil) != (sb == nil) || (sa != nil && !sa.Equal(sb)) {
				return dev(cls+"|stalled-effect", "%s left %v under /a, %v when served alone", ra.Method, sb, sa), nil
			}
		}
		if err := progressTree(alone); err != nil {
			return vev.Outcome{}, err
		}
		if _, err := cfs.NewServer(alone).Do(c.B); err != nil {
			return vev.Outcome{}, err
		}
	} else {
		if respA.Status != 201 && !(c.ACond == "im-star" && (respA.Status == 200 || respA.Status == 204)) {
			return dev(cls+"|upload-status", "the upload answered %d after its body was completed", respA.Status), nil
		}
		if b, _ := os.ReadFile(filepath.Join(root, filepath.FromSlash(ra.Path))); string(b) != "first part, second part" {
			return dev(cls+"|upload-content", "the upload stored %q", b), nil
		}
	}
	// everything below /b is what B alone leaves behind
	sa, _ := cfs.Snapshot(filepath.Join(alone, "b"))
	sb, _ := cfs.Snapshot(filepath.Join(root, "b"))
	if (sa == nil) != (sb == nil) || (sa != nil && !sa.Equal(sb)) {
		return dev(cls+"|effect-differs-from-alone", "%s left %v under /b next to a pending upload, %v when served alone", c.B.String(), sb, sa), nil
	}
	return vev.Outcome{}, nil
}

func TestIndependentProgress(t *testing.T) {
	if vev.ReplayFile() != "" {
		t.Skip()
	}
	var bs []vfs.Req
	for _, cond := range [][2]string{{"", ""}, {"*", ""}, {"", "*"}, {`"x"`, ""}, {"", `"x"`}} {
		bs = append(bs, vfs.Req{Method: "PUT", Path: "/b/new.txt", Body: "quick", IfMatch: cond[0], IfNoneMatch: cond[1]},
			vfs.Req{Method: "PUT", Path: "/b/f", Body: "quick", IfMatch: cond[0], IfNoneMatch: cond[1]},
			vfs.Req{Method: "DELETE", Path: "/b/g", IfMatch: cond[0], IfNoneMatch: cond[1]})
	}
	bs = append(bs, vfs.Req{Method: "GET", Path: "/b/f"}, vfs.Req{Method: "HEAD", Path: "/b/f"}, vfs.Req{Method: "OPTIONS", Path: "/b/f"},
		vfs.Req{Method: "PROPFIND", Path: "/b", Depth: "1"}, vfs.Req{Method: "PROPFIND", Path: "/b", Depth: "infinity"}, vfs.Req{Method: "MKCOL", Path: "/b/newdir"},
		vfs.Req{Method: "COPY", Path: "/b/f", HasDest: true, Dest: "/b/copy"}, vfs.Req{Method: "COPY", Path: "/b/sub", HasDest: true, Dest: "/b/f", Overwrite: "T"},
		vfs.Req{Method: "MOVE", Path: "/b/g", HasDest: true, Dest: "/b/f"}, vfs.Req{Method: "MOVE", Path: "/b/sub", HasDest: true, Dest: "/b/sub2", Overwrite: "F"},
		vfs.Req{Method: "DELETE", Path: "/b/sub"}, vfs.Req{Method: "PUT", Path: "/b/sub", Body: "onto a collection"})
	idx := 0
	for _, ac := range []string{"", "inm-star", "im-star", "propfind-body", "proppatch-body", "get-slow-reader", "propfind-slow-reader"} {
		for _, b := range bs {
			idx++
			if !vev.MyShare(idx) {
				continue
			}
			c := ProgressCase{ACond: ac, B: b}
			rec.Case("progress/A="+ac, true, mustJSON(c), func() any { return c })
			o, err := evalProgress(c)
			if err != nil {
				t.Fatalf("harness: %v", err)
			}
			if !o.OK() && !rec.Known(o.Sig) {
				rec.Violation(t, o.Sig, "c18", Case{Prog: &c}, "%s", o.Msg)
				if strings.Contains(o.Sig, "blocked-behind") {
					return
				}
			}
		}
	}
	rec.ExhaustiveSub("independent progress: an upload waiting for its body (plain, If-None-Match: *, If-Match: * onto an existing file) x 27 requests in another subtree (conditional PUT/DELETE in 5 header combinations, reads, listings, MKCOL, COPY, MOVE)")
}
