// C18 — handlers and clients are safe for concurrent use; uploads always terminate.
// Built with -race by the driver.
package c18

import (
	"bytes"
	"context"
	"encoding/json"
	"errors"
	"fmt"
	"io"
	"net"
	"net/http"
	"net/http/httptest"
	"os"
	"path/filepath"
	"runtime"
	"sort"
	"strings"
	"sync"
	"sync/atomic"
	"testing"
	"time"

	"github.com/emersion/go-ical"
	"github.com/emersion/go-vcard"
	webdav "github.com/emersion/go-webdav"
	"github.com/emersion/go-webdav/caldav"
	"github.com/emersion/go-webdav/carddav"
	"github.com/emersion/go-webdav/internal"
	"github.com/emersion/go-webdav/verifharness/cfs"
	"github.com/emersion/go-webdav/verifharness/vdbl"
	"github.com/emersion/go-webdav/verifharness/vev"
	"github.com/emersion/go-webdav/verifharness/vfs"
	"pgregory.net/rapid"
)

var rec = vev.For("C18")

func TestMain(m *testing.M) {
	rec.SetRule("part 1 (sampling of scheduler interleavings under the race detector; the harness does not own the schedule): one webdav.Handler over LocalFileSystem behind a real loopback server and one shared webdav.Client, N in 2..16 goroutines each running a rapid-generated sequence of 4-16 operations (Create, Mkdir, RemoveAll, Copy, Move, Stat, ReadDir, Open) inside its own subtree, GOMAXPROCS in {1,2,4,16}; every operation's outcome must equal the sequential abstract model of that goroutine's own history and the final tree the union of the model trees; likewise one caldav.Handler + shared caldav.Client, and one carddav.Handler + shared carddav.Client, over thread-safe recording backends, each goroutine on its own collection with its own request bodies, each concurrent result compared with the same call run alone. part 2 (generated fault sequences over real sockets): streamed uploads against scripted servers {read all then 201/204/4xx/5xx, the same but answering only after the client has entered Close, answer before reading, read k bytes then answer, read k bytes then drop the connection, stall until the client's context is cancelled} x size {0,1,4 KiB,64 KiB+1,1 MiB,8 MiB} x write chunking: Write and Close return; Close returns after the server's answer (sequence numbers, no clocks) and is nil exactly for a 2xx answer; no goroutine with a go-webdav frame survives. non-trivial = part 1: >= 2 goroutines that each performed >= 1 mutating request; part 2: a server-side fault or a size beyond 64 KiB; distinct by canonical JSON")
	rec.Assume("schedules are sampled, not enumerated: a race that needs a specific preemption inside a few instructions may never be observed", "a hang is reported as a violation only when the goroutine dump shows the caller blocked inside the library; otherwise the run is inconclusive")
	vev.Main(m)
}

func dev(kind, f string, a ...any) vev.Outcome {
	return vev.Outcome{Sig: vev.Sig(kind), Msg: fmt.Sprintf(f, a...)}
}

// ---------------------------------------------------------------------------
// part 1a: file server

type Op struct {
	Kind    string `json:"kind"` // create mkdir remove copy move stat readdir open
	Name    string `json:"name"`
	Dest    string `json:"dest,omitempty"`
	Content string `json:"content,omitempty"`
	NoOver  bool   `json:"no_overwrite,omitempty"`
}

type ConcCase struct {
	Kind  string `json:"kind"` // files | caldav | carddav
	Procs int    `json:"gomaxprocs"`
	Seqs  [][]Op `json:"seqs"` // one sequence per goroutine
}

// pathOf: names starting with ^ live in a directory shared by all goroutines
// (each goroutine only touches its own names there: disjoint resources, common parent)
//
// A '#' in a name stands for a file extension nobody has used before in this process (per run and goroutine): caches
// keyed by extension, content type or name get their first, writing access under concurrency.
var extNonce int

func oldTime(i int) time.Time { return time.Unix(1000000000+int64(i)*86400*37+int64(i), 0) }

func pathOf(i int, name string) string {
	name = strings.ReplaceAll(name, "#", fmt.Sprintf("x%dg%d", extNonce, i))
	if strings.HasPrefix(name, "^") {
		return fmt.Sprintf("/shared/g%d-%s", i, name[1:])
	}
	return fmt.Sprintf("/g%d/%s", i, name)
}

func (o Op) req(i int) vfs.Req {
	p := pathOf(i, o.Name)
	switch o.Kind {
	case "create":
		return vfs.Req{Method: "PUT", Path: p, Body: o.Content}
	case "mkdir":
		return vfs.Req{Method: "MKCOL", Path: p}
	case "remove":
		return vfs.Req{Method: "DELETE", Path: p}
	case "copy", "move":
		ow := "T"
		if o.NoOver {
			ow = "F"
		}
		m := "COPY"
		if o.Kind == "move" {
			m = "MOVE"
		}
		return vfs.Req{Method: m, Path: p, HasDest: true, Dest: cfs.EscapePath(pathOf(i, o.Dest)), Overwrite: ow, Depth: "infinity"}
	case "stat":
		return vfs.Req{Method: "PROPFIND", Path: p, Depth: "0"}
	case "readdir":
		return vfs.Req{Method: "PROPFIND", Path: p, Depth: "1"}
	default:
		return vfs.Req{Method: "GET", Path: p}
	}
}

func errCode(err error) int {
	var he *internal.HTTPError
	if errors.As(err, &he) {
		return he.Code
	}
	return -1
}

func evalFiles(c ConcCase) (vev.Outcome, error) {
	extNonce++
	root, err := os.MkdirTemp("", "c18")
	if err != nil {
		return vev.Outcome{}, err
	}
	defer os.RemoveAll(root)
	n := len(c.Seqs)
	for i := 0; i < n; i++ {
		os.MkdirAll(filepath.Join(root, fmt.Sprintf("g%d", i)), 0o755)
		// a file from another epoch in every subtree: values derived from metadata (dates, tags) differ between the
		// goroutines' resources, so a memo shared between requests is both written concurrently and observable
		f := filepath.Join(root, fmt.Sprintf("g%d", i), "old")
		os.WriteFile(f, []byte("old"), 0o644)
		os.Chtimes(f, oldTime(i), oldTime(i))
	}
	os.MkdirAll(filepath.Join(root, "shared"), 0o755)
	srv := httptest.NewServer(&webdav.Handler{FileSystem: webdav.LocalFileSystem(root)})
	defer srv.Close()
	hc := &http.Client{Transport: &http.Transport{MaxIdleConnsPerHost: 32}}
	defer hc.CloseIdleConnections()
	cl, err := webdav.NewClient(hc, srv.URL)
	if err != nil {
		return vev.Outcome{}, err
	}
	old := runtime.GOMAXPROCS(c.Procs)
	defer runtime.GOMAXPROCS(old)
	ctx := context.Background()
	outs := make([]vev.Outcome, n)
	models := make([]*vfs.Node, n)
	var wg sync.WaitGroup
	start := make(chan struct{})
	for i := 0; i < n; i++ {
		i := i
		wg.Add(1)
		go func() {
			defer wg.Done()
			// the model holds this goroutine's subtree and its own view of the shared directory
			model := vfs.NewDir()
			model.Kids[fmt.Sprintf("g%d", i)] = vfs.NewDir()
			model.Kids[fmt.Sprintf("g%d", i)].Kids["old"] = vfs.NewFile("old")
			model.Kids["shared"] = vfs.NewDir()
			untouched := true // nobody has replaced, moved or removed g<i>/old yet
			<-start
			for k, op := range c.Seqs[i] {
				want := vfs.Apply(model, op.req(i))
				var gerr error
				var stat *webdav.FileInfo
				var list []webdav.FileInfo
				var data []byte
				name := pathOf(i, op.Name)
				switch op.Kind {
				case "create":
					var w io.WriteCloser
					w, gerr = cl.Create(ctx, name)
					if gerr == nil {
						w.Write([]byte(op.Content))
						gerr = w.Close()
					}
				case "mkdir":
					gerr = cl.Mkdir(ctx, name)
				case "remove":
					gerr = cl.RemoveAll(ctx, name)
				case "copy":
					gerr = cl.Copy(ctx, name, pathOf(i, op.Dest), &webdav.CopyOptions{NoOverwrite: op.NoOver})
				case "move":
					gerr = cl.Move(ctx, name, pathOf(i, op.Dest), &webdav.MoveOptions{NoOverwrite: op.NoOver})
				case "stat":
					stat, gerr = cl.Stat(ctx, name)
				case "readdir":
					list, gerr = cl.ReadDir(ctx, name, false)
				case "open":
					var rc io.ReadCloser
					rc, gerr = cl.Open(ctx, name)
					if gerr == nil {
						data, _ = io.ReadAll(rc)
						rc.Close()
					}
				}
				tag := fmt.Sprintf("goroutine %d op %d %+v", i, k, op)
				if gerr != nil {
					code := errCode(gerr)
					if want.MustSucceed() {
						outs[i] = dev("files|"+op.Kind+"|failed-under-concurrency", "%s: failed with %v but succeeds when run alone (model %s)", tag, gerr, model)
						return
					}
					if !want.RefusalPermits(code) {
						outs[i] = dev("files|"+op.Kind+"|other-error", "%s: error %v (code %d), the sequential model wants %v", tag, gerr, code, want.Refuse)
						return
					}
					continue
				}
				if !want.MaySucceed() {
					outs[i] = dev("files|"+op.Kind+"|succeeded-unexpectedly", "%s: succeeded but the sequential model refuses it with %v (%s)", tag, want.Refuse, want.Why)
					return
				}
				model = want.Success[0].Tree
				if op.Kind != "stat" && op.Kind != "readdir" && op.Kind != "open" && (op.Name == "old" || op.Dest == "old" || op.Name == "") {
					untouched = false
				}
				switch op.Kind {
				case "stat":
					if op.Name == "old" && untouched && !stat.IsDir && stat.ModTime.Unix() != oldTime(i).Unix() {
						outs[i] = dev("files|stat|modtime", "%s: modification time %v, the file was last modified at %v", tag, stat.ModTime.UTC(), oldTime(i).UTC())
						return
					}
					if stat.IsDir != want.Target.Dir || (!stat.IsDir && stat.Size != int64(len(want.Target.Data))) {
						outs[i] = dev("files|stat|value", "%s: got %+v, model has dir=%v size=%d", tag, stat, want.Target.Dir, len(want.Target.Data))
						return
					}
				case "open":
					if string(data) != want.Target.Data {
						outs[i] = dev("files|open|content", "%s: read %q, model holds %q", tag, data, want.Target.Data)
						return
					}
				case "readdir":
					var got []string
					for _, fi := range list {
						got = append(got, strings.TrimSuffix(fi.Path, "/"))
					}
					wantP := append([]string{}, want.Scope...)
					sort.Strings(got)
					sort.Strings(wantP)
					if strings.Join(got, "\x00") != strings.Join(wantP, "\x00") {
						outs[i] = dev("files|readdir|members", "%s: listed %q, model has %q", tag, got, wantP)
						return
					}
				}
			}
			models[i] = model
		}()
	}
	close(start)
	done := make(chan struct{})
	go func() { wg.Wait(); close(done) }()
	select {
	case <-done:
	case <-time.After(120 * time.Second):
		return dev("files|hang", "concurrent run did not finish within 120 s\n%s", dump()), nil
	}
	for _, o := range outs {
		if !o.OK() {
			return o, nil
		}
	}
	disk, err := cfs.Snapshot(root)
	if err != nil {
		return vev.Outcome{}, err
	}
	for i := 0; i < n; i++ {
		g := fmt.Sprintf("g%d", i)
		if models[i] == nil {
			continue
		}
		if !disk.Kids[g].Equal(models[i].Kids[g]) {
			return dev("files|final-tree", "subtree %s is %s on disk, the sequential model has %s", g, disk.Kids[g], models[i].Kids[g]), nil
		}
		for name, node := range models[i].Kids["shared"].Kids {
			if !node.Equal(disk.Kids["shared"].Kids[name]) {
				return dev("files|final-tree-shared", "shared/%s is %s on disk, the model of goroutine %d has %s", name, disk.Kids["shared"].Kids[name], i, node), nil
			}
		}
		for name := range disk.Kids["shared"].Kids {
			if strings.HasPrefix(name, g+"-") && models[i].Kids["shared"].Kids[name] == nil {
				return dev("files|final-tree-shared", "shared/%s exists on disk but not in the model of goroutine %d", name, i), nil
			}
		}
	}
	// no stray entries (e.g. upload temp files) anywhere
	stray := ""
	disk.Walk(func(p string, x *vfs.Node) {
		if strings.Contains(p, ".webdav-upload-") {
			stray = p
		}
	})
	if stray != "" {
		return dev("files|stray-temp-file", "temporary upload file %q left behind", stray), nil
	}
	return vev.Outcome{}, nil
}

// ---------------------------------------------------------------------------
// part 1b: CalDAV handler + shared client, each result compared with the same call alone

func sampleCal(uid string) *ical.Calendar {
	cal := ical.NewCalendar()
	cal.Props.SetText(ical.PropVersion, "2.0")
	cal.Props.SetText(ical.PropProductID, "-//verif//EN")
	ev := ical.NewEvent()
	ev.Props.SetText(ical.PropUID, uid)
	ev.Props.SetDateTime(ical.PropDateTimeStamp, time.Unix(0, 0).UTC())
	ev.Props.SetDateTime(ical.PropDateTimeStart, time.Unix(0, 0).UTC())
	cal.Children = append(cal.Children, ev.Component)
	return cal
}

func evalCalDAV(c ConcCase) (vev.Outcome, error) {
	n := len(c.Seqs)
	b := &vdbl.CalBackend{Principal: "/u/", HomeSet: "/u/h/", Objects: map[string][]caldav.CalendarObject{}}
	for i := 0; i < n; i++ {
		p := fmt.Sprintf("/u/h/c%d/", i)
		b.Calendars = append(b.Calendars, caldav.Calendar{Path: p, Name: fmt.Sprintf("cal %d", i), Description: "d"})
		for j := 0; j < 3; j++ {
			b.Objects[p] = append(b.Objects[p], caldav.CalendarObject{Path: fmt.Sprintf("%so%d.ics", p, j), ETag: fmt.Sprintf("e%d-%d", i, j), Data: sampleCal(fmt.Sprintf("u%d-%d", i, j))})
		}
	}
	srv := httptest.NewServer(&caldav.Handler{Backend: b})
	defer srv.Close()
	hc := &http.Client{Transport: &http.Transport{MaxIdleConnsPerHost: 32}}
	defer hc.CloseIdleConnections()
	cl, err := caldav.NewClient(hc, srv.URL)
	if err != nil {
		return vev.Outcome{}, err
	}
	old := runtime.GOMAXPROCS(c.Procs)
	defer runtime.GOMAXPROCS(old)
	ctx := context.Background()
	call := func(i int, op Op) string {
		p := fmt.Sprintf("/u/h/c%d/", i)
		var v any
		var err error
		switch op.Kind {
		case "stat":
			v, err = cl.FindCalendars(ctx, "/u/h/")
		case "readdir":
			v, err = cl.QueryCalendar(ctx, p, &caldav.CalendarQuery{CompRequest: caldav.CalendarCompRequest{Name: "VCALENDAR", AllProps: true, AllComps: true}, CompFilter: caldav.CompFilter{Name: "VCALENDAR"}})
		case "open":
			v, err = cl.GetCalendarObject(ctx, p+"o1.ics")
		case "copy", "move":
			v, err = cl.MultiGetCalendar(ctx, p, &caldav.CalendarMultiGet{Paths: []string{p + "o0.ics", p + "o2.ics"}, CompRequest: caldav.CalendarCompRequest{Name: "VCALENDAR", AllProps: true, AllComps: true}})
		case "mkdir":
			v, err = cl.FindCalendarHomeSet(ctx, "/u/")
		default:
			v, err = cl.PutCalendarObject(ctx, p+"new-"+op.Name+".ics", sampleCal("put-"+op.Name))
		}
		js, _ := json.Marshal(v)
		if co, ok := v.(*caldav.CalendarObject); ok && co != nil && co.Data != nil {
			var buf bytes.Buffer
			ical.NewEncoder(&buf).Encode(co.Data)
			js = append(js, buf.Bytes()...)
		}
		if l, ok := v.([]caldav.CalendarObject); ok {
			for _, co := range l {
				var buf bytes.Buffer
				ical.NewEncoder(&buf).Encode(co.Data)
				js = append(js, buf.Bytes()...)
			}
		}
		return fmt.Sprintf("%s err=%v", js, err)
	}
	results := make([][]string, n)
	var wg sync.WaitGroup
	start := make(chan struct{})
	for i := 0; i < n; i++ {
		i := i
		wg.Add(1)
		go func() {
			defer wg.Done()
			<-start
			for _, op := range c.Seqs[i] {
				results[i] = append(results[i], call(i, op))
			}
		}()
	}
	close(start)
	done := make(chan struct{})
	go func() { wg.Wait(); close(done) }()
	select {
	case <-done:
	case <-time.After(120 * time.Second):
		return dev("caldav|hang", "concurrent run did not finish within 120 s\n%s", dump()), nil
	}
	// the same calls, alone
	for i := 0; i < n; i++ {
		for k, op := range c.Seqs[i] {
			alone := call(i, op)
			if alone != results[i][k] {
				return dev("caldav|differs-from-sequential|"+op.Kind, "goroutine %d op %d (%s): under concurrency %.300s, alone %.300s", i, k, op.Kind, results[i][k], alone), nil
			}
		}
	}
	return vev.Outcome{}, nil
}

func dump() string {
	buf := make([]byte, 1<<20)
	return string(buf[:runtime.Stack(buf, true)])
}

// ---------------------------------------------------------------------------
// part 2: upload protocol

type UpCase struct {
	Server   string `json:"server"` // readall | early | partial | drop | stall
	Code     int    `json:"code,omitempty"`
	K        int    `json:"k,omitempty"` // bytes the server reads before acting
	Size     int    `json:"size"`
	Chunk    int    `json:"chunk"` // 0 = one write
	CancelAt int    `json:"cancel_at,omitempty"`
}

func libraryGoroutines() []string {
	var l []string
	for _, g := range strings.Split(dump(), "\n\n") {
		if strings.Contains(g, "github.com/emersion/go-webdav.") || strings.Contains(g, "github.com/emersion/go-webdav/internal.") {
			if !strings.Contains(g, "verifharness") {
				l = append(l, g)
			}
		}
	}
	return l
}

func evalUpload(c UpCase) (vev.Outcome, error) {
	var seq atomic.Int64
	var answeredAt atomic.Int64
	var closeEntered atomic.Bool
	release := make(chan struct{})
	var once sync.Once
	// stall scripts: the server tells the harness when it has stopped reading, and the harness cancels the
	// caller's context from outside the writing goroutine (a Write that is blocked on a full pipe can never reach
	// a cancel point of its own; waiting for one would be a deadlock made by the harness, not by the library)
	stalled := make(chan struct{})
	reached := make(chan struct{})
	var stalledOnce, reachedOnce sync.Once
	handler := http.HandlerFunc(func(w http.ResponseWriter, r *http.Request) {
		if c.Code/100 != 2 && c.Code != 0 {
			// failure answers carry a body the client neither decodes as XML nor excerpts as text (added after seeded
			// change C18-s11: an unread body keeps the connection and its two transport goroutines alive)
			w.Header().Set("Content-Type", []string{"application/json", "application/octet-stream", "application/problem+json"}[c.Size%3])
			defer w.Write([]byte(`{"error":"refused","detail":"` + strings.Repeat("x", 300) + `"}`))
		}
		readK := func(k int) {
			if k > 0 {
				io.CopyN(io.Discard, r.Body, int64(k))
			}
		}
		switch c.Server {
		case "readall", "precancelled":
			io.Copy(io.Discard, r.Body)
			answeredAt.Store(seq.Add(1))
			w.WriteHeader(c.Code)
		case "slow":
			// answer only after the client is inside Close, and then a little later still
			io.Copy(io.Discard, r.Body)
			for i := 0; i < 2000 && !closeEntered.Load(); i++ {
				time.Sleep(time.Millisecond)
			}
			time.Sleep(200 * time.Millisecond)
			answeredAt.Store(seq.Add(1))
			w.WriteHeader(c.Code)
		case "early":
			answeredAt.Store(seq.Add(1))
			w.WriteHeader(c.Code)
		case "partial":
			readK(c.K)
			answeredAt.Store(seq.Add(1))
			w.WriteHeader(c.Code)
		case "drop":
			readK(c.K)
			hj, ok := w.(http.Hijacker)
			if !ok {
				return
			}
			conn, _, err := hj.Hijack()
			if err != nil {
				return
			}
			answeredAt.Store(seq.Add(1))
			if tc, ok := conn.(*net.TCPConn); ok {
				tc.SetLinger(0)
			}
			conn.Close()
		case "stall":
			readK(c.K)
			stalledOnce.Do(func() { close(stalled) })
			select {
			case <-r.Context().Done():
			case <-release:
			case <-time.After(60 * time.Second):
			}
		}
	})
	srv := httptest.NewServer(handler)
	defer func() { once.Do(func() { close(release) }); srv.Close() }()
	tr := &http.Transport{}
	hc := &http.Client{Transport: tr}
	defer tr.CloseIdleConnections()
	cl, err := webdav.NewClient(hc, srv.URL)
	if err != nil {
		return vev.Outcome{}, err
	}
	ctx, cancel := context.WithCancel(context.Background())
	defer cancel()
	cls := fmt.Sprintf("upload|%s|%d", c.Server, c.Code)
	type res struct {
		werr, cerr error
		closedAt   int64
		cancelled  int64
	}
	ch := make(chan res, 1)
	var cancelledAt atomic.Int64
	if c.Server == "stall" {
		go func() {
			select {
			case <-stalled:
			case <-release:
				return
			}
			select {
			case <-reached:
			case <-time.After(100 * time.Millisecond):
			case <-release:
			}
			cancelledAt.CompareAndSwap(0, seq.Add(1))
			cancel()
		}()
	}
	go func() {
		var r res
		if c.Server == "precancelled" {
			// the caller's context is already done when the upload is opened (after C18-s15): nothing may ever reach the
			// server, and Write and Close must still return
			cancelledAt.CompareAndSwap(0, seq.Add(1))
			cancel()
		}
		w, err := cl.Create(ctx, "/upload.bin")
		if err != nil {
			r.cerr = err
			ch <- r
			return
		}
		data := bytes.Repeat([]byte("0123456789abcdef"), c.Size/16+1)[:c.Size]
		chunk := c.Chunk
		if chunk <= 0 {
			chunk = len(data)
		}
		written := 0
		for written < len(data) {
			if c.Server == "stall" && written >= c.CancelAt {
				reachedOnce.Do(func() { close(reached) })
			}
			e := written + chunk
			if e > len(data) {
				e = len(data)
			}
			if _, err := w.Write(data[written:e]); err != nil {
				r.werr = err
				break
			}
			written = e
		}
		reachedOnce.Do(func() { close(reached) })
		closeEntered.Store(true)
		r.cerr = w.Close()
		r.closedAt = seq.Add(1)
		ch <- r
	}()
	var r res
	select {
	case r = <-ch:
	case <-time.After(45 * time.Second):
		d := dump()
		once.Do(func() { close(release) })
		if strings.Contains(d, "go-webdav.(*fileWriter).Close") || strings.Contains(d, "go-webdav.(*fileWriter).Write") {
			return dev(cls+"|hang", "Write/Close did not return within 45 s; the caller is blocked inside the library:\n%.3000s", d), nil
		}
		return vev.Outcome{}, fmt.Errorf("upload case %+v did not finish within 45 s (not blocked in the library)", c)
	}
	ok2xx := c.Code/100 == 2 && (c.Server == "readall" || c.Server == "early" || c.Server == "partial" || c.Server == "slow")
	switch {
	case ok2xx && r.cerr != nil:
		return dev(cls+"|close-error-on-2xx", "server answered %d but Close returned %v (write error %v)", c.Code, r.cerr, r.werr), nil
	case !ok2xx && r.cerr == nil:
		return dev(cls+"|close-nil-on-failure", "server behaviour %s/%d but Close returned nil (write error %v)", c.Server, c.Code, r.werr), nil
	}
	if c.Server != "stall" && c.Server != "drop" && c.Server != "precancelled" && c.Code/100 != 2 {
		if code := errCode(r.cerr); code != c.Code {
			return dev(cls+"|status-not-carried", "server answered %d, Close returned %v", c.Code, r.cerr), nil
		}
	}
	if c.Server != "stall" && c.Server != "precancelled" {
		if a := answeredAt.Load(); a == 0 || a > r.closedAt {
			return dev(cls+"|close-before-answer", "Close returned (seq %d) before the server produced its answer (seq %d)", r.closedAt, a), nil
		}
	}
	// no library goroutine outlives Close
	var left []string
	for i := 0; i < 100; i++ {
		if left = libraryGoroutines(); len(left) == 0 {
			break
		}
		time.Sleep(20 * time.Millisecond)
	}
	if len(left) > 0 {
		return dev(cls+"|goroutine-leak", "%d goroutines with go-webdav frames remain 2 s after Close:\n%.1500s", len(left), left[0]), nil
	}
	// nor does the library keep the connection busy: once the client's idle connections are closed, no transport
	// goroutine of this upload remains (only asserted where the server produced an answer)
	if c.Server != "stall" && c.Server != "drop" && c.Server != "precancelled" {
		tr.CloseIdleConnections()
		remain := 0
		for i := 0; i < 250; i++ {
			remain = strings.Count(dump(), "net/http.(*persistConn).readLoop")
			if remain == 0 {
				break
			}
			time.Sleep(20 * time.Millisecond)
		}
		if remain > 0 {
			return dev(cls+"|connection-leak", "%d transport connections are still held 5 s after Close and CloseIdleConnections (a response body left unread?)", remain), nil
		}
	}
	return vev.Outcome{}, nil
}

// ---------------------------------------------------------------------------

func sampleCard(uid string) vcard.Card {
	c := vcard.Card{}
	c.SetValue(vcard.FieldVersion, "4.0")
	c.SetValue(vcard.FieldFormattedName, "name "+uid)
	c.SetValue(vcard.FieldUID, uid)
	return c
}

// evalCardDAV: one carddav.Handler and one carddav.Client shared by all goroutines, each goroutine working on its own
// address book; every concurrent result must equal the result of the same call run alone afterwards.
func evalCardDAV(c ConcCase) (vev.Outcome, error) {
	n := len(c.Seqs)
	b := &vdbl.CardBackend{Principal: "/u/", HomeSet: "/u/h/", Objects: map[string][]carddav.AddressObject{}}
	for i := 0; i < n; i++ {
		p := fmt.Sprintf("/u/h/b%d/", i)
		b.Books = append(b.Books, carddav.AddressBook{Path: p, Name: fmt.Sprintf("book %d", i), Description: "d"})
		for j := 0; j < 3; j++ {
			b.Objects[p] = append(b.Objects[p], carddav.AddressObject{Path: fmt.Sprintf("%so%d.vcf", p, j), ETag: fmt.Sprintf("e%d-%d", i, j), Card: sampleCard(fmt.Sprintf("u%d-%d", i, j))})
		}
	}
	srv := httptest.NewServer(&carddav.Handler{Backend: b})
	defer srv.Close()
	hc := &http.Client{Transport: &http.Transport{MaxIdleConnsPerHost: 32}}
	defer hc.CloseIdleConnections()
	cl, err := carddav.NewClient(hc, srv.URL)
	if err != nil {
		return vev.Outcome{}, err
	}
	old := runtime.GOMAXPROCS(c.Procs)
	defer runtime.GOMAXPROCS(old)
	ctx := context.Background()
	enc := func(card vcard.Card) []byte {
		var buf bytes.Buffer
		vcard.NewEncoder(&buf).Encode(card)
		return buf.Bytes()
	}
	call := func(i int, op Op) string {
		p := fmt.Sprintf("/u/h/b%d/", i)
		var v any
		var err error
		switch op.Kind {
		case "stat":
			v, err = cl.FindAddressBooks(ctx, "/u/h/")
		case "readdir":
			// a different query per goroutine, so that request bodies differ
			v, err = cl.QueryAddressBook(ctx, p, &carddav.AddressBookQuery{DataRequest: carddav.AddressDataRequest{AllProp: true},
				PropFilters: []carddav.PropFilter{{Name: vcard.FieldUID, TextMatches: []carddav.TextMatch{{Text: fmt.Sprintf("u%d-", i), MatchType: carddav.MatchStartsWith}}}}})
		case "open":
			v, err = cl.GetAddressObject(ctx, p+"o1.vcf")
		case "copy", "move":
			v, err = cl.MultiGetAddressBook(ctx, p, &carddav.AddressBookMultiGet{Paths: []string{p + "o0.vcf", p + "o2.vcf"}, DataRequest: carddav.AddressDataRequest{AllProp: true}})
		case "mkdir":
			v, err = cl.FindAddressBookHomeSet(ctx, "/u/")
		default:
			v, err = cl.PutAddressObject(ctx, p+"new-"+op.Name+".vcf", sampleCard("put-"+op.Name))
		}
		js, _ := json.Marshal(v)
		if ao, ok := v.(*carddav.AddressObject); ok && ao != nil && ao.Card != nil {
			js = append(js, enc(ao.Card)...)
		}
		if l, ok := v.([]carddav.AddressObject); ok {
			for _, ao := range l {
				js = append(js, enc(ao.Card)...)
			}
		}
		return fmt.Sprintf("%s err=%v", js, err)
	}
	results := make([][]string, n)
	var wg sync.WaitGroup
	start := make(chan struct{})
	for i := 0; i < n; i++ {
		i := i
		wg.Add(1)
		go func() {
			defer wg.Done()
			<-start
			for _, op := range c.Seqs[i] {
				results[i] = append(results[i], call(i, op))
			}
		}()
	}
	close(start)
	done := make(chan struct{})
	go func() { wg.Wait(); close(done) }()
	select {
	case <-done:
	case <-time.After(120 * time.Second):
		return dev("carddav|hang", "concurrent run did not finish within 120 s\n%s", dump()), nil
	}
	for i := 0; i < n; i++ {
		for k, op := range c.Seqs[i] {
			alone := call(i, op)
			if alone != results[i][k] {
				return dev("carddav|differs-from-sequential|"+op.Kind, "goroutine %d op %d (%s): under concurrency %.300s, alone %.300s", i, k, op.Kind, results[i][k], alone), nil
			}
		}
	}
	return vev.Outcome{}, nil
}

type Case struct {
	Conc *ConcCase     `json:"conc,omitempty"`
	Up   *UpCase       `json:"up,omitempty"`
	Prog *ProgressCase `json:"progress,omitempty"`
}

func evaluate(c Case) (vev.Outcome, error) {
	switch {
	case c.Up != nil:
		return evalUpload(*c.Up)
	case c.Prog != nil:
		return evalProgress(*c.Prog)
	case c.Conc != nil && c.Conc.Kind == "caldav":
		return evalCalDAV(*c.Conc)
	case c.Conc != nil && c.Conc.Kind == "carddav":
		return evalCardDAV(*c.Conc)
	case c.Conc != nil:
		return evalFiles(*c.Conc)
	}
	return vev.Outcome{}, fmt.Errorf("empty case")
}

func TestAReplay(t *testing.T) {
	vev.RunReplays(t, rec, func(kind string, raw json.RawMessage) (vev.Outcome, error) {
		var c Case
		if err := json.Unmarshal(raw, &c); err != nil {
			return vev.Outcome{}, err
		}
		return evaluate(c)
	})
}

func genSeq(rt *rapid.T, files bool) []Op {
	n := rapid.IntRange(4, 16).Draw(rt, "nops")
	names := []string{"a", "b", "d", "d/x", "d/y", "e f", "é", "^s", "^t", "^s", "^u v", "r.#", "d/s.#", "^w.#", "r.txt", "old", "old", "old"}
	var l []Op
	for i := 0; i < n; i++ {
		op := Op{Kind: rapid.SampledFrom([]string{"create", "create", "create", "mkdir", "remove", "copy", "move", "stat", "readdir", "open"}).Draw(rt, "kind"), Name: rapid.SampledFrom(names).Draw(rt, "name")}
		switch op.Kind {
		case "create":
			op.Content = rapid.SampledFrom([]string{"", "1", "22", strings.Repeat("x", 40000)}).Draw(rt, "content")
			if !files {
				op.Name = fmt.Sprintf("%d", i)
			}
		case "copy", "move":
			op.Dest = rapid.SampledFrom(names).Draw(rt, "dest")
			op.NoOver = rapid.Bool().Draw(rt, "noover")
		case "readdir":
			op.Name = rapid.SampledFrom([]string{"", "d", "a"}).Draw(rt, "dirname") // never the shared directory: its listing depends on the schedule
		}
		l = append(l, op)
	}
	return l
}

func TestConcurrency(t *testing.T) {
	if vev.ReplayFile() != "" {
		t.Skip()
	}
	vev.Rapid(t, rec, 0, vev.N(40, 1200), func(rt *rapid.T) {
		c := ConcCase{Kind: rapid.SampledFrom([]string{"files", "files", "files", "caldav", "carddav"}).Draw(rt, "kind"), Procs: rapid.SampledFrom([]int{1, 2, 4, 16}).Draw(rt, "procs")}
		n := rapid.IntRange(2, 16).Draw(rt, "goroutines")
		mut := 0
		for i := 0; i < n; i++ {
			s := genSeq(rt, c.Kind == "files")
			c.Seqs = append(c.Seqs, s)
			for _, op := range s {
				if op.Kind == "create" || op.Kind == "mkdir" {
					mut++
					break
				}
			}
		}
		rec.Case(fmt.Sprintf("conc/%s/procs=%d", c.Kind, c.Procs), mut >= 2, mustJSON(c), func() any {
			// the sample keeps the shape of the run, not the bulk of the uploaded contents
			cp := ConcCase{Kind: c.Kind, Procs: c.Procs}
			for _, sq := range c.Seqs {
				var l []Op
				for _, op := range sq {
					if len(op.Content) > 64 {
						op.Content = fmt.Sprintf("<%d bytes>", len(op.Content))
					}
					l = append(l, op)
				}
				cp.Seqs = append(cp.Seqs, l)
			}
			return cp
		})
		o, err := evaluate(Case{Conc: &c})
		if err != nil {
			rt.Fatalf("harness: %v", err)
		}
		if !o.OK() && !rec.Known(o.Sig) {
			rec.Fail(rt, o.Sig, "c18", Case{Conc: &c}, "%s", o.Msg)
		}
	})
}

func TestUploads(t *testing.T) {
	if vev.ReplayFile() != "" {
		t.Skip()
	}
	sizes := []int{0, 1, 4096, 65537, 1 << 20}
	if vev.Thorough() {
		sizes = append(sizes, 8<<20)
	}
	var cases []UpCase
	for _, size := range sizes {
		for _, chunk := range []int{0, 1, 8191} {
			if chunk == 1 && size > 4096 {
				continue // byte-wise writes only for small bodies
			}
			for _, code := range []int{201, 204, 403, 507} {
				cases = append(cases, UpCase{Server: "readall", Code: code, Size: size, Chunk: chunk}, UpCase{Server: "early", Code: code, Size: size, Chunk: chunk})
				if size > 1 {
					cases = append(cases, UpCase{Server: "partial", Code: code, K: size / 2, Size: size, Chunk: chunk})
				}
			}
			cases = append(cases, UpCase{Server: "drop", K: 0, Size: size, Chunk: chunk}, UpCase{Server: "stall", K: 0, Size: size, Chunk: chunk, CancelAt: size / 2})
			cases = append(cases, UpCase{Server: "precancelled", Code: 201, Size: size, Chunk: chunk})
			if chunk == 0 {
				cases = append(cases, UpCase{Server: "slow", Code: 201, Size: size}, UpCase{Server: "slow", Code: 403, Size: size})
			}
			if size > 1 {
				cases = append(cases, UpCase{Server: "drop", K: size / 2, Size: size, Chunk: chunk}, UpCase{Server: "stall", K: size / 3, Size: size, Chunk: chunk, CancelAt: size})
			}
		}
	}
	for i, c := range cases {
		if !vev.MyShare(i) {
			continue
		}
		if !vev.Thorough() && (i+vev.SeedValue())%3 != 0 && c.Server != "precancelled" {
			continue // quick tier: a third of the matrix, rotated by the seed (the cheap pre-cancelled cases always)
		}
		c := c
		fault := c.Server != "readall" || c.Code/100 != 2
		rec.Case("upload/"+c.Server, fault || c.Size > 65536, mustJSON(c), func() any { return c })
		o, err := evaluate(Case{Up: &c})
		if err != nil {
			t.Fatalf("harness: %v", err)
		}
		if !o.OK() && !rec.Known(o.Sig) {
			rec.Violation(t, o.Sig, "c18", Case{Up: &c}, "%s", o.Msg)
			if strings.HasSuffix(o.Sig, "|hang") {
				break // the blocked goroutines of a hung upload would be counted against every later case
			}
		}
	}
	if vev.Thorough() {
		rec.ExhaustiveSub("upload matrix: 6 server behaviours x status {201,204,403,507} x size {0,1,4 KiB,64 KiB+1,1 MiB,8 MiB} x chunking {one write, 8191-byte writes, byte-wise for small bodies}")
	}
}

func mustJSON(v any) string {
	b, _ := json.Marshal(v)
	return string(b)
}
