// Package c06: CalDAV filter evaluation (RFC 4791 §9.7–9.9).
//
// ref.go is the reference evaluator: written from RFC 4791 §9.7.1–9.7.5 and
// the §9.9 VEVENT table, three-valued (True / False / Either), on harness-side
// mirror types only; it imports nothing from go-webdav, go-ical or rrule-go (vev only for the embedded zone database).
package c06

import (
	"github.com/emersion/go-webdav/verifharness/vev"
	"fmt"
	"regexp"
	"strconv"
	"strings"
	"time"
)

type Prop struct {
	Name   string      `json:"n"`
	Value  string      `json:"v"`
	Params [][2]string `json:"p,omitempty"`
}

type Comp struct {
	Name     string `json:"name"`
	Props    []Prop `json:"props,omitempty"`
	Children []Comp `json:"children,omitempty"`
}

type TextMatch struct {
	Text string `json:"text"`
	Neg  bool   `json:"neg,omitempty"`
}

type ParamF struct {
	Name string     `json:"name"`
	IND  bool       `json:"ind,omitempty"`
	TM   *TextMatch `json:"tm,omitempty"`
}

type PropF struct {
	Name   string     `json:"name"`
	IND    bool       `json:"ind,omitempty"`
	Start  *int64     `json:"start,omitempty"` // unix seconds, UTC
	End    *int64     `json:"end,omitempty"`
	TM     *TextMatch `json:"tm,omitempty"`
	Params []ParamF   `json:"params,omitempty"`
}

type CompF struct {
	Name  string  `json:"name"`
	IND   bool    `json:"ind,omitempty"`
	Start *int64  `json:"start,omitempty"`
	End   *int64  `json:"end,omitempty"`
	Props []PropF `json:"props,omitempty"`
	Comps []CompF `json:"comps,omitempty"`
}

// three-valued verdicts
type V int

const (
	F V = iota
	T
	E // either: the statement leaves it open
)

func (v V) String() string { return [...]string{"false", "true", "either"}[v] }

func and(a, b V) V {
	if a == F || b == F {
		return F
	}
	if a == T && b == T {
		return T
	}
	return E
}

func or(a, b V) V {
	if a == T || b == T {
		return T
	}
	if a == F && b == F {
		return F
	}
	return E
}

func fromBool(b bool) V {
	if b {
		return T
	}
	return F
}

func (c Comp) props(name string) []Prop {
	var l []Prop
	for _, p := range c.Props {
		if p.Name == name {
			l = append(l, p)
		}
	}
	return l
}

func (p Prop) params(name string) []string {
	var l []string
	for _, kv := range p.Params {
		if kv[0] == name {
			l = append(l, kv[1])
		}
	}
	return l
}

// ---------------------------------------------------------------------------
// text

func unescapeText(s string) string {
	var b strings.Builder
	for i := 0; i < len(s); i++ {
		if s[i] == '\\' && i+1 < len(s) {
			i++
			switch s[i] {
			case 'n', 'N':
				b.WriteByte('\n')
			default:
				b.WriteByte(s[i])
			}
			continue
		}
		b.WriteByte(s[i])
	}
	return b.String()
}

func asciiFold(s string) string {
	b := []byte(s)
	for i, c := range b {
		if c >= 'A' && c <= 'Z' {
			b[i] = c + 32
		}
	}
	return string(b)
}

// textMatch: substring under octet comparison, inverted by negate-condition.
// Either when the RFC default collation (i;ascii-casemap) or the escaped vs
// unescaped reading of the value would decide differently.
func textMatch(tm TextMatch, value string) V {
	readings := []bool{
		strings.Contains(value, tm.Text),
		strings.Contains(asciiFold(value), asciiFold(tm.Text)),
		strings.Contains(unescapeText(value), tm.Text),
	}
	v := fromBool(readings[0])
	for _, r := range readings[1:] {
		if r != readings[0] {
			v = E
		}
	}
	if tm.Neg && v != E {
		v = fromBool(v == F)
	}
	return v
}

// ---------------------------------------------------------------------------
// instants, durations, recurrence (bounded family)

const inf = int64(1) << 60

func parseInstant(p Prop) (t int64, isDate bool, err error) {
	switch len(p.Value) {
	case 8:
		tt, err := time.Parse("20060102", p.Value)
		return tt.Unix() - dateShift, true, err
	case 16:
		tt, err := time.Parse("20060102T150405Z", p.Value)
		return tt.Unix(), false, err
	case 15:
		// local time with a time zone reference (RFC 5545 form #3): the wall-clock reading in that zone; the zone
		// database is the one embedded in the test binary, the same the library resolves TZID with
		for _, kv := range p.Params {
			if kv[0] == "TZID" {
				tt, err := time.ParseInLocation("20060102T150405", p.Value, vev.Zone(kv[1]))
				return tt.Unix(), false, err
			}
		}
	}
	return 0, false, fmt.Errorf("reference handles UTC date-times and dates only, got %q", p.Value)
}

var durRe = regexp.MustCompile(`^([+-])?P(?:(\d+)W)?(?:(\d+)D)?(?:T(?:(\d+)H)?(?:(\d+)M)?(?:(\d+)S)?)?$`)

func parseDuration(s string) (int64, error) {
	m := durRe.FindStringSubmatch(s)
	if m == nil {
		return 0, fmt.Errorf("bad duration %q", s)
	}
	n := func(x string) int64 { v, _ := strconv.ParseInt(x, 10, 64); return v }
	d := n(m[2])*7*86400 + n(m[3])*86400 + n(m[4])*3600 + n(m[5])*60 + n(m[6])
	if m[1] == "-" {
		d = -d
	}
	return d, nil
}

// instanceStarts returns the start instants of all instances (DTSTART alone
// for a non-recurring component).  Only FREQ=DAILY|WEEKLY;INTERVAL;COUNT.
func instanceStarts(c Comp, dtstart int64) ([]int64, error) {
	rr := c.props("RRULE")
	if len(rr) == 0 {
		return []int64{dtstart}, nil
	}
	step, interval, count := int64(0), int64(1), int64(-1)
	for _, part := range strings.Split(rr[0].Value, ";") {
		kv := strings.SplitN(part, "=", 2)
		if len(kv) != 2 {
			return nil, fmt.Errorf("bad rrule part %q", part)
		}
		switch kv[0] {
		case "FREQ":
			switch kv[1] {
			case "DAILY":
				step = 86400
			case "WEEKLY":
				step = 7 * 86400
			default:
				return nil, fmt.Errorf("reference handles DAILY/WEEKLY only")
			}
		case "INTERVAL":
			interval, _ = strconv.ParseInt(kv[1], 10, 64)
		case "COUNT":
			count, _ = strconv.ParseInt(kv[1], 10, 64)
		default:
			return nil, fmt.Errorf("reference does not handle rrule part %q", part)
		}
	}
	if step == 0 || count < 1 || interval < 1 {
		return nil, fmt.Errorf("reference needs FREQ and COUNT>=1")
	}
	// EXDATE: occurrences that are taken out again (values of the same kind as DTSTART)
	ex := map[int64]bool{}
	for _, p := range c.props("EXDATE") {
		for _, v := range strings.Split(p.Value, ",") {
			t, _, err := parseInstant(Prop{Name: "EXDATE", Value: v})
			if err != nil {
				return nil, err
			}
			ex[t] = true
		}
	}
	var l []int64
	for k := int64(0); k < count; k++ {
		if t := dtstart + k*interval*step; !ex[t] {
			l = append(l, t)
		}
	}
	return l, nil
}

// eventOverlaps implements the RFC 4791 §9.9 VEVENT table for one instance.
func eventOverlaps(c Comp, start, end int64) (V, error) {
	ds := c.props("DTSTART")
	if len(ds) != 1 {
		return E, nil // no/several DTSTART: outside RFC 5545, don't care
	}
	dtstart, isDate, err := parseInstant(ds[0])
	if err != nil {
		return E, err
	}
	starts, err := instanceStarts(c, dtstart)
	if err != nil {
		return E, err
	}
	var cond func(s int64) bool
	switch {
	case len(c.props("DTEND")) > 0:
		dtend, _, err := parseInstant(c.props("DTEND")[0])
		if err != nil {
			return E, err
		}
		length := dtend - dtstart
		if length <= 0 {
			return E, nil // DTEND must be later than DTSTART (RFC 5545)
		}
		cond = func(s int64) bool { return start < s+length && end > s }
	case len(c.props("DURATION")) > 0:
		d, err := parseDuration(c.props("DURATION")[0].Value)
		if err != nil {
			return E, err
		}
		if d > 0 {
			cond = func(s int64) bool { return start < s+d && end > s }
		} else if d == 0 {
			cond = func(s int64) bool { return start <= s && end > s }
		} else {
			return E, nil
		}
	case !isDate:
		cond = func(s int64) bool { return start <= s && end > s }
	default:
		cond = func(s int64) bool { return start < s+86400 && end > s }
	}
	for _, s := range starts {
		if cond(s) {
			return T, nil
		}
	}
	return F, nil
}

func bounds(s, e *int64) (int64, int64, bool) {
	if s == nil && e == nil {
		return 0, 0, false
	}
	start, end := -inf, inf
	if s != nil {
		start = *s
	}
	if e != nil {
		end = *e
	}
	return start, end, true
}

// ---------------------------------------------------------------------------
// filters

func evalParamF(f ParamF, p Prop) V {
	vals := p.params(f.Name)
	if len(vals) == 0 {
		return fromBool(f.IND)
	}
	if f.IND {
		return F
	}
	if f.TM == nil {
		return T
	}
	// several values: "first value" and "some value" readings both tolerated
	v := textMatch(*f.TM, vals[0])
	for _, x := range vals[1:] {
		if textMatch(*f.TM, x) != v {
			v = E
		}
	}
	for _, x := range vals {
		if x == "" {
			v = E // empty parameter value: present or absent? don't care
		}
	}
	return v
}

func evalPropInstance(f PropF, p Prop) (V, error) {
	v := T
	if start, end, ok := bounds(f.Start, f.End); ok {
		t, _, err := parseInstant(p)
		if err != nil {
			return E, err
		}
		switch {
		case t == start:
			v = and(v, E) // value == range start: left open by the statement
		default:
			v = and(v, fromBool(start < t && t < end))
		}
		if t >= end {
			v = F
		}
	} else if f.TM != nil {
		v = and(v, textMatch(*f.TM, p.Value))
	}
	for _, pf := range f.Params {
		v = and(v, evalParamF(pf, p))
	}
	return v, nil
}

func evalPropF(f PropF, c Comp) (V, error) {
	insts := c.props(f.Name)
	if len(insts) == 0 {
		return fromBool(f.IND), nil
	}
	if f.IND {
		return F, nil
	}
	v, err := evalPropInstance(f, insts[0])
	if err != nil {
		return E, err
	}
	// several instances: first-instance and some-instance readings tolerated
	for _, p := range insts[1:] {
		w, err := evalPropInstance(f, p)
		if err != nil {
			return E, err
		}
		if w != v {
			v = E
		}
	}
	return v, nil
}

// evalOn: does component c (whose name already equals f.Name) satisfy the
// filter's time range, nested component filters and property filters?
func evalOn(f CompF, c Comp) (V, error) {
	v := T
	if start, end, ok := bounds(f.Start, f.End); ok {
		if c.Name != "VEVENT" {
			v = E // the statement speaks about events only
		} else {
			w, err := eventOverlaps(c, start, end)
			if err != nil {
				return E, err
			}
			v = and(v, w)
		}
	}
	for _, cf := range f.Comps {
		w, err := evalNested(cf, c)
		if err != nil {
			return E, err
		}
		v = and(v, w)
	}
	for _, pf := range f.Props {
		w, err := evalPropF(pf, c)
		if err != nil {
			return E, err
		}
		v = and(v, w)
	}
	return v, nil
}

// evalNested: comp-filter f evaluated in the scope of parent component.
func evalNested(f CompF, parent Comp) (V, error) {
	var cands []Comp
	for _, ch := range parent.Children {
		if ch.Name == f.Name {
			cands = append(cands, ch)
		}
	}
	if f.IND {
		return fromBool(len(cands) == 0), nil
	}
	v := F
	for _, c := range cands {
		w, err := evalOn(f, c)
		if err != nil {
			return E, err
		}
		v = or(v, w)
	}
	return v, nil
}

// RefMatch: the top-level filter is evaluated against the calendar object
// itself (scope: the object; the only candidate is its root component).
// dateShift: seconds by which midnight of a DATE value (which has no zone of its own) lies before UTC midnight.
var dateShift int64

// RefMatchZ evaluates under both readings of zone-less DATE values - UTC, and the zone in which the caller hands
// over the query's instants (the library reads them in the Location of the range start; neither the statement nor
// RFC 4791 section 9.9 fixes the zone of a floating value) - and is decisive only where they agree.
func RefMatchZ(f CompF, root Comp, qzone int) (V, error) {
	dateShift = 0
	v0, err := RefMatch(f, root)
	if err != nil || qzone == 0 {
		return v0, err
	}
	dateShift = int64(qzone)
	v1, err := RefMatch(f, root)
	dateShift = 0
	if err != nil {
		return v0, err
	}
	if v0 != v1 {
		return E, nil
	}
	return v0, nil
}

func RefMatch(f CompF, root Comp) (V, error) {
	if root.Name != f.Name {
		return fromBool(f.IND), nil
	}
	if f.IND {
		return F, nil
	}
	return evalOn(f, root)
}
