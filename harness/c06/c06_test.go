package c06

import (
	"bytes"
	"encoding/json"
	"fmt"
	"reflect"
	"strings"
	"testing"
	"time"

	"github.com/emersion/go-ical"
	"github.com/emersion/go-webdav/caldav"
	"github.com/emersion/go-webdav/verifharness/vev"
	"pgregory.net/rapid"
)

var rec = vev.For("C06")

func TestMain(m *testing.M) {
	rec.SetRule("(calendar object, filter tree) pairs: (a) every weak ordering of range start/end, DTSTART and DTEND on a 7-slot half-day grid for each of the five ways a VEVENT states its extent, with open start / open end; (b) complete small filter trees over 12 fixed objects; (c) rapid-generated calendars and filter trees; (d) recurring events DAILY/WEEKLY x INTERVAL x COUNT with instances computed arithmetically; (e) Filter over object lists. non-trivial = the verdict is not settled by the top-level name test and the reference verdict is decisive (not Either); distinct by canonical JSON of (objects, filter)")
	rec.Assume("query instants are given as time.Time values in UTC or in a fixed zone (same instants); event instants are UTC date-times or DATE values (no TZID: lookups depend on host tzdata)", "time-range filters are generated on VEVENT only", "is-not-defined excludes sibling elements (RFC DTD); text-match and time-range exclusive in one prop-filter", "Either verdicts (default collation case folding, escaped text, repeated properties/parameter values, property value == range start) never decide anything and are counted")
	vev.Main(m)
}

type Case struct {
	Mode     string `json:"mode"` // match | filter
	NilQuery bool   `json:"nil_query,omitempty"`
	Filter   CompF  `json:"filter"`
	Objects  []Comp `json:"objects"`
	// QZone: the query's instants are handed to the library as time.Time values in a fixed zone this many seconds
	// east of UTC (same instants, other Location - what a caller gets from time.Now() or from parsing local times)
	QZone int `json:"qzone,omitempty"`
}

var qloc = time.UTC

func ts(p *int64) time.Time {
	if p == nil {
		return time.Time{}
	}
	return time.Unix(*p, 0).In(qloc)
}

func toTM(tm *TextMatch) *caldav.TextMatch {
	if tm == nil {
		return nil
	}
	return &caldav.TextMatch{Text: tm.Text, NegateCondition: tm.Neg}
}

func toFilter(f CompF) caldav.CompFilter {
	out := caldav.CompFilter{Name: f.Name, IsNotDefined: f.IND, Start: ts(f.Start), End: ts(f.End)}
	for _, p := range f.Props {
		o := caldav.PropFilter{Name: p.Name, IsNotDefined: p.IND, Start: ts(p.Start), End: ts(p.End), TextMatch: toTM(p.TM)}
		for _, q := range p.Params {
			o.ParamFilter = append(o.ParamFilter, caldav.ParamFilter{Name: q.Name, IsNotDefined: q.IND, TextMatch: toTM(q.TM)})
		}
		out.Props = append(out.Props, o)
	}
	for _, c := range f.Comps {
		out.Comps = append(out.Comps, toFilter(c))
	}
	return out
}

func toComponent(c Comp) *ical.Component {
	out := ical.NewComponent(c.Name)
	for _, p := range c.Props {
		ip := ical.NewProp(p.Name)
		ip.Value = p.Value
		for _, kv := range p.Params {
			ip.Params.Add(kv[0], kv[1])
		}
		out.Props.Add(ip)
	}
	for _, ch := range c.Children {
		out.Children = append(out.Children, toComponent(ch))
	}
	return out
}

func toObject(c Comp, i int) caldav.CalendarObject {
	return caldav.CalendarObject{Path: fmt.Sprintf("/cal/%d.ics", i), ETag: fmt.Sprintf("e%d", i), ContentLength: int64(100 + i),
		ModTime: time.Date(2021, 1, 1, 0, 0, i, 0, time.UTC), Data: &ical.Calendar{Component: toComponent(c)}}
}

func dump(c *ical.Component) string {
	var b bytes.Buffer
	var walk func(c *ical.Component, ind string)
	walk = func(c *ical.Component, ind string) {
		fmt.Fprintf(&b, "%sBEGIN:%s\n", ind, c.Name)
		names := make([]string, 0, len(c.Props))
		for n := range c.Props {
			names = append(names, n)
		}
		sortStrings(names)
		for _, n := range names {
			for _, p := range c.Props[n] {
				fmt.Fprintf(&b, "%s %s;%v:%s\n", ind, p.Name, p.Params, p.Value)
			}
		}
		for _, ch := range c.Children {
			walk(ch, ind+" ")
		}
	}
	walk(c, "")
	return b.String()
}

func sortStrings(l []string) {
	for i := 1; i < len(l); i++ {
		for j := i; j > 0 && l[j] < l[j-1]; j-- {
			l[j], l[j-1] = l[j-1], l[j]
		}
	}
}

func mustJSON(v any) string {
	b, _ := json.Marshal(v)
	return string(b)
}

// classify the feature that decides a deviation, for signatures
func features(f CompF) string {
	var s []string
	add := func(x string) {
		for _, y := range s {
			if y == x {
				return
			}
		}
		s = append(s, x)
	}
	var walkC func(f CompF, top bool)
	walkC = func(f CompF, top bool) {
		if f.IND {
			if top {
				add("top-ind")
			} else {
				add("comp-ind")
			}
		}
		if f.Start != nil || f.End != nil {
			switch {
			case f.Start == nil:
				add("comp-range-open-start")
			case f.End == nil:
				add("comp-range-open-end")
			default:
				add("comp-range")
			}
		}
		for _, p := range f.Props {
			if p.IND {
				add("prop-ind")
			}
			if p.Start != nil || p.End != nil {
				if p.Start == nil {
					add("prop-range-open-start")
				} else {
					add("prop-range")
				}
			}
			if p.TM != nil {
				add("text")
			}
			for _, q := range p.Params {
				if q.IND {
					add("param-ind")
				} else {
					add("param")
				}
			}
		}
		for _, c := range f.Comps {
			walkC(c, false)
		}
	}
	walkC(f, true)
	sortStrings(s)
	return strings.Join(s, "+")
}

func hasRRule(c Comp) bool {
	if len(c.props("RRULE")) > 0 {
		return true
	}
	for _, ch := range c.Children {
		if hasRRule(ch) {
			return true
		}
	}
	return false
}

func objClass(objs []Comp) string {
	for _, o := range objs {
		if hasRRule(o) {
			return "recurring"
		}
	}
	return "plain"
}

func evaluate(c Case) (o vev.Outcome) {
	defer func() {
		if p := recover(); p != nil {
			o = vev.Outcome{Sig: vev.Sig("panic", c.Mode), Msg: fmt.Sprintf("panic: %v", p)}
		}
	}()
	qloc = time.UTC
	if c.QZone != 0 {
		qloc = time.FixedZone("", c.QZone)
	}
	filter := toFilter(c.Filter)
	filterCopy := toFilter(c.Filter)
	objs := make([]caldav.CalendarObject, len(c.Objects))
	before := make([]string, len(c.Objects))
	for i, ob := range c.Objects {
		objs[i] = toObject(ob, i)
		before[i] = dump(objs[i].Data.Component)
	}
	feat := features(c.Filter) + "/" + objClass(c.Objects)
	switch c.Mode {
	case "match":
		want, rerr := RefMatchZ(c.Filter, c.Objects[0], c.QZone)
		if rerr != nil {
			return vev.Outcome{Sig: "bad-case", Msg: "reference cannot evaluate: " + rerr.Error()}
		}
		got, err := caldav.Match(filter, &objs[0])
		if err != nil {
			return vev.Outcome{Sig: vev.Sig("match-error", feat), Msg: fmt.Sprintf("Match(%s) returned error %v", mustJSON(c), err)}
		}
		if want != E && got != (want == T) {
			return vev.Outcome{Sig: vev.Sig("match", feat, fmt.Sprintf("got=%v", got)), Msg: fmt.Sprintf("Match(%s) = %v, reference says %v", mustJSON(c), got, want)}
		}
	case "filter":
		var q *caldav.CalendarQuery
		if !c.NilQuery {
			q = &caldav.CalendarQuery{CompFilter: filter}
		}
		out, err := caldav.Filter(q, objs)
		if err != nil {
			return vev.Outcome{Sig: vev.Sig("filter-error", feat), Msg: fmt.Sprintf("Filter(%s) returned error %v", mustJSON(c), err)}
		}
		k := 0
		for i := range c.Objects {
			want := T
			if !c.NilQuery {
				var rerr error
				want, rerr = RefMatchZ(c.Filter, c.Objects[i], c.QZone)
				if rerr != nil {
					return vev.Outcome{Sig: "bad-case", Msg: "reference cannot evaluate: " + rerr.Error()}
				}
			}
			present := k < len(out) && out[k].Path == objs[i].Path
			switch {
			case want == T && !present:
				return vev.Outcome{Sig: vev.Sig("filter-missing", feat), Msg: fmt.Sprintf("Filter(%s): object %d must be selected (in input order) but result is %v", mustJSON(c), i, paths(out))}
			case want == F && present:
				return vev.Outcome{Sig: vev.Sig("filter-extra", feat), Msg: fmt.Sprintf("Filter(%s): object %d must not be selected but result is %v", mustJSON(c), i, paths(out))}
			}
			if present {
				if !reflect.DeepEqual(out[k], objs[i]) || dump(out[k].Data.Component) != before[i] {
					return vev.Outcome{Sig: vev.Sig("filter-modified-element"), Msg: fmt.Sprintf("Filter(%s): element %d differs from its input", mustJSON(c), i)}
				}
				k++
			}
		}
		if k != len(out) {
			return vev.Outcome{Sig: vev.Sig("filter-order-or-dup", feat), Msg: fmt.Sprintf("Filter(%s): result %v is not a subsequence of the input", mustJSON(c), paths(out))}
		}
	default:
		return vev.Outcome{Sig: "bad-case", Msg: "unknown mode"}
	}
	if !reflect.DeepEqual(filter, filterCopy) {
		return vev.Outcome{Sig: "filter-argument-modified", Msg: "the filter argument was modified by the call"}
	}
	for i := range objs {
		if dump(objs[i].Data.Component) != before[i] {
			return vev.Outcome{Sig: "object-argument-modified", Msg: "an input object was modified by the call"}
		}
	}
	return vev.Outcome{}
}

func paths(l []caldav.CalendarObject) []string {
	var p []string
	for _, o := range l {
		p = append(p, o.Path)
	}
	return p
}

func run(t *testing.T, rt *rapid.T, c Case, class string) {
	nontrivial := false
	either := false
	for _, ob := range c.Objects {
		if c.NilQuery {
			break
		}
		v, err := RefMatchZ(c.Filter, ob, c.QZone)
		if err != nil {
			if rt != nil {
				rt.Fatalf("generator produced a case the reference cannot evaluate: %v", err)
			}
			t.Fatalf("enumerator produced a case the reference cannot evaluate: %v (%s)", err, mustJSON(c))
		}
		if v == E {
			either = true
		} else if ob.Name == c.Filter.Name && !c.Filter.IND && (len(c.Filter.Comps) > 0 || len(c.Filter.Props) > 0) {
			nontrivial = true
		}
	}
	if either {
		rec.Count("either-verdicts", 1)
	}
	if c.Mode == "match" && !c.NilQuery {
		v, _ := RefMatchZ(c.Filter, c.Objects[0], c.QZone)
		rec.Count("verdict/"+strings.SplitN(class, "/", 2)[0]+"/"+v.String(), 1)
	}
	rec.Case(class, nontrivial, mustJSON(c), func() any { return c })
	o := evaluate(c)
	if o.OK() || rec.Known(o.Sig) {
		return
	}
	if rt != nil {
		rec.Fail(rt, o.Sig, "c06", c, "%s", o.Msg)
	} else {
		rec.Violation(t, o.Sig, "c06", c, "%s", o.Msg)
	}
}

func TestReplay(t *testing.T) {
	vev.RunReplays(t, rec, func(kind string, raw json.RawMessage) (vev.Outcome, error) {
		var c Case
		if err := json.Unmarshal(raw, &c); err != nil {
			return vev.Outcome{}, err
		}
		if len(c.Objects) == 0 && c.Mode == "match" {
			return vev.Outcome{}, fmt.Errorf("match case without object")
		}
		return evaluate(c), nil
	})
}

// ---------------------------------------------------------------------------
// helpers to build objects

var epoch = time.Date(2024, 3, 10, 0, 0, 0, 0, time.UTC).Unix()

const slot = 12 * 3600

func at(s int) int64     { return epoch + int64(s)*slot }
func p64(v int64) *int64 { return &v }

func dt(v int64) string   { return time.Unix(v, 0).UTC().Format("20060102T150405Z") }
func date(v int64) string { return time.Unix(v, 0).UTC().Format("20060102") }

func vcal(children ...Comp) Comp {
	return Comp{Name: "VCALENDAR", Props: []Prop{{Name: "VERSION", Value: "2.0"}, {Name: "PRODID", Value: "-//verif//EN"}}, Children: children}
}

func vevent(props ...Prop) Comp {
	return Comp{Name: "VEVENT", Props: append([]Prop{{Name: "UID", Value: "u1"}}, props...)}
}

// withTZ rewrites the UTC date-times of an event (DTSTART, DTEND, EXDATE) as local times with a TZID parameter that
// denote the same instants (added in round 6: events with a time zone reference are the common case in real calendars;
// the grid straddles the offset change of America/New_York on 2024-03-10)
func withTZ(c Comp, tz string) Comp {
	out := c
	out.Props = nil
	for _, p := range c.Props {
		if (p.Name == "DTSTART" || p.Name == "DTEND" || p.Name == "EXDATE") && len(p.Value) == 16 {
			if tt, err := time.Parse("20060102T150405Z", p.Value); err == nil {
				p = Prop{Name: p.Name, Value: tt.In(vev.Zone(tz)).Format("20060102T150405"), Params: append([][2]string{{"TZID", tz}}, p.Params...)}
			}
		}
		out.Props = append(out.Props, p)
	}
	return out
}

var eventZones = []string{"America/New_York", "Asia/Kolkata", "Australia/Lord_Howe", "Europe/Berlin", "Pacific/Apia"}

// (a) complete interval orderings
func TestEnumerateIntervals(t *testing.T) {
	if vev.ReplayFile() != "" {
		t.Skip()
	}
	const n = 7
	idx := 0
	type rng struct{ s, e *int64 }
	var ranges []rng
	for s := -1; s < n; s++ {
		for e := -1; e < n; e++ {
			if s == -1 && e == -1 {
				continue
			}
			if s >= 0 && e >= 0 && s >= e {
				continue
			}
			var r rng
			if s >= 0 {
				r.s = p64(at(s))
			}
			if e >= 0 {
				r.e = p64(at(e))
			}
			ranges = append(ranges, r)
		}
	}
	var events []struct {
		form string
		ev   Comp
	}
	add := func(form string, ev Comp) {
		events = append(events, struct {
			form string
			ev   Comp
		}{form, ev})
	}
	for d := 0; d < n; d++ {
		for de := d + 1; de < n; de++ {
			add("dtend", vevent(Prop{Name: "DTSTART", Value: dt(at(d))}, Prop{Name: "DTEND", Value: dt(at(de))}))
			add("duration", vevent(Prop{Name: "DTSTART", Value: dt(at(d))}, Prop{Name: "DURATION", Value: fmt.Sprintf("PT%dH", 12*(de-d))}))
			if d%2 == 0 && de%2 == 0 {
				add("dtend-date", vevent(Prop{Name: "DTSTART", Value: date(at(d)), Params: [][2]string{{"VALUE", "DATE"}}}, Prop{Name: "DTEND", Value: date(at(de)), Params: [][2]string{{"VALUE", "DATE"}}}))
			}
		}
		add("duration0", vevent(Prop{Name: "DTSTART", Value: dt(at(d))}, Prop{Name: "DURATION", Value: "PT0S"}))
		add("instant", vevent(Prop{Name: "DTSTART", Value: dt(at(d))}))
		if d%2 == 0 {
			add("allday", vevent(Prop{Name: "DTSTART", Value: date(at(d)), Params: [][2]string{{"VALUE", "DATE"}}}))
		}
	}
	for _, e := range events {
		for _, r := range ranges {
			idx++
			if !vev.MyShare(idx) {
				continue
			}
			f := CompF{Name: "VCALENDAR", Comps: []CompF{{Name: "VEVENT", Start: r.s, End: r.e}}}
			run(t, nil, Case{Mode: "match", Filter: f, Objects: []Comp{vcal(e.ev)}}, "a/"+e.form)
			run(t, nil, Case{Mode: "match", Filter: f, Objects: []Comp{vcal(e.ev)}, QZone: 19800}, "a/"+e.form+"/qzone")
			if e.form == "dtend" || e.form == "duration" || e.form == "duration0" || e.form == "instant" {
				tz := eventZones[idx%len(eventZones)]
				run(t, nil, Case{Mode: "match", Filter: f, Objects: []Comp{vcal(withTZ(e.ev, tz))}, QZone: []int{0, -28800}[idx%2]}, "a/"+e.form+"/tzid")
			}
			// the same range as a property time-range on DTSTART, alone and next to the component range, in two
			// zones: one filter must read a zone-less value one way (added after the thorough tier found
			// matchPropTimeRange reading open-start ranges in UTC)
			if e.form == "allday" || e.form == "instant" {
				pf := CompF{Name: "VCALENDAR", Comps: []CompF{{Name: "VEVENT", Props: []PropF{{Name: "DTSTART", Start: r.s, End: r.e}}}}}
				for _, r2 := range ranges[:len(ranges):len(ranges)] {
					if (idx+len(e.form))%5 != 0 && r2 != r {
						continue // a fifth of the pairs, and always the diagonal
					}
					both := CompF{Name: "VCALENDAR", Comps: []CompF{{Name: "VEVENT", Start: r2.s, End: r2.e, Props: []PropF{{Name: "DTSTART", Start: r.s, End: r.e}}}}}
					for _, z := range []int{0, -28800, 19800} {
						run(t, nil, Case{Mode: "match", Filter: both, Objects: []Comp{vcal(e.ev)}, QZone: z}, "a2/"+e.form+"/comp+prop-range")
					}
				}
				for _, z := range []int{0, -28800, 19800} {
					run(t, nil, Case{Mode: "match", Filter: pf, Objects: []Comp{vcal(e.ev)}, QZone: z}, "a2/"+e.form+"/prop-range")
				}
			}
		}
	}
	rec.ExhaustiveSub("every ordering (equalities included) of range start, range end, DTSTART and the event end on a 7-slot half-day grid, for DTEND / DURATION>0 / DURATION=0 / instant / all-day / DATE-valued DTEND events, with open start and open end")
}

// (b) complete small filter trees against 12 fixed objects
func fixedObjects() []Comp {
	s := func(v string) Prop { return Prop{Name: "SUMMARY", Value: v} }
	xa := func(v string) Prop { return Prop{Name: "X-A", Value: v} }
	start := Prop{Name: "DTSTART", Value: dt(at(2))}
	att := func(ps string) Prop {
		return Prop{Name: "ATTENDEE", Value: "mailto:x@example.org", Params: [][2]string{{"PARTSTAT", ps}}}
	}
	alarm := func(a string) Comp { return Comp{Name: "VALARM", Props: []Prop{{Name: "ACTION", Value: a}}} }
	todo := func(ps ...Prop) Comp { return Comp{Name: "VTODO", Props: ps} }
	ev8 := vevent(start, s("a"))
	ev8.Children = []Comp{alarm("DISPLAY")}
	ev12 := vevent(start, s("a"), xa("b"))
	ev12.Children = []Comp{alarm("AUDIO"), alarm("DISPLAY")}
	return []Comp{
		vcal(),
		vcal(vevent(start, s("a"))),
		vcal(vevent(start, s("b"))),
		vcal(vevent(start, s("ab"), xa("a"))),
		vcal(todo(s("a"))),
		vcal(vevent(start, s("b")), todo(s("a"))),
		vcal(vevent(start, s("b")), vevent(start, s("a"))),
		vcal(ev8),
		vcal(vevent(start, s("a"), att("ACCEPTED"))),
		vcal(vevent(start, att("DECLINED"), att("ACCEPTED"))),
		vcal(vevent(start, s("A"))),
		vcal(Comp{Name: "VTIMEZONE", Props: []Prop{{Name: "TZID", Value: "x"}}}, ev12),
	}
}

func TestEnumerateTrees(t *testing.T) {
	if vev.ReplayFile() != "" {
		t.Skip()
	}
	tm := func(s string, neg bool) *TextMatch { return &TextMatch{Text: s, Neg: neg} }
	var leafProps []PropF
	for _, name := range []string{"SUMMARY", "X-A", "ATTENDEE"} {
		leafProps = append(leafProps,
			PropF{Name: name}, PropF{Name: name, IND: true},
			PropF{Name: name, TM: tm("a", false)}, PropF{Name: name, TM: tm("a", true)}, PropF{Name: name, TM: tm("", false)},
			PropF{Name: name, Params: []ParamF{{Name: "PARTSTAT"}}}, PropF{Name: name, Params: []ParamF{{Name: "PARTSTAT", IND: true}}},
			PropF{Name: name, Params: []ParamF{{Name: "PARTSTAT", TM: tm("ACC", false)}}}, PropF{Name: name, Params: []ParamF{{Name: "PARTSTAT", TM: tm("ACC", true)}}},
		)
	}
	var nodes []CompF
	for _, name := range []string{"VEVENT", "VTODO"} {
		nodes = append(nodes, CompF{Name: name}, CompF{Name: name, IND: true})
		for _, lp := range leafProps {
			nodes = append(nodes, CompF{Name: name, Props: []PropF{lp}})
		}
		nodes = append(nodes,
			CompF{Name: name, Comps: []CompF{{Name: "VALARM"}}},
			CompF{Name: name, Comps: []CompF{{Name: "VALARM", IND: true}}},
			CompF{Name: name, Comps: []CompF{{Name: "VALARM", Props: []PropF{{Name: "ACTION", TM: tm("AUDIO", false)}}}}},
			CompF{Name: name, Comps: []CompF{{Name: "VALARM", Props: []PropF{{Name: "ACTION", TM: tm("DISPLAY", true)}}}}},
			CompF{Name: name, Props: []PropF{{Name: "SUMMARY", TM: tm("a", false)}, {Name: "X-A", IND: true}}},
			CompF{Name: name, Props: []PropF{{Name: "SUMMARY", TM: tm("b", true)}, {Name: "X-A"}}},
		)
	}
	objs := fixedObjects()
	idx := 0
	try := func(f CompF) {
		for oi, ob := range objs {
			idx++
			if !vev.MyShare(idx) {
				continue
			}
			run(t, nil, Case{Mode: "match", Filter: f, Objects: []Comp{ob}}, fmt.Sprintf("b/obj%02d", oi))
		}
	}
	for _, topName := range []string{"VCALENDAR", "VEVENT"} {
		for _, topIND := range []bool{false, true} {
			try(CompF{Name: topName, IND: topIND})
		}
	}
	for _, a := range nodes {
		try(CompF{Name: "VCALENDAR", Comps: []CompF{a}})
	}
	full := vev.Thorough()
	for i, a := range nodes {
		for j, b := range nodes {
			if !full && (i*31+j*17+vev.SeedValue())%6 != 0 {
				continue // quick tier: a fixed-seed sixth of the pairs
			}
			try(CompF{Name: "VCALENDAR", Comps: []CompF{a, b}})
		}
	}
	// calendar-level property filters
	for _, lp := range []PropF{{Name: "VERSION"}, {Name: "VERSION", IND: true}, {Name: "METHOD", IND: true}, {Name: "METHOD"}, {Name: "PRODID", TM: tm("verif", false)}, {Name: "PRODID", TM: tm("verif", true)}} {
		try(CompF{Name: "VCALENDAR", Props: []PropF{lp}})
		try(CompF{Name: "VCALENDAR", Props: []PropF{lp}, Comps: []CompF{{Name: "VEVENT"}}})
	}
	if full {
		rec.ExhaustiveSub("all filter trees VCALENDAR[c1] and VCALENDAR[c1,c2] with c over 70 one- and two-level comp-filters (is-not-defined, prop-filter exists/absent/text/negated/param-filter, nested VALARM filters) against 12 fixed objects")
	}
}

// (d) recurring family, complete over a small product
func TestEnumerateRecurring(t *testing.T) {
	if vev.ReplayFile() != "" {
		t.Skip()
	}
	idx := 0
	day := int64(86400)
	for _, freq := range []string{"DAILY", "WEEKLY"} {
		step := day
		if freq == "WEEKLY" {
			step = 7 * day
		}
		for interval := int64(1); interval <= 2; interval++ {
			for count := int64(1); count <= 3; count++ {
				for _, form := range []string{"dtend", "duration", "instant", "allday"} {
					d0 := epoch + 10*3600
					props := []Prop{{Name: "RRULE", Value: fmt.Sprintf("FREQ=%s;INTERVAL=%d;COUNT=%d", freq, interval, count)}}
					length := int64(2 * 3600)
					switch form {
					case "dtend":
						props = append(props, Prop{Name: "DTSTART", Value: dt(d0)}, Prop{Name: "DTEND", Value: dt(d0 + length)})
					case "duration":
						props = append(props, Prop{Name: "DTSTART", Value: dt(d0)}, Prop{Name: "DURATION", Value: "PT2H"})
					case "instant":
						length = 0
						props = append(props, Prop{Name: "DTSTART", Value: dt(d0)})
					case "allday":
						d0 = epoch
						length = day
						props = append(props, Prop{Name: "DTSTART", Value: date(d0), Params: [][2]string{{"VALUE", "DATE"}}})
					}
					evs := []Comp{vevent(props...)}
					// the same series with its first, or its last, occurrence taken out again (EXDATE): DTSTART itself
					// is then no instance (added after seeded change C06-s9)
					for _, k := range []int64{0, count - 1} {
						exv := dt(d0 + k*interval*step)
						exp := Prop{Name: "EXDATE", Value: exv}
						if form == "allday" {
							exp = Prop{Name: "EXDATE", Value: date(d0 + k*interval*step), Params: [][2]string{{"VALUE", "DATE"}}}
						}
						evs = append(evs, vevent(append(append([]Prop{}, props...), exp)...))
						if count == 1 {
							break
						}
					}
					if form != "allday" && interval == 1 {
						// the same series with its times given in a zone without offset changes (the reference computes
						// instances by adding seconds, which is only right where local days all have 24 hours)
						evs = append(evs, withTZ(evs[0], "Asia/Kolkata"))
					}
					for evi, ev := range evs {
						if evi > 0 && (interval == 2 || form == "duration") && len(ev.Props) > 0 && !strings.Contains(mustJSON(ev), "TZID") {
							continue // the EXDATE variants on half of the family keep the quick tier's size in check
						}
						// interesting instants: around every instance boundary
						var pts []int64
						for k := int64(0); k < count; k++ {
							s := d0 + k*interval*step
							for _, x := range []int64{s - 3600, s, s + 1, s + length - 1, s + length, s + length + 3600} {
								pts = append(pts, x)
							}
						}
						pts = append(pts, d0-30*day, d0+60*day)
						for i, a := range pts {
							for j, b := range pts {
								if i != j && a >= b {
									continue
								}
								var r [2]*int64
								switch {
								case i == j && i%2 == 0:
									r = [2]*int64{p64(a), nil}
								case i == j:
									r = [2]*int64{nil, p64(a)}
								default:
									r = [2]*int64{p64(a), p64(b)}
								}
								idx++
								if !vev.MyShare(idx) {
									continue
								}
								f := CompF{Name: "VCALENDAR", Comps: []CompF{{Name: "VEVENT", Start: r[0], End: r[1]}}}
								cls := "d/" + form
								if evi > 0 {
									cls += "/exdate"
								}
								run(t, nil, Case{Mode: "match", Filter: f, Objects: []Comp{vcal(ev)}}, cls)
								run(t, nil, Case{Mode: "match", Filter: f, Objects: []Comp{vcal(ev)}, QZone: -28800}, "d/"+form+"/qzone")
							}
						}
					}
				}
			}
		}
	}
	rec.ExhaustiveSub("recurring VEVENTs FREQ{DAILY,WEEKLY} x INTERVAL{1,2} x COUNT{1,2,3} x {DTEND,DURATION,instant,all-day}, half of them also with the first or the last occurrence taken out by EXDATE; ranges between all pairs of instants placed just before/on/inside/at the end of/after every instance, plus open-start and open-end ranges")
}

// (c)+(e) random
var (
	compNames  = []string{"VEVENT", "VTODO", "VJOURNAL", "VALARM"}
	propNames  = []string{"SUMMARY", "DESCRIPTION", "X-A", "ATTENDEE", "CATEGORIES"}
	paramNames = []string{"PARTSTAT", "X-P", "CN"}
)

func genText() *rapid.Generator[string] {
	return rapid.OneOf(rapid.SampledFrom([]string{"", "a", "ab", "b", "A", "meeting", "Meet", "x y", "é"}), rapid.StringMatching(`[abAB ]{0,4}`), rapid.SampledFrom([]string{`a\,b`, `a\nb`, "a,b", "a;b"}))
}

func genProp(name string) *rapid.Generator[Prop] {
	return rapid.Custom(func(rt *rapid.T) Prop {
		p := Prop{Name: name, Value: genText().Draw(rt, "value")}
		n := rapid.IntRange(0, 2).Draw(rt, "nparams")
		for i := 0; i < n; i++ {
			p.Params = append(p.Params, [2]string{rapid.SampledFrom(paramNames).Draw(rt, "pname"), rapid.SampledFrom([]string{"a", "ACCEPTED", "DECLINED", "ab", "x"}).Draw(rt, "pval")})
		}
		return p
	})
}

func genEventTimes(rt *rapid.T) []Prop {
	d := rapid.IntRange(0, 12).Draw(rt, "dslot")
	switch rapid.IntRange(0, 5).Draw(rt, "form") {
	case 0:
		return []Prop{{Name: "DTSTART", Value: dt(at(d))}, {Name: "DTEND", Value: dt(at(d + rapid.IntRange(1, 4).Draw(rt, "len")))}}
	case 1:
		return []Prop{{Name: "DTSTART", Value: dt(at(d))}, {Name: "DURATION", Value: fmt.Sprintf("PT%dH", 12*rapid.IntRange(1, 4).Draw(rt, "len"))}}
	case 2:
		return []Prop{{Name: "DTSTART", Value: dt(at(d))}, {Name: "DURATION", Value: "PT0S"}}
	case 3:
		return []Prop{{Name: "DTSTART", Value: dt(at(d))}}
	case 4:
		return []Prop{{Name: "DTSTART", Value: date(at(d - d%2)), Params: [][2]string{{"VALUE", "DATE"}}}}
	default:
		ps := []Prop{{Name: "DTSTART", Value: dt(at(d))}, {Name: "DTEND", Value: dt(at(d) + 3600)},
			{Name: "RRULE", Value: fmt.Sprintf("FREQ=%s;INTERVAL=%d;COUNT=%d", rapid.SampledFrom([]string{"DAILY", "WEEKLY"}).Draw(rt, "freq"), rapid.IntRange(1, 3).Draw(rt, "interval"), rapid.IntRange(1, 6).Draw(rt, "count"))}}
		return ps
	}
}

func genComp(depth int) *rapid.Generator[Comp] {
	return rapid.Custom(func(rt *rapid.T) Comp {
		c := Comp{Name: rapid.SampledFrom(compNames).Draw(rt, "cname")}
		if depth > 0 {
			c.Name = "VALARM"
		}
		if c.Name == "VEVENT" {
			c.Props = append(c.Props, genEventTimes(rt)...)
			if len(c.Props) > 0 && len(c.Props[len(c.Props)-1].Value) > 0 && !hasRRule(c) && rapid.IntRange(0, 3).Draw(rt, "tzid") == 0 {
				c = withTZ(c, rapid.SampledFrom(eventZones).Draw(rt, "evzone"))
			}
		}
		n := rapid.IntRange(0, 4).Draw(rt, "nprops")
		for i := 0; i < n; i++ {
			c.Props = append(c.Props, genProp(rapid.SampledFrom(propNames).Draw(rt, "pname")).Draw(rt, "prop"))
		}
		if depth == 0 && c.Name != "VALARM" {
			k := rapid.IntRange(0, 2).Draw(rt, "nalarms")
			for i := 0; i < k; i++ {
				c.Children = append(c.Children, genComp(1).Draw(rt, "alarm"))
			}
		}
		return c
	})
}

func genObject() *rapid.Generator[Comp] {
	return rapid.Custom(func(rt *rapid.T) Comp {
		return vcal(rapid.SliceOfN(genComp(0), 0, 4).Draw(rt, "children")...)
	})
}

func genTM() *rapid.Generator[*TextMatch] {
	return rapid.Custom(func(rt *rapid.T) *TextMatch {
		return &TextMatch{Text: genText().Draw(rt, "tmtext"), Neg: rapid.Bool().Draw(rt, "neg")}
	})
}

func genRange(rt *rapid.T) (s, e *int64) {
	a := rapid.IntRange(-1, 16).Draw(rt, "rs")
	b := rapid.IntRange(1, 6).Draw(rt, "rlen")
	off := int64(rapid.SampledFrom([]int{0, 0, 0, 1, -1, 3600}).Draw(rt, "roff"))
	switch rapid.IntRange(0, 5).Draw(rt, "rkind") {
	case 0:
		return p64(at(a) + off), nil
	case 1:
		return nil, p64(at(a) + off)
	default:
		return p64(at(a) + off), p64(at(a+b) + off)
	}
}

func genPropF() *rapid.Generator[PropF] {
	return rapid.Custom(func(rt *rapid.T) PropF {
		f := PropF{Name: rapid.SampledFrom(propNames).Draw(rt, "pfname")}
		switch rapid.IntRange(0, 6).Draw(rt, "pfkind") {
		case 0:
			f.IND = true
			return f
		case 1:
		case 2:
			// time range on a date-time valued property
			f.Name = rapid.SampledFrom([]string{"DTSTART", "DTEND"}).Draw(rt, "dtname")
			f.Start, f.End = genRange(rt)
		default:
			f.TM = genTM().Draw(rt, "tm")
		}
		n := rapid.IntRange(0, 4).Draw(rt, "npf")
		if n > 2 {
			n = 0
		}
		for i := 0; i < n; i++ {
			q := ParamF{Name: rapid.SampledFrom(paramNames).Draw(rt, "qname")}
			switch rapid.IntRange(0, 2).Draw(rt, "qkind") {
			case 0:
				q.IND = true
			case 1:
				q.TM = genTM().Draw(rt, "qtm")
			}
			f.Params = append(f.Params, q)
		}
		return f
	})
}

func genCompF(depth int) *rapid.Generator[CompF] {
	return rapid.Custom(func(rt *rapid.T) CompF {
		f := CompF{Name: rapid.SampledFrom(compNames).Draw(rt, "cfname")}
		if depth >= 2 {
			f.Name = "VALARM"
		}
		if rapid.IntRange(0, 5).Draw(rt, "cfind") == 0 {
			f.IND = true
			return f
		}
		if f.Name == "VEVENT" && rapid.IntRange(0, 2).Draw(rt, "cfrange") == 0 {
			f.Start, f.End = genRange(rt)
		}
		f.Props = rapid.SliceOfN(genPropF(), 0, 2).Draw(rt, "cfprops")
		if depth < 2 {
			f.Comps = rapid.SliceOfN(genCompF(depth+1), 0, 2).Draw(rt, "cfcomps")
		}
		return f
	})
}

func genTop() *rapid.Generator[CompF] {
	return rapid.Custom(func(rt *rapid.T) CompF {
		f := CompF{Name: "VCALENDAR"}
		switch rapid.IntRange(0, 19).Draw(rt, "topkind") {
		case 0:
			f.Name = "VEVENT"
		case 1:
			f.IND = true
			return f
		}
		f.Comps = rapid.SliceOfN(genCompF(1), 0, 3).Draw(rt, "topcomps")
		if rapid.IntRange(0, 4).Draw(rt, "topprops") == 0 {
			f.Props = []PropF{{Name: rapid.SampledFrom([]string{"VERSION", "METHOD", "PRODID"}).Draw(rt, "tpn"), IND: rapid.Bool().Draw(rt, "tpind")}}
		}
		return f
	})
}

// derivedFilter builds a filter from the object itself so that deep matches
// (and near misses) are common.
func derivedFilter(rt *rapid.T, ob Comp) CompF {
	top := CompF{Name: "VCALENDAR"}
	if len(ob.Children) == 0 {
		return top
	}
	ch := ob.Children[rapid.IntRange(0, len(ob.Children)-1).Draw(rt, "dchild")]
	f := CompF{Name: ch.Name}
	for _, p := range ch.Props {
		if p.Name == "UID" || p.Name == "RRULE" || p.Name == "DURATION" || rapid.IntRange(0, 2).Draw(rt, "duse") != 0 {
			continue
		}
		pf := PropF{Name: p.Name}
		if p.Name == "DTSTART" || p.Name == "DTEND" {
			if t0, _, err := parseInstant(p); err == nil {
				off := int64(rapid.SampledFrom([]int{-slot, -1, 0, 1, slot}).Draw(rt, "doff"))
				switch rapid.IntRange(0, 2).Draw(rt, "dkind") {
				case 0:
					pf.Start, pf.End = p64(t0+off), p64(t0+off+slot)
				case 1:
					pf.End = p64(t0 + off)
				default:
					pf.Start = p64(t0 + off)
				}
			}
		} else {
			switch rapid.IntRange(0, 3).Draw(rt, "dpk") {
			case 0:
			case 1:
				pf.IND = true
			default:
				a := rapid.IntRange(0, len(p.Value)).Draw(rt, "da")
				b := rapid.IntRange(a, len(p.Value)).Draw(rt, "db")
				pf.TM = &TextMatch{Text: p.Value[a:b], Neg: rapid.IntRange(0, 3).Draw(rt, "dneg") == 0}
			}
			if !pf.IND && len(p.Params) > 0 && rapid.Bool().Draw(rt, "dparam") {
				kv := p.Params[0]
				pf.Params = []ParamF{{Name: kv[0], TM: &TextMatch{Text: kv[1][:rapid.IntRange(0, len(kv[1])).Draw(rt, "dpl")]}}}
			}
		}
		f.Props = append(f.Props, pf)
	}
	if ch.Name == "VEVENT" && rapid.Bool().Draw(rt, "drange") {
		if ds := ch.props("DTSTART"); len(ds) == 1 {
			if t0, _, err := parseInstant(ds[0]); err == nil {
				off := int64(rapid.SampledFrom([]int{-2 * slot, -slot, -1, 0, 1, slot, 2 * slot, 14 * slot}).Draw(rt, "droff"))
				switch rapid.IntRange(0, 3).Draw(rt, "drk") {
				case 0:
					f.Start = p64(t0 + off)
				case 1:
					f.End = p64(t0 + off)
				default:
					f.Start, f.End = p64(t0+off), p64(t0+off+int64(rapid.SampledFrom([]int{1, slot, 3 * slot}).Draw(rt, "drl")))
				}
			}
		}
	}
	for _, g := range ch.Children {
		if rapid.Bool().Draw(rt, "dnest") {
			nf := CompF{Name: g.Name}
			if len(g.Props) > 0 && rapid.Bool().Draw(rt, "dnp") {
				nf.Props = []PropF{{Name: g.Props[0].Name, TM: &TextMatch{Text: g.Props[0].Value}}}
			}
			f.Comps = append(f.Comps, nf)
			break
		}
	}
	top.Comps = []CompF{f}
	if rapid.IntRange(0, 3).Draw(rt, "dextra") == 0 {
		top.Comps = append(top.Comps, genCompF(1).Draw(rt, "dextraf"))
	}
	return top
}

func TestRandom(t *testing.T) {
	if vev.ReplayFile() != "" {
		t.Skip()
	}
	vev.Rapid(t, rec, 0, vev.N(6000, 600000), func(rt *rapid.T) {
		if rapid.Bool().Draw(rt, "derived") {
			ob := genObject().Draw(rt, "object")
			c := Case{Mode: "match", Filter: derivedFilter(rt, ob), Objects: []Comp{ob}}
			if rapid.IntRange(0, 3).Draw(rt, "dmode") == 0 {
				c.Mode = "filter"
				c.Objects = append(rapid.SliceOfN(genObject(), 0, 2).Draw(rt, "pre"), ob)
				c.Objects = append(c.Objects, rapid.SliceOfN(genObject(), 0, 2).Draw(rt, "post")...)
			}
			c.QZone = rapid.SampledFrom([]int{0, 0, 19800, -28800, 3600}).Draw(rt, "qzone")
			run(t, rt, c, "c-derived/"+c.Mode+"/"+objClass(c.Objects))
			return
		}
		c := Case{Mode: "match", Filter: genTop().Draw(rt, "filter")}
		if rapid.IntRange(0, 3).Draw(rt, "mode") == 0 {
			c.Mode = "filter"
			c.Objects = rapid.SliceOfN(genObject(), 0, 5).Draw(rt, "objects")
			c.NilQuery = rapid.IntRange(0, 9).Draw(rt, "nilq") == 0
		} else {
			c.Objects = []Comp{genObject().Draw(rt, "object")}
		}
		c.QZone = rapid.SampledFrom([]int{0, 0, 19800, -28800, 3600}).Draw(rt, "qzone")
		run(t, rt, c, "c/"+c.Mode+"/"+objClass(c.Objects))
	})
}
