package c06

import (
	"testing"

	"github.com/emersion/go-webdav/verifharness/vev"
)

// Deep nesting (after C06-s13): RFC 4791 puts no bound on the nesting of comp-filter elements and iCalendar none on
// the nesting of components (RFC 9073 has VCALENDAR > VEVENT > PARTICIPANT > VLOCATION).  Complete family: an
// object that is a chain of 1-6 components below VCALENDAR (with a sibling at every level), against a filter chain of
// 1-7 levels that follows the chain or leaves it at one level, ending in {defined, is-not-defined, property present,
// property absent, text match}.
func TestDeepNesting(t *testing.T) {
	if vev.ReplayFile() != "" {
		t.Skip()
	}
	names := []string{"VEVENT", "PARTICIPANT", "VLOCATION", "X-L4", "X-L5", "X-L6", "X-L7"}
	chain := func(d int) Comp { // VCALENDAR > names[0] > ... > names[d-1]
		var build func(i int) Comp
		build = func(i int) Comp {
			c := Comp{Name: names[i], Props: []Prop{{Name: "UID", Value: "u1"}, {Name: "X-LEVEL", Value: names[i]}}}
			if i == 0 {
				c.Props = append(c.Props, Prop{Name: "DTSTART", Value: dt(at(2))})
			}
			if i+1 < d {
				c.Children = []Comp{{Name: "X-SIBLING", Props: []Prop{{Name: "X-LEVEL", Value: "s"}}}, build(i + 1)}
			}
			return c
		}
		return vcal(build(0))
	}
	idx := 0
	for d := 1; d <= 6; d++ {
		obj := chain(d)
		for f := 1; f <= 7; f++ {
			for leave := -1; leave < f; leave++ { // the level at which the filter names something else (-1: nowhere)
				for tail := 0; tail < 5; tail++ {
					idx++
					if !vev.MyShare(idx) {
						continue
					}
					var build func(i int) CompF
					build = func(i int) CompF {
						cf := CompF{Name: names[i]}
						if i == leave {
							cf.Name = "X-OTHER"
						}
						if i+1 < f {
							cf.Comps = []CompF{build(i + 1)}
							return cf
						}
						switch tail {
						case 1:
							cf.IND = true
						case 2:
							cf.Props = []PropF{{Name: "X-LEVEL"}}
						case 3:
							cf.Props = []PropF{{Name: "X-ABSENT"}}
						case 4:
							cf.Props = []PropF{{Name: "X-LEVEL", TM: &TextMatch{Text: names[i]}}}
						}
						return cf
					}
					c := Case{Mode: "match", Filter: CompF{Name: "VCALENDAR", Comps: []CompF{build(0)}}, Objects: []Comp{obj}}
					run(t, nil, c, "deep-nesting")
					c.Mode = "filter"
					c.Objects = []Comp{chain(1), obj, chain(6)}
					run(t, nil, c, "deep-nesting")
				}
			}
		}
	}
	rec.ExhaustiveSub("component chains of 1-6 levels below VCALENDAR x comp-filter chains of 1-7 levels that follow the chain or leave it at any one level x 5 endings (defined, is-not-defined, property present/absent, text match)")
}
