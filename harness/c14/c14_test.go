// C14 — clients survive any response and report failures with their status.
package c14

import (
	"sync"
	"bytes"
	"context"
	"encoding/json"
	"errors"
	"fmt"
	"io"
	"net/http"
	"sort"
	"strings"
	"testing"
	"time"

	"github.com/emersion/go-ical"
	"github.com/emersion/go-vcard"
	webdav "github.com/emersion/go-webdav"
	"github.com/emersion/go-webdav/caldav"
	"github.com/emersion/go-webdav/carddav"
	"github.com/emersion/go-webdav/internal"
	"github.com/emersion/go-webdav/verifharness/vdav"
	"github.com/emersion/go-webdav/verifharness/vev"
	"github.com/emersion/go-webdav/verifharness/vx"
	"pgregory.net/rapid"
)

var rec = vev.For("C14")

func TestMain(m *testing.M) {
	rec.SetRule("every public method of webdav.Client, caldav.Client and carddav.Client against a scripted fake HTTP client: status 100-599 x content type {xml,text,none,other} x body {conformant multi-status for the method with per-response and per-propstat statuses placed on generated positions (200, other 2xx, 404, 403, 423, 5xx, missing), the same truncated at a generated offset, DAV:error documents with condition elements, oversized text, deep nesting, random bytes} x header variants. Three-valued oracle: MUST-fail (status not 2xx -> error carrying the status and any DAV:error conditions; 2xx but not 207 where a multi-status is required; truncated document; a consumed response or a required property with a non-success status; an optional property with a failure status other than 404) / MUST-succeed (conformant document, every status success) / don't-care; never a panic or a hang; a 404 member of a sync-collection answer is a deletion, never an update; a property under 404 is never returned as data. non-trivial = non-2xx with a body, or a 207 whose document has a non-success status or was cut; distinct by canonical JSON")
	rec.Assume("the fake HTTP client drains and closes request bodies and sets Response.Request like every real transport", "a propstat status of 2xx other than 200 is don't-care", "mutated but still well-formed documents are only checked for 'no panic, returns'")
	vev.Main(m)
}

// ---------------------------------------------------------------------------
// scripted transport

type script struct {
	Status int         `json:"status"`
	CT     string      `json:"ct,omitempty"`
	Body   vev.B       `json:"body,omitempty"`
	Hdr    [][2]string `json:"hdr,omitempty"`
	// BodyFail: reading the response body delivers this many bytes and then fails (a connection that breaks in the
	// middle of a response whose head has arrived) - after C14-s13
	BodyFail *int   `json:"body_fail,omitempty"`
	BodyErr  string `json:"body_err,omitempty"` // unexpected-eof | reset
	// NoLength: the response announces no length (chunked or close-delimited: net/http reports ContentLength -1) -
	// after C14-s14
	NoLength bool `json:"no_length,omitempty"`
	// Endless: after the scripted bytes the body goes on without end (blanks, which neither a text excerpt nor an XML
	// document is changed by) until it is closed - a server that keeps sending after an error (after C14-s17). Only
	// scripted with non-2xx statuses, where the client has all it needs after the excerpt or the DAV:error document.
	// A client that has taken endlessCap further bytes is counted as one that never returns.
	Endless bool `json:"endless,omitempty"`
}

const endlessCap = 64 << 20

type endlessBody struct {
	data     []byte
	extra    int64
	closed   bool
	overread *bool
}

func (b *endlessBody) Read(p []byte) (int, error) {
	if b.closed {
		return 0, fmt.Errorf("http: read on closed response body")
	}
	if len(b.data) > 0 {
		n := copy(p, b.data)
		b.data = b.data[n:]
		return n, nil
	}
	if b.extra >= endlessCap {
		*b.overread = true
		return 0, fmt.Errorf("harness: %d bytes past the scripted body were read, giving up", b.extra)
	}
	for i := range p {
		p[i] = ' '
	}
	b.extra += int64(len(p))
	return len(p), nil
}
func (b *endlessBody) Close() error { b.closed = true; return nil }

type brokenBody struct {
	data []byte
	err  error
}

func (b *brokenBody) Read(p []byte) (int, error) {
	if len(b.data) == 0 {
		return 0, b.err
	}
	n := copy(p, b.data)
	b.data = b.data[n:]
	return n, nil
}
func (b *brokenBody) Close() error { return nil }

type fake struct {
	s        script
	overread bool
}

func (f *fake) Do(req *http.Request) (*http.Response, error) {
	if req.Body != nil {
		io.Copy(io.Discard, req.Body)
		req.Body.Close()
	}
	h := http.Header{}
	if f.s.CT != "" {
		h.Set("Content-Type", f.s.CT)
	}
	for _, kv := range f.s.Hdr {
		h.Add(kv[0], kv[1])
	}
	b := []byte(f.s.Body)
	cl := int64(len(b))
	if f.s.NoLength {
		cl = -1
	}
	if f.s.Endless {
		return &http.Response{StatusCode: f.s.Status, Status: fmt.Sprintf("%d %s", f.s.Status, http.StatusText(f.s.Status)), Proto: "HTTP/1.1", ProtoMajor: 1, ProtoMinor: 1,
			Header: h, Body: &endlessBody{data: b, overread: &f.overread}, ContentLength: -1, Request: req}, nil
	}
	if k := f.s.BodyFail; k != nil && *k < len(b) {
		err := io.ErrUnexpectedEOF
		if f.s.BodyErr == "reset" {
			err = fmt.Errorf("read tcp 192.0.2.1:443: connection reset by peer")
		}
		return &http.Response{StatusCode: f.s.Status, Status: fmt.Sprintf("%d %s", f.s.Status, http.StatusText(f.s.Status)), Proto: "HTTP/1.1", ProtoMajor: 1, ProtoMinor: 1,
			Header: h, Body: &brokenBody{data: b[:*k], err: err}, ContentLength: cl, Request: req}, nil
	}
	return &http.Response{StatusCode: f.s.Status, Status: fmt.Sprintf("%d %s", f.s.Status, http.StatusText(f.s.Status)), Proto: "HTTP/1.1", ProtoMajor: 1, ProtoMinor: 1,
		Header: h, Body: io.NopCloser(bytes.NewReader(b)), ContentLength: cl, Request: req}, nil
}

// ---------------------------------------------------------------------------
// documents

type PropSpec struct {
	Name   string `json:"name"`             // key into propBuilders
	Status int    `json:"status"`           // propstat status; 0 = status element missing
	Absent bool   `json:"absent,omitempty"` // property not present at all
	// Payload > 0 replaces the content of calendar-data / address-data by hostilePayloads[Payload-1]
	Payload int `json:"payload,omitempty"`
}

// content lines on which iCalendar/vCard decoders are known to stumble: a line ending inside a parameter, an
// unterminated quoted parameter, stray separators, a dangling fold, nothing at all
var hostilePayloads = []string{"A;B=", "A;B=\"c", "A;B=c,", "A;", ";", ":", "BEGIN:VCALENDAR\r\nA;B=", "BEGIN:VCARD\r\nVERSION:4.0\r\nFN;X=\"", " folded", "", "BEGIN:VCALENDAR\r\nBEGIN:VEVENT\r\nUID;A=b,", "\x00", "BEGIN:VCALENDAR", "END:VCALENDAR"}

var markerPrefix = map[string]string{"displayname": "display-value", "calendar-description": "cal-description-value", "addressbook-description": "card-description-value", "getetag": "tag-value", "getcontenttype": "text/x-marker"}

func upstreamAccepts(name, text string) (ok bool) {
	defer func() {
		if recover() != nil {
			ok = false
		}
	}()
	if name == "calendar-data" {
		_, err := ical.NewDecoder(strings.NewReader(text)).Decode()
		return err == nil
	}
	_, err := vcard.NewDecoder(strings.NewReader(text)).Decode()
	return err == nil
}

type RespSpec struct {
	Status int        `json:"status,omitempty"` // response-level status (0 = propstat form)
	Props  []PropSpec `json:"props,omitempty"`
	Coll   bool       `json:"coll,omitempty"`
	// Href: "" = one member href; "none" = no href element; "two" = two hrefs (RFC 4918 allows that with a
	// response-level status only); "self" = the href of the collection the call was addressed to
	Href string `json:"href,omitempty"`
}

type Doc struct {
	Resps []RespSpec `json:"resps"`
	Cut   int        `json:"cut,omitempty"` // >0: keep only this many bytes
	Token string     `json:"token,omitempty"`
	Self  string     `json:"self,omitempty"` // path the call addresses (for Href == "self")
}

func (d Doc) hrefs(i int) []string {
	member := fmt.Sprintf("/coll/member-%d", i)
	switch d.Resps[i].Href {
	case "none":
		return nil
	case "two":
		return []string{member, fmt.Sprintf("/coll/extra-%d", i)}
	case "self":
		if d.Self != "" {
			return []string{d.Self}
		}
	}
	return []string{member}
}

type Case struct {
	Method string   `json:"method"`
	Script script   `json:"script"`
	Doc    *Doc     `json:"doc,omitempty"`     // when the body was built from a document spec
	ErrDoc []string `json:"err_doc,omitempty"` // DAV:error condition element names "ns local"
	ErrPad int      `json:"err_pad,omitempty"` // bytes of comment + white space in front of the condition elements
	// Warm: the judged call is the second one made through the same client object; the first was answered with a
	// failure ("error") or with a digestible success ("ok").  What the first call saw must not show in the second.
	Warm string `json:"warm,omitempty"`
}

const icalText = "BEGIN:VCALENDAR\r\nVERSION:2.0\r\nPRODID:-//verif//EN\r\nBEGIN:VEVENT\r\nUID:u1\r\nDTSTAMP:20200101T000000Z\r\nDTSTART:20200101T000000Z\r\nEND:VEVENT\r\nEND:VCALENDAR\r\n"
const vcardText = "BEGIN:VCARD\r\nVERSION:4.0\r\nFN:x\r\nEND:VCARD\r\n"

var propBuilders = map[string]func(coll bool) *vx.Node{ // values that carry a marker are made unique per response by render()
	"resourcetype": func(coll bool) *vx.Node {
		n := vx.El(vdav.NSDAV, "resourcetype")
		if coll {
			n.Add(vx.El(vdav.NSDAV, "collection"), vx.El(vdav.NSCal, "calendar"), vx.El(vdav.NSCard, "addressbook"))
		}
		return n
	},
	"getcontentlength": func(bool) *vx.Node { return vx.El(vdav.NSDAV, "getcontentlength", vx.T("42")) },
	"getcontenttype":   func(bool) *vx.Node { return vx.El(vdav.NSDAV, "getcontenttype", vx.T("text/plain")) },
	"getetag":          func(bool) *vx.Node { return vx.El(vdav.NSDAV, "getetag", vx.T(`"tag-value"`)) },
	"getlastmodified": func(bool) *vx.Node {
		return vx.El(vdav.NSDAV, "getlastmodified", vx.T("Mon, 02 Jan 2006 15:04:05 GMT"))
	},
	"displayname": func(bool) *vx.Node { return vx.El(vdav.NSDAV, "displayname", vx.T("display-value")) },
	"current-user-principal": func(bool) *vx.Node {
		return vx.El(vdav.NSDAV, "current-user-principal", vx.El(vdav.NSDAV, "href", vx.T("/principal-value/")))
	},
	"calendar-home-set": func(bool) *vx.Node {
		return vx.El(vdav.NSCal, "calendar-home-set", vx.El(vdav.NSDAV, "href", vx.T("/home-value/")))
	},
	"addressbook-home-set": func(bool) *vx.Node {
		return vx.El(vdav.NSCard, "addressbook-home-set", vx.El(vdav.NSDAV, "href", vx.T("/home-value/")))
	},
	"calendar-description":    func(bool) *vx.Node { return vx.El(vdav.NSCal, "calendar-description", vx.T("description-value")) },
	"addressbook-description": func(bool) *vx.Node { return vx.El(vdav.NSCard, "addressbook-description", vx.T("description-value")) },
	"max-resource-size-cal":   func(bool) *vx.Node { return vx.El(vdav.NSCal, "max-resource-size", vx.T("1000")) },
	"max-resource-size-card":  func(bool) *vx.Node { return vx.El(vdav.NSCard, "max-resource-size", vx.T("1000")) },
	"supported-calendar-component-set": func(bool) *vx.Node {
		return vx.El(vdav.NSCal, "supported-calendar-component-set", vx.El(vdav.NSCal, "comp").With("", "name", "VTODO"))
	},
	"supported-address-data": func(bool) *vx.Node {
		return vx.El(vdav.NSCard, "supported-address-data", vx.El(vdav.NSCard, "address-data-type").With("", "content-type", "text/vcard").With("", "version", "4.0"))
	},
	"calendar-data": func(bool) *vx.Node { return vx.El(vdav.NSCal, "calendar-data", vx.T(icalText)) },
	"address-data":  func(bool) *vx.Node { return vx.El(vdav.NSCard, "address-data", vx.T(vcardText)) },
}

func (d Doc) render() string {
	var ms vdav.MultiStatus
	for i, r := range d.Resps {
		resp := vdav.Response{Hrefs: d.hrefs(i)}
		if r.Status != 0 {
			st := r.Status
			resp.Status = &st
		} else {
			by := map[int][]*vx.Node{}
			var order []int
			for _, p := range r.Props {
				if p.Absent {
					continue
				}
				if _, ok := by[p.Status]; !ok {
					order = append(order, p.Status)
				}
				el := propBuilders[p.Name](r.Coll)
				if pre, ok := markerPrefix[p.Name]; ok {
					uniq := fmt.Sprintf("%s-%d", pre, i)
					if p.Name == "getetag" {
						uniq = `"` + uniq + `"`
					}
					el.Children = []*vx.Node{vx.T(uniq)}
				}
				if p.Payload > 0 && p.Payload <= len(hostilePayloads) && (p.Name == "calendar-data" || p.Name == "address-data") {
					el.Children = []*vx.Node{vx.T(hostilePayloads[p.Payload-1])}
				}
				by[p.Status] = append(by[p.Status], el)
			}
			for _, st := range order {
				ps := vdav.PropStat{Code: st, Props: by[st]}
				if st == 0 {
					ps.Text = "\x00missing"
				}
				resp.PropStats = append(resp.PropStats, ps)
			}
		}
		ms.Responses = append(ms.Responses, resp)
	}
	ms.SyncToken = d.Token
	root := ms.Node()
	// drop the status element where the spec says "missing"
	for _, rn := range root.Elems(vdav.NSDAV, "response") {
		for _, ps := range rn.Elems(vdav.NSDAV, "propstat") {
			var kept []*vx.Node
			for _, k := range ps.Children {
				if k.Kind == vx.Element && k.Name.Local == "status" && k.TextContent() == "\x00missing" {
					continue
				}
				kept = append(kept, k)
			}
			ps.Children = kept
		}
	}
	s := `<?xml version="1.0" encoding="utf-8"?>` + string(vx.Write(root, vx.Fixed(0), false))
	if d.Cut > 0 && d.Cut < len(s) {
		s = s[:d.Cut]
	}
	return s
}

// ---------------------------------------------------------------------------
// methods

type methodInfo struct {
	name     string
	multi    bool     // requires a 207 multi-status
	flat     bool     // exactly one response
	required []string // required properties (per consumed response)
	optional []string
	collOnly bool // consumes only responses typed as collection (others skipped after the type check)
	self     string // the path the call addresses
	call     func(ctx context.Context, hc webdav.HTTPClient) (any, error)
}

// one client object per transport: a case that makes two calls through one *fake uses the same client twice
var clientsOf sync.Map // webdav.HTTPClient -> *[3]any

func clients(hc webdav.HTTPClient) *[3]any {
	if v, ok := clientsOf.Load(hc); ok {
		return v.(*[3]any)
	}
	w, _ := webdav.NewClient(hc, "http://dav.example/base/")
	c, _ := caldav.NewClient(hc, "http://dav.example/base/")
	a, _ := carddav.NewClient(hc, "http://dav.example/base/")
	v, _ := clientsOf.LoadOrStore(hc, &[3]any{w, c, a})
	return v.(*[3]any)
}
func wd(hc webdav.HTTPClient) *webdav.Client     { return clients(hc)[0].(*webdav.Client) }
func cal(hc webdav.HTTPClient) *caldav.Client    { return clients(hc)[1].(*caldav.Client) }
func card(hc webdav.HTTPClient) *carddav.Client { return clients(hc)[2].(*carddav.Client) }

// warmScript: the response to an earlier call made through the same client object (Case.Warm): "error" a failure,
// "ok" a success the method can digest, with every marker value spelled "...warmvalue..." so that anything the judged
// call returns from it can be recognised
func warmScript(m *methodInfo, kind string) script {
	if kind == "error" {
		return script{Status: 503, CT: "text/plain", Body: "warmvalue: try again later"}
	}
	if m.multi {
		r := RespSpec{Coll: m.collOnly}
		if m.flat {
			r.Href = "self"
		}
		for _, n := range append(append([]string{}, m.required...), m.optional...) {
			r.Props = append(r.Props, PropSpec{Name: n, Status: 200})
		}
		d := Doc{Resps: []RespSpec{r}, Self: m.self, Token: "warmvalue-token"}
		return script{Status: 207, CT: "application/xml", Body: vev.B(strings.ReplaceAll(d.render(), "-value", "-warmvalue"))}
	}
	switch m.name {
	case "caldav.GetCalendarObject", "caldav.PutCalendarObject":
		return script{Status: 200, CT: "text/calendar", Body: vev.B(strings.ReplaceAll(icalText, "UID:u1", "UID:warmvalue")), Hdr: [][2]string{{"ETag", `"warmvalue"`}, {"Location", "/warmvalue"}}}
	case "carddav.GetAddressObject", "carddav.PutAddressObject":
		return script{Status: 200, CT: "text/vcard", Body: vev.B(strings.ReplaceAll(vcardText, "FN:x", "FN:warmvalue")), Hdr: [][2]string{{"ETag", `"warmvalue"`}, {"Location", "/warmvalue"}}}
	}
	return script{Status: 201, Body: "warmvalue", Hdr: [][2]string{{"ETag", `"warmvalue"`}, {"DAV", "1, warmvalue"}}}
}

func sampleCal() *ical.Calendar {
	c, _ := ical.NewDecoder(strings.NewReader(icalText)).Decode()
	return c
}

func sampleCard() vcard.Card {
	c, _ := vcard.NewDecoder(strings.NewReader(vcardText)).Decode()
	return c
}

var allReq = caldav.CalendarCompRequest{Name: "VCALENDAR", AllProps: true, AllComps: true}

var methods = []methodInfo{
	{name: "webdav.FindCurrentUserPrincipal", self: "/base/", multi: true, flat: true, required: []string{"current-user-principal"},
		call: func(ctx context.Context, hc webdav.HTTPClient) (any, error) {
			return wd(hc).FindCurrentUserPrincipal(ctx)
		}},
	{name: "webdav.Stat", self: "/coll/member-0", multi: true, flat: true, required: []string{"resourcetype", "getcontentlength"}, optional: []string{"getcontenttype", "getetag", "getlastmodified"},
		call: func(ctx context.Context, hc webdav.HTTPClient) (any, error) {
			return wd(hc).Stat(ctx, "/coll/member-0")
		}},
	{name: "webdav.ReadDir", self: "/coll/", multi: true, required: []string{"resourcetype", "getcontentlength"}, optional: []string{"getcontenttype", "getetag", "getlastmodified"},
		call: func(ctx context.Context, hc webdav.HTTPClient) (any, error) {
			return wd(hc).ReadDir(ctx, "/coll/", true)
		}},
	{name: "webdav.Open", call: func(ctx context.Context, hc webdav.HTTPClient) (any, error) {
		rc, err := wd(hc).Open(ctx, "/f")
		if err != nil {
			return nil, err
		}
		defer rc.Close()
		return io.ReadAll(rc)
	}},
	{name: "webdav.Create", call: func(ctx context.Context, hc webdav.HTTPClient) (any, error) {
		w, err := wd(hc).Create(ctx, "/f")
		if err != nil {
			return nil, err
		}
		w.Write([]byte("content"))
		return nil, w.Close()
	}},
	{name: "webdav.RemoveAll", call: func(ctx context.Context, hc webdav.HTTPClient) (any, error) { return nil, wd(hc).RemoveAll(ctx, "/f") }},
	{name: "webdav.Mkdir", call: func(ctx context.Context, hc webdav.HTTPClient) (any, error) { return nil, wd(hc).Mkdir(ctx, "/d") }},
	{name: "webdav.Copy", call: func(ctx context.Context, hc webdav.HTTPClient) (any, error) {
		return nil, wd(hc).Copy(ctx, "/a", "/b", nil)
	}},
	{name: "webdav.Move", call: func(ctx context.Context, hc webdav.HTTPClient) (any, error) {
		return nil, wd(hc).Move(ctx, "/a", "/b", nil)
	}},
	{name: "caldav.FindCalendarHomeSet", self: "/p/", multi: true, flat: true, required: []string{"calendar-home-set"},
		call: func(ctx context.Context, hc webdav.HTTPClient) (any, error) {
			return cal(hc).FindCalendarHomeSet(ctx, "/p/")
		}},
	{name: "caldav.FindCalendars", self: "/h/", multi: true, required: []string{"resourcetype"}, optional: []string{"displayname", "calendar-description", "max-resource-size-cal", "supported-calendar-component-set"}, collOnly: true,
		call: func(ctx context.Context, hc webdav.HTTPClient) (any, error) { return cal(hc).FindCalendars(ctx, "/h/") }},
	{name: "caldav.QueryCalendar", self: "/c/", multi: true, required: []string{"calendar-data"}, optional: []string{"getlastmodified", "getetag", "getcontentlength"},
		call: func(ctx context.Context, hc webdav.HTTPClient) (any, error) {
			return cal(hc).QueryCalendar(ctx, "/c/", &caldav.CalendarQuery{CompRequest: allReq, CompFilter: caldav.CompFilter{Name: "VCALENDAR"}})
		}},
	{name: "caldav.MultiGetCalendar", self: "/c/", multi: true, required: []string{"calendar-data"}, optional: []string{"getlastmodified", "getetag", "getcontentlength"},
		call: func(ctx context.Context, hc webdav.HTTPClient) (any, error) {
			return cal(hc).MultiGetCalendar(ctx, "/c/", &caldav.CalendarMultiGet{Paths: []string{"/c/a.ics"}, CompRequest: allReq})
		}},
	{name: "caldav.GetCalendarObject", call: func(ctx context.Context, hc webdav.HTTPClient) (any, error) {
		return cal(hc).GetCalendarObject(ctx, "/c/a.ics")
	}},
	{name: "caldav.PutCalendarObject", call: func(ctx context.Context, hc webdav.HTTPClient) (any, error) {
		return cal(hc).PutCalendarObject(ctx, "/c/a.ics", sampleCal())
	}},
	{name: "carddav.HasSupport", call: func(ctx context.Context, hc webdav.HTTPClient) (any, error) { return nil, card(hc).HasSupport(ctx) }},
	{name: "carddav.FindAddressBookHomeSet", self: "/p/", multi: true, flat: true, required: []string{"addressbook-home-set"},
		call: func(ctx context.Context, hc webdav.HTTPClient) (any, error) {
			return card(hc).FindAddressBookHomeSet(ctx, "/p/")
		}},
	{name: "carddav.FindAddressBooks", self: "/h/", multi: true, required: []string{"resourcetype"}, optional: []string{"displayname", "addressbook-description", "max-resource-size-card", "supported-address-data"}, collOnly: true,
		call: func(ctx context.Context, hc webdav.HTTPClient) (any, error) {
			return card(hc).FindAddressBooks(ctx, "/h/")
		}},
	{name: "carddav.QueryAddressBook", self: "/b/", multi: true, required: []string{"address-data"}, optional: []string{"getlastmodified", "getetag", "getcontentlength"},
		call: func(ctx context.Context, hc webdav.HTTPClient) (any, error) {
			return card(hc).QueryAddressBook(ctx, "/b/", &carddav.AddressBookQuery{DataRequest: carddav.AddressDataRequest{AllProp: true}})
		}},
	{name: "carddav.MultiGetAddressBook", self: "/b/", multi: true, required: []string{"address-data"}, optional: []string{"getlastmodified", "getetag", "getcontentlength"},
		call: func(ctx context.Context, hc webdav.HTTPClient) (any, error) {
			return card(hc).MultiGetAddressBook(ctx, "/b/", &carddav.AddressBookMultiGet{Paths: []string{"/b/a.vcf"}, DataRequest: carddav.AddressDataRequest{AllProp: true}})
		}},
	{name: "carddav.GetAddressObject", call: func(ctx context.Context, hc webdav.HTTPClient) (any, error) {
		return card(hc).GetAddressObject(ctx, "/b/a.vcf")
	}},
	{name: "carddav.PutAddressObject", call: func(ctx context.Context, hc webdav.HTTPClient) (any, error) {
		return card(hc).PutAddressObject(ctx, "/b/a.vcf", sampleCard())
	}},
	{name: "carddav.SyncCollection", self: "/b/", multi: true, optional: []string{"getlastmodified", "getetag"},
		call: func(ctx context.Context, hc webdav.HTTPClient) (any, error) {
			return card(hc).SyncCollection(ctx, "/b/", &carddav.SyncQuery{SyncToken: "t0"})
		}},
}

func method(name string) *methodInfo {
	for i := range methods {
		if methods[i].name == name {
			return &methods[i]
		}
	}
	return nil
}

// ---------------------------------------------------------------------------
// oracle

type verdict int

const (
	dontCare verdict = iota
	mustFail
	mustSucceed
)

func success(code int) bool { return code/100 == 2 }

// expectation for a 207 answer built from a document spec
func docVerdict(m *methodInfo, d Doc, rendered string) (verdict, string) {
	if d.Cut > 0 && d.Cut < len(rendered)+1 {
		if _, err := vx.Parse([]byte(rendered)); err != nil {
			return mustFail, "truncated document"
		}
		return dontCare, "cut after the end"
	}
	if m.flat && len(d.Resps) != 1 {
		return mustFail, "a Depth 0 answer must hold exactly one response"
	}
	care := false
	for _, r := range d.Resps {
		switch {
		case r.Href == "none" && r.Status != 0 && !success(r.Status):
			return mustFail, fmt.Sprintf("response without href and with status %d", r.Status)
		case r.Href == "none":
			care = true // not a conformant document (href is required); an error is fine, so is skipping it
			continue
		case r.Href == "two" && r.Status == 0:
			care = true // several hrefs are only allowed with a response-level status
			continue
		case r.Href == "self" && m.name == "carddav.SyncCollection" && r.Status == 0:
			// the client skips the response for the collection itself before consulting its properties: nothing of
			// it can come back as data, so whether a bad property status there is reported is not asserted
			care = true
			continue
		case r.Href == "two" && (success(r.Status) || (m.name == "carddav.SyncCollection" && r.Status == 404)):
			care = true // RFC 4918 allows it; whether a client makes sense of it is not part of the statement
			continue
		}
		if r.Status != 0 {
			if success(r.Status) {
				// a response in status form carries no properties
				if len(m.required) > 0 {
					return mustFail, "required properties missing (status-only response)"
				}
				continue
			}
			if m.name == "carddav.SyncCollection" && r.Status == 404 {
				continue // a deletion
			}
			return mustFail, fmt.Sprintf("response with status %d", r.Status)
		}
		has := map[string]PropSpec{}
		for _, p := range r.Props {
			if !p.Absent {
				if _, dup := has[p.Name]; !dup {
					has[p.Name] = p
				}
			}
		}
		// required properties; for webdav file infos getcontentlength is only required for non-collections
		for _, req := range m.required {
			if req == "getcontentlength" && r.Coll {
				continue
			}
			p, ok := has[req]
			switch {
			case !ok:
				return mustFail, "required property " + req + " missing"
			case p.Status == 200 && p.Payload > 0 && p.Payload <= len(hostilePayloads) && (req == "calendar-data" || req == "address-data") && !upstreamAccepts(req, hostilePayloads[p.Payload-1]):
				return mustFail, "required property " + req + " holds content the upstream decoder refuses"
			case p.Status == 200 && p.Payload > 0:
				care = true
			case p.Status == 200:
			case success(p.Status):
				care = true
			default:
				return mustFail, fmt.Sprintf("required property %s under status %d", req, p.Status)
			}
		}
		if m.collOnly && !r.Coll {
			continue // skipped after the type check
		}
		for _, opt := range m.optional {
			if (strings.HasPrefix(m.name, "webdav.")) && r.Coll && opt != "getlastmodified" {
				continue // not consulted for collections
			}
			p, ok := has[opt]
			switch {
			case !ok || p.Status == 200 || p.Status == 404:
			case success(p.Status):
				care = true
			default:
				return mustFail, fmt.Sprintf("optional property %s under status %d", opt, p.Status)
			}
		}
	}
	if care {
		return dontCare, "propstat status 2xx other than 200"
	}
	return mustSucceed, ""
}

func dev(kind, f string, a ...any) vev.Outcome {
	return vev.Outcome{Sig: vev.Sig(kind), Msg: fmt.Sprintf(f, a...)}
}

func short(name string) string { return name }

func evaluate(c Case) (o vev.Outcome, err error) {
	m := method(c.Method)
	if m == nil {
		return o, fmt.Errorf("unknown method %q", c.Method)
	}
	s := c.Script
	rendered := ""
	if c.Doc != nil {
		rendered = c.Doc.render()
		s.Body = vev.B(rendered)
	}
	if len(c.ErrDoc) > 0 {
		e := vx.El(vdav.NSDAV, "error")
		if c.ErrPad > 0 {
			e.Add(&vx.Node{Kind: vx.Comment, Text: strings.Repeat(" padding ", c.ErrPad/9+1)[:c.ErrPad]})
		}
		for _, n := range c.ErrDoc {
			f := strings.SplitN(n, " ", 2)
			e.Add(vx.El(f[0], f[1]))
		}
		s.Body = vev.B(`<?xml version="1.0" encoding="utf-8"?>` + string(vx.Write(e, vx.Fixed(0), false)))
	}
	type result struct {
		v        any
		err      error
		pan      any
		overread bool
	}
	ch := make(chan result, 1)
	go func() {
		var r result
		defer func() {
			if p := recover(); p != nil {
				r.pan = p
			}
			ch <- r
		}()
		f := &fake{s: s}
		defer clientsOf.Delete(webdav.HTTPClient(f))
		if c.Warm != "" {
			f.s = warmScript(m, c.Warm)
			m.call(context.Background(), f)
			f.s = s
		}
		r.v, r.err = m.call(context.Background(), f)
		r.overread = f.overread
	}()
	var r result
	timer := time.NewTimer(20 * time.Second)
	defer timer.Stop()
	select {
	case r = <-ch:
	case <-timer.C:
		return dev(m.name+"|hang", "%s did not return within 20 s although the transport answered immediately (status %d, %d body bytes)", m.name, s.Status, len(s.Body)), nil
	}
	if r.overread {
		return dev(m.name+"|hang|endless-error-body", "%s kept reading the body of a status %d response (%d scripted bytes, then %d MiB more) instead of returning its error: against a server that goes on sending it never returns", m.name, s.Status, len(s.Body), endlessCap>>20), nil
	}
	if r.pan != nil {
		return dev(m.name+"|panic", "%s panicked on status %d body %.200q: %v", m.name, s.Status, string(s.Body), r.pan), nil
	}
	if c.Warm != "" {
		rec.Count("second-call-on-one-client/"+c.Warm, 1)
		if r.err == nil {
			if b, _ := json.Marshal(r.v); strings.Contains(string(b), "warmvalue") && !strings.Contains(string(s.Body), "warmvalue") {
				return dev(m.name+"|stale-data-from-earlier-call", "%s returned %s: that comes from the response to the earlier call on the same client, not from this one (status %d, body %.200q)", m.name, b, s.Status, string(s.Body)), nil
			}
		}
	}
	broken := s.BodyFail != nil && *s.BodyFail < len(s.Body)
	if broken {
		rec.Count("response-body-breaks-off", 1)
	}
	// MUST-fail: not 2xx
	if !success(s.Status) {
		if r.err == nil {
			return dev(m.name+"|non-2xx-accepted", "%s returned no error for status %d", m.name, s.Status), nil
		}
		var he *internal.HTTPError
		if !errors.As(r.err, &he) || he.Code != s.Status {
			return dev(m.name+"|status-not-carried", "%s: status %d, error %q does not carry it (HTTPError %+v)", m.name, s.Status, r.err, he), nil
		}
		if len(c.ErrDoc) > 0 && isXML(s.CT) && !broken {
			var de *internal.Error
			if !errors.As(r.err, &de) {
				return dev(m.name+"|dav-error-lost", "%s: status %d with a DAV:error body, but the error %q exposes no *internal.Error", m.name, s.Status, r.err), nil
			}
			var got []string
			for _, raw := range de.Raw {
				if n, ok := raw.XMLName(); ok {
					got = append(got, n.Space+" "+n.Local)
				}
			}
			want := append([]string{}, c.ErrDoc...)
			sort.Strings(got)
			sort.Strings(want)
			if strings.Join(got, "|") != strings.Join(want, "|") {
				return dev(m.name+"|dav-error-conditions", "%s: DAV:error conditions %q, response carried %q", m.name, got, want), nil
			}
		}
		return vev.Outcome{}, nil
	}
	if m.multi {
		if s.Status != 207 {
			if r.err == nil {
				return dev(m.name+"|non-207-accepted", "%s needs a multi-status but accepted status %d", m.name, s.Status), nil
			}
			return vev.Outcome{}, nil
		}
		if c.Doc == nil {
			return vev.Outcome{}, nil
		}
		if broken {
			// a multi-status that breaks off before its root element closes cannot be interpreted
			if *s.BodyFail < len(strings.TrimRight(string(s.Body), " \t\r\n")) && r.err == nil {
				return dev(m.name+"|broken-off-multistatus-accepted", "%s returned %s without error although the body broke off after %d of %d bytes", m.name, mustJSON(r.v), *s.BodyFail, len(s.Body)), nil
			}
			return vev.Outcome{}, nil
		}
		v, why := docVerdict(m, *c.Doc, rendered)
		rec.Count([]string{"verdict/dont-care", "verdict/must-fail", "verdict/must-succeed"}[v], 1)
		switch v {
		case mustFail:
			if r.err == nil {
				return dev(m.name+"|bad-multistatus-accepted|"+strings.Fields(why)[0], "%s returned %s without error although: %s; document %q", m.name, mustJSON(r.v), why, rendered), nil
			}
		case mustSucceed:
			if r.err != nil {
				return dev(m.name+"|good-multistatus-refused", "%s failed with %q on a conformant document with only success statuses: %q", m.name, r.err, rendered), nil
			}
		}
		if r.err == nil {
			if o := noBogusData(m, *c.Doc, r.v, rendered); !o.OK() {
				return o, nil
			}
		}
		return vev.Outcome{}, nil
	}
	// plain 2xx methods
	if broken {
		return vev.Outcome{}, nil // whether the call needs the body at all is the method's business: no panic, no hang
	}
	switch m.name {
	case "webdav.RemoveAll", "webdav.Mkdir", "webdav.Copy", "webdav.Move", "webdav.Create":
		if r.err != nil {
			return dev(m.name+"|2xx-refused", "%s failed with %q on status %d", m.name, r.err, s.Status), nil
		}
	case "webdav.Open":
		if r.err != nil {
			return dev(m.name+"|2xx-refused", "Open failed with %q on status %d", r.err, s.Status), nil
		}
		if b, _ := r.v.([]byte); string(b) != string(s.Body) {
			return dev(m.name+"|body", "Open returned %d bytes, response carried %d", len(b), len(s.Body)), nil
		}
	}
	return vev.Outcome{}, nil
}

func isXML(ct string) bool {
	ct = strings.ToLower(ct)
	return strings.HasPrefix(ct, "application/xml") || strings.HasPrefix(ct, "text/xml")
}

// a property under 404 (or a deleted member) never shows up as data
func noBogusData(m *methodInfo, d Doc, v any, rendered string) vev.Outcome {
	b, _ := json.Marshal(v)
	js := string(b)
	// every marker-carrying property value is unique per response ("tag-value-3"), so data can be traced: what a
	// response reports under a failure status, or does not report at all, must not appear in the object built from
	// that response - neither its own value nor one left over from a neighbouring response
	objs := map[string]string{}
	var visit func(x any)
	visit = func(x any) {
		switch t := x.(type) {
		case []any:
			for _, e := range t {
				visit(e)
			}
		case map[string]any:
			if p, ok := t["Path"].(string); ok {
				eb, _ := json.Marshal(t)
				objs[p] = string(eb)
			}
			for _, e := range t {
				visit(e)
			}
		}
	}
	var generic any
	if json.Unmarshal(b, &generic) == nil {
		visit(generic)
	}
	for i, r := range d.Resps {
		if r.Href == "none" || r.Href == "two" {
			continue
		}
		obj, have := objs[d.hrefs(i)[0]]
		for _, name := range append(append([]string{}, m.required...), m.optional...) {
			pre, isMarker := markerPrefix[name]
			if !isMarker {
				continue
			}
			var ps *PropSpec
			for k := range r.Props {
				if r.Props[k].Name == name && !r.Props[k].Absent {
					ps = &r.Props[k]
					break
				}
			}
			if r.Status == 0 && ps != nil && success(ps.Status) {
				continue // reported with a success status: may be used
			}
			own := fmt.Sprintf("%s-%d", pre, i)
			if ps != nil && strings.Contains(js, own) {
				return dev(m.name+"|failed-property-as-data", "%s returned %s which contains %q although %s of response %d was reported under status %d: %q", m.name, js, own, name, i, ps.Status, rendered)
			}
			if have && strings.Contains(obj, pre+"-") {
				return dev(m.name+"|foreign-property-as-data", "%s built %s from response %d, which does not report %s with a success status: the value comes from another response: %q", m.name, obj, i, name, rendered)
			}
		}
	}
	if m.name == "carddav.SyncCollection" {
		sr, _ := v.(*carddav.SyncResponse)
		if sr != nil {
			named := map[string]bool{}
			for i := range d.Resps {
				for _, h := range d.hrefs(i) {
					named[h] = true
				}
			}
			for _, x := range sr.Deleted {
				if !named[x] {
					return dev(m.name+"|phantom-deletion", "Deleted lists %q, which no response of the document names: %q", x, rendered)
				}
			}
			for _, x := range sr.Updated {
				if !named[x.Path] {
					return dev(m.name+"|phantom-update", "Updated lists %q, which no response of the document names: %q", x.Path, rendered)
				}
			}
			for i, r := range d.Resps {
				if r.Href == "none" || r.Href == "two" {
					continue
				}
				p := d.hrefs(i)[0]
				inDel, inUpd := false, false
				for _, x := range sr.Deleted {
					if x == p {
						inDel = true
					}
				}
				for _, x := range sr.Updated {
					if x.Path == p {
						inUpd = true
					}
				}
				if r.Status == 404 && (!inDel || inUpd) {
					return dev(m.name+"|deleted-member", "member %q was reported 404 but Deleted=%v Updated=%v", p, inDel, inUpd)
				}
				if r.Href == "self" {
					// the collection itself is not a member: as long as it is not reported deleted, whether it
					// is listed as updated is not asserted
					if r.Status == 0 && inDel {
						return dev(m.name+"|self-deleted", "the collection itself was reported with properties but is listed as deleted")
					}
					continue
				}
				if r.Status == 0 && (inDel || !inUpd) {
					return dev(m.name+"|updated-member", "member %q was reported with properties but Deleted=%v Updated=%v", p, inDel, inUpd)
				}
			}
		}
	}
	return vev.Outcome{}
}

// ---------------------------------------------------------------------------
// generators

var statuses = []int{200, 200, 200, 200, 201, 204, 404, 404, 403, 423, 500, 507, 0}

func genDoc(rt *rapid.T, m *methodInfo) Doc {
	var d Doc
	n := 1
	if !m.flat {
		n = rapid.IntRange(0, 4).Draw(rt, "nresp")
	} else if rapid.IntRange(0, 9).Draw(rt, "flatcount") == 0 {
		n = rapid.SampledFrom([]int{0, 2}).Draw(rt, "flatn")
	}
	for i := 0; i < n; i++ {
		r := RespSpec{Coll: rapid.Bool().Draw(rt, "coll")}
		if rapid.IntRange(0, 6).Draw(rt, "hrefmode?") == 0 {
			r.Href = rapid.SampledFrom([]string{"none", "two", "self", "self"}).Draw(rt, "hrefmode")
		}
		if rapid.IntRange(0, 5).Draw(rt, "respstatus") == 0 || (r.Href != "" && rapid.Bool().Draw(rt, "hrefstatus")) {
			r.Status = rapid.SampledFrom([]int{200, 204, 301, 403, 404, 404, 423, 500, 507}).Draw(rt, "rstatus")
		} else {
			for _, name := range append(append([]string{}, m.required...), m.optional...) {
				p := PropSpec{Name: name, Status: 200}
				if (name == "calendar-data" || name == "address-data") && rapid.IntRange(0, 5).Draw(rt, "hostile?") == 0 {
					p.Payload = 1 + rapid.IntRange(0, len(hostilePayloads)-1).Draw(rt, "payload")
				}
				switch rapid.IntRange(0, 5).Draw(rt, "pkind") {
				case 0:
					p.Status = rapid.SampledFrom(statuses).Draw(rt, "pstatus")
				case 1:
					if rapid.Bool().Draw(rt, "absent") {
						p.Absent = true
					}
				}
				r.Props = append(r.Props, p)
			}
		}
		d.Resps = append(d.Resps, r)
	}
	if m.name == "carddav.SyncCollection" {
		d.Token = "sync-token-1"
	}
	d.Self = m.self
	// at most one response may stand for the collection itself
	seenSelf := false
	for i := range d.Resps {
		if d.Resps[i].Href == "self" {
			if seenSelf {
				d.Resps[i].Href = ""
			}
			seenSelf = true
		}
	}
	return d
}

func nontrivial(c Case) bool {
	if !success(c.Script.Status) {
		return len(c.Script.Body) > 0 || len(c.ErrDoc) > 0 || c.Doc != nil
	}
	if c.Doc != nil {
		if c.Doc.Cut > 0 {
			return true
		}
		for _, r := range c.Doc.Resps {
			if r.Status != 0 && !success(r.Status) {
				return true
			}
			for _, p := range r.Props {
				if p.Status != 200 {
					return true
				}
			}
		}
	}
	return false
}

func run(t *testing.T, rt *rapid.T, c Case, class string) {
	rec.Case(class, nontrivial(c), mustJSON(c), func() any { return c })
	o, err := evaluate(c)
	if err != nil {
		if rt != nil {
			rt.Fatalf("harness: %v", err)
		}
		t.Fatalf("harness: %v", err)
	}
	if o.OK() || rec.Known(o.Sig) {
		return
	}
	if rt != nil {
		rec.Fail(rt, o.Sig, "c14", c, "%s", o.Msg)
	} else {
		rec.Violation(t, o.Sig, "c14", c, "%s", o.Msg)
	}
}

func TestAReplay(t *testing.T) {
	vev.RunReplays(t, rec, func(kind string, raw json.RawMessage) (vev.Outcome, error) {
		var c Case
		if err := json.Unmarshal(raw, &c); err != nil {
			return vev.Outcome{}, err
		}
		return evaluate(c)
	})
}

var cts = []string{"", "application/xml; charset=utf-8", "text/xml", "text/plain", "text/html; charset", "application/json", "text/", "; charset=utf-8", "application/xml; charset=\"utf-8", "TEXT/XML"}

func genBody(rt *rapid.T) string {
	switch rapid.IntRange(0, 7).Draw(rt, "bodykind") {
	case 0:
		return ""
	case 1:
		return "plain text error message"
	case 2:
		return strings.Repeat("x", rapid.SampledFrom([]int{1023, 1024, 1025, 5000}).Draw(rt, "biglen"))
	case 3:
		return `<?xml version="1.0"?><D:error xmlns:D="DAV:"><D:lock-token-submitted/></D:error>`
	case 4:
		return `<?xml version="1.0"?><D:multistatus xmlns:D="DAV:"/>`
	case 5:
		n := rapid.SampledFrom([]int{10, 1000, 10000}).Draw(rt, "depth")
		return strings.Repeat("<a>", n) + strings.Repeat("</a>", n)
	case 6:
		return string(rapid.SliceOfN(rapid.Byte(), 0, 40).Draw(rt, "bytes"))
	default:
		return "<?xml version=\"1.0\"?><D:error xmlns:D=\"DAV:\"><unclosed>"
	}
}

// every status code x every method (exhaustive in the thorough tier, strided in quick)
func TestStatusMatrix(t *testing.T) {
	if vev.ReplayFile() != "" {
		t.Skip()
	}
	idx := 0
	stride := 1
	if !vev.Thorough() {
		stride = 7
	}
	for _, m := range methods {
		for code := 100; code <= 599; code++ {
			idx++
			if !vev.MyShare(idx) || (code%stride != (vev.SeedValue()+idx/500)%stride && code != 207 && code != 200 && code != 404) {
				continue
			}
			for k, variant := range []script{
				{Status: code},
				{Status: code, CT: "text/plain", Body: "something went wrong"},
				{Status: code, CT: "application/xml", Body: vev.B(`<?xml version="1.0"?><D:multistatus xmlns:D="DAV:"></D:multistatus>`)},
			} {
				c := Case{Method: m.name, Script: variant}
				if k == 2 && code%3 == 0 {
					c.Script.Body = ""
					c.ErrDoc = []string{vdav.NSCal + " no-uid-conflict", vdav.NSDAV + " need-privileges"}
					c.ErrPad = []int{0, 2000, 100000}[(code/3)%3]
				}
				run(t, nil, c, fmt.Sprintf("matrix/%dxx", code/100))
				c.Script.NoLength = true
				run(t, nil, c, fmt.Sprintf("matrix-no-length/%dxx", code/100))
				c.Script.NoLength = false
				if code/100 != 2 && (code%5 == k || code < 110) {
					c.Script.Endless = true
					run(t, nil, c, fmt.Sprintf("matrix-endless-body/%dxx", code/100))
					c.Script.Endless = false
				}
				c.Warm = []string{"ok", "error"}[(code+k)%2]
				run(t, nil, c, fmt.Sprintf("matrix-second-call/%dxx", code/100))
				c.Warm = ""
				if k > 0 {
					// the same response breaking off at the very start, and after a few bytes, of its body
					for j, cut := range []int{0, 7} {
						cut := cut
						c.Script.BodyFail, c.Script.BodyErr = &cut, []string{"unexpected-eof", "reset"}[j]
						run(t, nil, c, fmt.Sprintf("matrix-broken-body/%dxx", code/100))
					}
				}
			}
		}
	}
	if vev.Thorough() {
		rec.ExhaustiveSub("status 100-599 x every public client method x {no body, text body, XML body / DAV:error body}")
	}
}

// every method x success status x one entity header at a time set to each value of its hostile pool (the body is
// one the method can digest, so that the header is actually looked at).  Only "returns, no panic" is asserted.
func TestHeaderValues(t *testing.T) {
	if vev.ReplayFile() != "" {
		t.Skip()
	}
	pools := map[string][]string{
		"ETag":           {`"ok"`, "unquoted", `W/"w"`, `"`, ` " `, `""`, `"a"b"`, `'a'`, `"\\`, "\"\\\"", `"unterminated`, "W/", `"\xff"`},
		"Last-Modified":  {"Mon, 02 Jan 2006 15:04:05 GMT", "yesterday", "0", "Mon, 02 Jan 2006 15:04:05", " "},
		"Content-Length": {"12", "-1", "abc", "99999999999999999999"},
		"Location":       {"/new/path", "http://[::1", "%zz", "//", "rel", "http://other.example/x y"},
		"Content-Type":   {"text/calendar", "text/vcard", "TEXT/VCARD; charset", ";", "a/b/c", "text/calendar; charset=\"", "application/xml"},
		"DAV":            {"1, 3, addressbook", ",", "addressbook,", " "},
	}
	names := []string{"ETag", "Last-Modified", "Content-Length", "Location", "Content-Type", "DAV"}
	k := 0
	for _, m := range methods {
		body, ct := "", ""
		switch m.name {
		case "caldav.GetCalendarObject":
			body, ct = icalText, "text/calendar"
		case "carddav.GetAddressObject":
			body, ct = vcardText, "text/vcard"
		case "webdav.Open":
			body = "content"
		}
		for _, status := range []int{200, 201, 204} {
			for _, h := range names {
				for _, v := range pools[h] {
					k++
					if !vev.MyShare(k) {
						continue
					}
					c := Case{Method: m.name, Script: script{Status: status, CT: ct, Body: vev.B(body), Hdr: [][2]string{{h, v}}}}
					if h == "Content-Type" {
						c.Script.CT = ""
					}
					run(t, nil, c, "header-values/"+h)
				}
			}
		}
	}
	rec.ExhaustiveSub("every public client method x status {200,201,204} x one of ETag / Last-Modified / Content-Length / Location / Content-Type / DAV set to each value of its hostile pool")
}

func TestDocuments(t *testing.T) {
	if vev.ReplayFile() != "" {
		t.Skip()
	}
	var multi []methodInfo
	for _, m := range methods {
		if m.multi {
			multi = append(multi, m)
		}
	}
	vev.Rapid(t, rec, 0, vev.N(5000, 400000), func(rt *rapid.T) {
		m := rapid.SampledFrom(multi).Draw(rt, "method")
		d := genDoc(rt, &m)
		c := Case{Method: m.name, Script: script{Status: 207, CT: rapid.SampledFrom([]string{"application/xml; charset=utf-8", "text/xml", ""}).Draw(rt, "ct")}, Doc: &d}
		if rapid.IntRange(0, 5).Draw(rt, "cut") == 0 {
			c.Doc.Cut = rapid.IntRange(1, len(d.render())).Draw(rt, "cutat")
		}
		if rapid.IntRange(0, 9).Draw(rt, "otherstatus") == 0 {
			c.Script.Status = rapid.SampledFrom([]int{200, 201, 204, 206, 404, 500}).Draw(rt, "st")
		}
		c.Script.NoLength = rapid.IntRange(0, 3).Draw(rt, "nolength") == 0
		c.Warm = rapid.SampledFrom([]string{"", "", "", "ok", "error"}).Draw(rt, "warm")
		if rapid.IntRange(0, 6).Draw(rt, "breaks") == 0 {
			k := rapid.IntRange(0, len(c.Doc.render())).Draw(rt, "breaks-at")
			c.Script.BodyFail, c.Script.BodyErr = &k, rapid.SampledFrom([]string{"unexpected-eof", "reset"}).Draw(rt, "breaks-how")
		}
		run(t, rt, c, "doc/"+m.name)
	})
}

func TestArbitraryResponses(t *testing.T) {
	if vev.ReplayFile() != "" {
		t.Skip()
	}
	vev.Rapid(t, rec, 1, vev.N(4000, 300000), func(rt *rapid.T) {
		m := rapid.SampledFrom(methods).Draw(rt, "method")
		c := Case{Method: m.name}
		c.Script.Status = rapid.OneOf(rapid.IntRange(100, 599), rapid.SampledFrom([]int{200, 201, 204, 207, 207, 207, 301, 401, 403, 404, 409, 412, 423, 500, 503, 507})).Draw(rt, "status")
		c.Script.CT = rapid.SampledFrom(cts).Draw(rt, "ct")
		c.Script.Body = vev.B(genBody(rt))
		if rapid.IntRange(0, 3).Draw(rt, "hdrs") == 0 {
			c.Script.Hdr = [][2]string{
				{"ETag", rapid.SampledFrom([]string{`"ok"`, "unquoted", `W/"w"`, "", `"`, ` " `, `""`, `"a"b"`, `'a'`, `"\`}).Draw(rt, "etag")},
				{"Last-Modified", rapid.SampledFrom([]string{"Mon, 02 Jan 2006 15:04:05 GMT", "yesterday", ""}).Draw(rt, "lm")},
				{"Content-Length", rapid.SampledFrom([]string{"12", "-1", "abc", ""}).Draw(rt, "cl")},
				{"Location", rapid.SampledFrom([]string{"/new/path", "http://[::1", "%zz", ""}).Draw(rt, "loc")},
				{"DAV", rapid.SampledFrom([]string{"1, 3, addressbook", "1", "addressbook", ""}).Draw(rt, "dav")},
			}
		}
		if rapid.IntRange(0, 5).Draw(rt, "errdoc") == 0 {
			c.Script.Body = ""
			c.Script.CT = rapid.SampledFrom([]string{"application/xml", "text/xml; charset=utf-8", "Application/XML", "TEXT/XML; charset=\"utf-8\"", "application/XML;charset=UTF-8"}).Draw(rt, "errct")
			c.ErrDoc = rapid.SliceOfN(rapid.SampledFrom([]string{vdav.NSCal + " no-uid-conflict", vdav.NSCard + " valid-address-data", vdav.NSDAV + " lock-token-submitted", "urn:x custom"}), 1, 3).Draw(rt, "conds")
			c.ErrPad = rapid.SampledFrom([]int{0, 0, 0, 900, 1100, 5000, 70000}).Draw(rt, "errpad")
		}
		c.Script.NoLength = rapid.IntRange(0, 3).Draw(rt, "nolength") == 0
		c.Warm = rapid.SampledFrom([]string{"", "", "", "ok", "error"}).Draw(rt, "warm")
		if rapid.IntRange(0, 4).Draw(rt, "breaks") == 0 {
			k := rapid.SampledFrom([]int{0, 1, 10, 100, 500, 1023, 1024, 1025, 5000}).Draw(rt, "breaks-at")
			c.Script.BodyFail, c.Script.BodyErr = &k, rapid.SampledFrom([]string{"unexpected-eof", "reset"}).Draw(rt, "breaks-how")
		}
		if ct := strings.ToLower(c.Script.CT); !success(c.Script.Status) && c.Script.BodyFail == nil && (len(c.ErrDoc) > 0 || ct == "" || strings.HasPrefix(ct, "text/plain")) &&
			rapid.IntRange(0, 5).Draw(rt, "endless") == 0 {
			// only where the client has all it needs after a bounded part of the body (an excerpt of a text, a complete
			// DAV:error document): an XML document that never closes cannot be judged
			c.Script.Endless = true
		}
		run(t, rt, c, fmt.Sprintf("arbitrary/%dxx", c.Script.Status/100))
	})
}

func mustJSON(v any) string {
	b, _ := json.Marshal(v)
	return string(b)
}

// FuzzClient: coverage-guided, thorough tier only; the semantic oracle is
// inside the target (evaluate).
func FuzzClient(f *testing.F) {
	seeds := []string{"", "plain", `<?xml version="1.0"?><D:multistatus xmlns:D="DAV:"><D:response><D:href>/a</D:href><D:propstat><D:prop><D:resourcetype/></D:prop><D:status>HTTP/1.1 200 OK</D:status></D:propstat></D:response></D:multistatus>`,
		`<?xml version="1.0"?><D:error xmlns:D="DAV:"><D:x/></D:error>`, icalText, vcardText, "<a><a><a>", "\xff\xfe<", `<D:multistatus xmlns:D="DAV:"><D:response><D:href>%zz</D:href><D:status>HTTP/1.1 +200 OK</D:status></D:response></D:multistatus>`}
	for i, s := range seeds {
		f.Add(uint8(i*3), uint16(207), uint8(1), []byte(s))
		f.Add(uint8(i*5+1), uint16(404), uint8(2), []byte(s))
	}
	f.Fuzz(func(t *testing.T, mi uint8, status uint16, cti uint8, body []byte) {
		c := Case{Method: methods[int(mi)%len(methods)].name, Script: script{Status: 100 + int(status)%500, CT: cts[int(cti)%len(cts)], Body: vev.B(body)}}
		o, err := evaluate(c)
		if err != nil {
			t.Skip()
		}
		if !o.OK() && !rec.Known(o.Sig) {
			t.Fatalf("%s: %s\ncase: %s", o.Sig, o.Msg, mustJSON(c))
		}
	})
}
