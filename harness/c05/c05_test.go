// C05 — WebDAV client and server agree on names, metadata and content.
package c05

import (
	"bytes"
	"context"
	"encoding/json"
	"fmt"
	"io"
	"os"
	"path"
	"path/filepath"
	"sort"
	"strings"
	"testing"
	"time"
	"unicode/utf8"

	webdav "github.com/emersion/go-webdav"
	"github.com/emersion/go-webdav/verifharness/vdbl"
	"github.com/emersion/go-webdav/verifharness/vev"
	"github.com/emersion/go-webdav/verifharness/vwire"
	"pgregory.net/rapid"
)

var rec = vev.For("C05")

func TestMain(m *testing.M) {
	rec.SetRule("webdav.Client -> wire-faithful adapter -> webdav.Handler over (a) an in-memory FileSystem holding arbitrary metadata, (b) LocalFileSystem on a generated real tree, (c) a recording FileSystem; endpoints with no path, /p, /p/, /p/q/; absolute and relative names. Stat/ReadDir/Open are compared with the backend's own answers, Create with the stored bytes (0 B .. 3 MiB, random chunking), Mkdir/RemoveAll/Copy/Move with the recorded call (resolved names, options). non-trivial = a name needs URL or XML escaping, or the endpoint has a path, or a metadata field is non-default; distinct by canonical JSON of the case")
	rec.Assume("name segments are non-empty, not '.'/'..' and contain no '/'", "MIME types are valid header field values and XML-representable", "modification times lie in years 1-9999; collections are compared on path and kind only", "relative names are compared modulo a trailing slash (path.Join)")
	vev.Main(m)
}

type Entry struct {
	Path  vev.B  `json:"path"` // as the backend reports it
	IsDir bool   `json:"dir,omitempty"`
	Size  int64  `json:"size,omitempty"`
	MTime int64  `json:"mtime,omitempty"` // unix seconds, 0 = unset
	NS    int    `json:"ns,omitempty"`
	Zone  int    `json:"zone,omitempty"`
	TZ    string `json:"tz,omitempty"` // mem backend: the modification time is held in this real zone with DST rules (overrides Zone)
	MIME  string `json:"mime,omitempty"`
	ETag  vev.B  `json:"etag,omitempty"`
}

type Op struct {
	Kind        string `json:"kind"` // stat readdir open create mkdir remove copy move
	Name        vev.B  `json:"name"`
	Dest        vev.B  `json:"dest,omitempty"`
	Recursive   bool   `json:"recursive,omitempty"`
	NilOpts     bool   `json:"nil_opts,omitempty"`
	NoRecursive bool   `json:"no_recursive,omitempty"`
	NoOverwrite bool   `json:"no_overwrite,omitempty"`
	Size        int    `json:"size,omitempty"`
	Chunks      []int  `json:"chunks,omitempty"`
}

type Case struct {
	Backend  string  `json:"backend"`  // mem | local
	Endpoint string  `json:"endpoint"` // path part of the endpoint URL ("" = none)
	Entries  []Entry `json:"entries"`
	Ops      []Op    `json:"ops"`
	// local: how the served directory is spelled when it is configured (after C05-s13): 0 as created, 1 trailing
	// slash, 2 trailing "/.", 3 doubled slash before the last element, 4 "<parent>/./<dir>", 5 relative to the
	// working directory with a leading "./"
	RootSpell int `json:"root_spell,omitempty"`
	// LinkDirs (local backend): every generated collection without members is a symbolic link to a directory outside
	// the served one (after C05-s17)
	LinkDirs bool `json:"link_dirs,omitempty"`
}

func spellRoot(root string, how int) string {
	dir, base := filepath.Split(root)
	switch how {
	case 1:
		return root + "/"
	case 2:
		return root + "/."
	case 3:
		return dir + "/" + base
	case 4:
		return dir + "./" + base
	case 5:
		if wd, err := os.Getwd(); err == nil {
			if rel, err := filepath.Rel(wd, root); err == nil {
				return "./" + rel
			}
		}
	}
	return root
}

const sparseAbove = 100000

func content(p string, n int64) []byte {
	if n > sparseAbove {
		return nil // metadata-only entry (never opened)
	}
	return bulk(p, n)
}

// bulk is content without the sparse rule (upload bodies are always real).
func bulk(p string, n int64) []byte {
	if n <= 0 {
		return nil
	}
	unit := []byte(fmt.Sprintf("[%x]", vev.Hash(p)))
	b := bytes.Repeat(unit, int(n)/len(unit)+1)
	return b[:n]
}

func mtime(e Entry) time.Time {
	if e.MTime == 0 && e.NS == 0 {
		return time.Time{}
	}
	if e.TZ != "" {
		return time.Unix(e.MTime, int64(e.NS)).In(vev.Zone(e.TZ))
	}
	return time.Unix(e.MTime, int64(e.NS)).In(time.FixedZone("", e.Zone))
}

func dev(kind, f string, a ...any) vev.Outcome {
	return vev.Outcome{Sig: vev.Sig(kind), Msg: fmt.Sprintf(f, a...)}
}

func sameInfo(op string, got *webdav.FileInfo, want *webdav.FileInfo) vev.Outcome {
	if got.Path != want.Path || got.IsDir != want.IsDir {
		return dev(op+"|path-or-kind", "%s: client reports path %q dir=%v, backend %q dir=%v", op, got.Path, got.IsDir, want.Path, want.IsDir)
	}
	if want.IsDir {
		return vev.Outcome{}
	}
	if got.Size != want.Size {
		return dev(op+"|size", "%s %q: client size %d, backend %d", op, want.Path, got.Size, want.Size)
	}
	if got.ETag != want.ETag {
		return dev(op+"|etag", "%s %q: client tag %q, backend %q", op, want.Path, got.ETag, want.ETag)
	}
	if got.MIMEType != want.MIMEType {
		return dev(op+"|mime", "%s %q: client type %q, backend %q", op, want.Path, got.MIMEType, want.MIMEType)
	}
	if want.ModTime.IsZero() != got.ModTime.IsZero() || (!want.ModTime.IsZero() && got.ModTime.Unix() != want.ModTime.Unix()) {
		return dev(op+"|modtime", "%s %q: client time %v, backend %v", op, want.Path, got.ModTime, want.ModTime)
	}
	return vev.Outcome{}
}

// expected resolution of a name against the endpoint path (from the statement)
func resolve(endpoint, name string) string {
	if strings.HasPrefix(name, "/") {
		return name
	}
	base := endpoint
	if base == "" {
		base = "/"
	}
	if !strings.HasSuffix(base, "/") {
		base += "/"
	}
	return base + name
}

func trimSlash(p string) string {
	if len(p) > 1 {
		return strings.TrimSuffix(p, "/")
	}
	return p
}

func evaluate(c Case) (o vev.Outcome, err error) {
	defer func() {
		if p := recover(); p != nil {
			o = dev("panic", "panic: %v", p)
		}
	}()
	ctx := context.Background()
	var fs webdav.FileSystem
	var mem *vdbl.MemFS
	var known map[string]bool // local backend: the generated entries and their parents
	created := false           // a Create/Mkdir/Copy/Move went before: the tree is no longer the generated one
	var root string
	switch c.Backend {
	case "mem":
		mem = vdbl.NewMemFS()
		for _, e := range c.Entries {
			p := string(e.Path)
			mem.Add(webdav.FileInfo{Path: p, IsDir: e.IsDir, Size: e.Size, ModTime: mtime(e), MIMEType: e.MIME, ETag: string(e.ETag)}, content(p, e.Size))
		}
		fs = mem
	case "local":
		root, err = os.MkdirTemp("", "c05")
		if err != nil {
			return o, err
		}
		defer os.RemoveAll(root)
		outside := ""
		if c.LinkDirs {
			outside, err = os.MkdirTemp("", "c05out")
			if err != nil {
				return o, err
			}
			defer os.RemoveAll(outside)
		}
		for i, e := range c.Entries {
			p := filepath.Join(root, filepath.FromSlash(string(e.Path)))
			if e.IsDir && c.LinkDirs {
				memberless := true
				for _, e2 := range c.Entries {
					if strings.HasPrefix(trimSlash(string(e2.Path))+"/", trimSlash(string(e.Path))+"/") && trimSlash(string(e2.Path)) != trimSlash(string(e.Path)) {
						memberless = false
					}
				}
				if _, err := os.Lstat(p); memberless && err != nil {
					t := filepath.Join(outside, fmt.Sprintf("t%d", i))
					os.MkdirAll(t, 0o755)
					os.MkdirAll(filepath.Dir(p), 0o755)
					if err := os.Symlink(t, p); err == nil {
						continue
					}
				}
			}
			if e.IsDir {
				if err := os.MkdirAll(p, 0o755); err != nil {
					return o, err
				}
				continue
			}
			os.MkdirAll(filepath.Dir(p), 0o755)
			if err := os.WriteFile(p, content(string(e.Path), e.Size), 0o644); err != nil {
				return o, err
			}
			if e.MTime != 0 {
				os.Chtimes(p, time.Unix(e.MTime, 0), time.Unix(e.MTime, int64(e.NS)))
			}
		}
		fs = webdav.LocalFileSystem(spellRoot(root, c.RootSpell))
		known = map[string]bool{"/": true}
		for _, e := range c.Entries {
			for p := trimSlash(string(e.Path)); p != "/" && p != "." && p != ""; p = path.Dir(p) {
				known[p] = true
			}
		}
	default:
		return o, fmt.Errorf("unknown backend %q", c.Backend)
	}
	hc, _ := vwire.Client(&webdav.Handler{FileSystem: fs})
	cl, err := webdav.NewClient(hc, "http://dav.example"+c.Endpoint)
	if err != nil {
		return o, err
	}
	for _, op := range c.Ops {
		name := string(op.Name)
		abs := resolve(c.Endpoint, name)
		switch op.Kind {
		case "stat":
			want, werr := fs.Stat(ctx, abs)
			if werr != nil && !strings.HasPrefix(name, "/") {
				want, werr = fs.Stat(ctx, trimSlash(abs))
			}
			got, gerr := cl.Stat(ctx, name)
			if (werr != nil) != (gerr != nil) {
				return dev("stat|error-mismatch", "Stat(%q): backend error %v, client error %v", name, werr, gerr), nil
			}
			if werr == nil {
				if !strings.HasPrefix(name, "/") {
					got.Path, want.Path = trimSlash(got.Path), trimSlash(want.Path)
				}
				if o := sameInfo("stat", got, want); !o.OK() {
					return o, nil
				}
			}
		case "readdir":
			want, werr := fs.ReadDir(ctx, trimSlashIfRel(name, abs), op.Recursive)
			got, gerr := cl.ReadDir(ctx, name, op.Recursive)
			if (werr != nil) != (gerr != nil) {
				return dev("readdir|error-mismatch", "ReadDir(%q,%v): backend error %v, client error %v", name, op.Recursive, werr, gerr), nil
			}
			if werr != nil {
				continue
			}
			for _, fi := range want {
				// local backend: what it lists must be one of the generated entries (or a parent of one) - an expectation
				// that does not come from the backend itself
				if known != nil && !created && !known[trimSlash(fi.Path)] {
					return dev("readdir|backend-lists-unknown-path", "LocalFileSystem.ReadDir(%q,%v) lists %q, which is none of the generated entries (root spelling %d)", name, op.Recursive, fi.Path, c.RootSpell), nil
				}
			}
			if known != nil && !created {
				// ... and every generated entry inside the listed collection is listed: the second expectation that does
				// not come from the backend itself (a listing cut short would otherwise be mirrored faithfully)
				dir := path.Clean(trimSlash(abs))
				listed := map[string]bool{}
				for _, fi := range want {
					listed[path.Clean(trimSlash(fi.Path))] = true
				}
				for k := range known {
					kk := path.Clean(k)
					in := kk == dir || path.Dir(kk) == dir
					if op.Recursive {
						in = kk == dir || dir == "/" || strings.HasPrefix(kk, dir+"/")
					}
					if in && !listed[kk] {
						return dev("readdir|backend-omits-generated-entry", "LocalFileSystem.ReadDir(%q,%v) lists %q and omits the generated entry %q (links for memberless collections: %v)", name, op.Recursive, paths(want), kk, c.LinkDirs), nil
					}
				}
			}
			sort.Slice(want, func(i, j int) bool { return want[i].Path < want[j].Path })
			sort.Slice(got, func(i, j int) bool { return got[i].Path < got[j].Path })
			if len(got) != len(want) {
				return dev("readdir|members", "ReadDir(%q,%v): client lists %q, backend %q", name, op.Recursive, paths(got), paths(want)), nil
			}
			for i := range want {
				if o := sameInfo("readdir", &got[i], &want[i]); !o.OK() {
					return o, nil
				}
				// addressable again under the reported path
				again, err := cl.Stat(ctx, got[i].Path)
				if err != nil {
					return dev("readdir|not-readdressable", "ReadDir(%q) reported %q but Stat of it fails: %v", name, got[i].Path, err), nil
				}
				if again.IsDir != want[i].IsDir || (!want[i].IsDir && (again.Size != want[i].Size || again.ETag != want[i].ETag)) {
					return dev("readdir|readdressed-other", "ReadDir(%q) reported %q but Stat of it names another resource (%+v vs %+v)", name, got[i].Path, again, want[i]), nil
				}
			}
		case "open":
			var want []byte
			rc, werr := fs.Open(ctx, abs)
			if werr == nil {
				want, _ = io.ReadAll(rc)
				rc.Close()
			}
			st, serr := fs.Stat(ctx, abs)
			if serr != nil || st.IsDir || st.Size > sparseAbove {
				continue
			}
			grc, gerr := cl.Open(ctx, name)
			if gerr != nil {
				return dev("open|error", "Open(%q) failed: %v (backend error %v)", name, gerr, werr), nil
			}
			got, _ := io.ReadAll(grc)
			grc.Close()
			if !bytes.Equal(got, want) {
				return dev("open|content", "Open(%q): client read %d bytes (%.40q), backend holds %d (%.40q)", name, len(got), got, len(want), want), nil
			}
		case "create":
			created = true
			data := bulk("create:"+name, int64(op.Size))
			w, err := cl.Create(ctx, name)
			if err != nil {
				return dev("create|error", "Create(%q): %v", name, err), nil
			}
			off := 0
			for _, n := range op.Chunks {
				if off+n > len(data) {
					n = len(data) - off
				}
				if n <= 0 {
					break
				}
				if _, err := w.Write(data[off : off+n]); err != nil {
					return dev("create|write-error", "Create(%q) write: %v", name, err), nil
				}
				off += n
			}
			if off < len(data) {
				if _, err := w.Write(data[off:]); err != nil {
					return dev("create|write-error", "Create(%q) write: %v", name, err), nil
				}
			}
			if err := w.Close(); err != nil {
				return dev("create|close-error", "Create(%q) close: %v", name, err), nil
			}
			var stored []byte
			if mem != nil {
				for _, call := range mem.Log() {
					if call.Op == "Create" {
						if trimSlash(call.Name) != trimSlash(abs) {
							return dev("create|name", "Create(%q) reached the backend as %q, want %q", name, call.Name, abs), nil
						}
						stored = call.Body
					}
				}
				mem.Reset()
			} else {
				stored, _ = os.ReadFile(filepath.Join(root, filepath.FromSlash(abs)))
			}
			if !bytes.Equal(stored, data) {
				return dev("create|content", "Create(%q): %d bytes written, %d stored, first difference at %d", name, len(data), len(stored), firstDiff(stored, data)), nil
			}
		case "mkdir", "remove", "copy", "move":
			if mem == nil {
				return o, fmt.Errorf("mutating ops need the recording backend")
			}
			mem.Reset()
			var cerr error
			dest := string(op.Dest)
			switch op.Kind {
			case "mkdir":
				cerr = cl.Mkdir(ctx, name)
			case "remove":
				cerr = cl.RemoveAll(ctx, name)
			case "copy":
				var opts *webdav.CopyOptions
				if !op.NilOpts {
					opts = &webdav.CopyOptions{NoRecursive: op.NoRecursive, NoOverwrite: op.NoOverwrite}
				}
				cerr = cl.Copy(ctx, name, dest, opts)
			case "move":
				var opts *webdav.MoveOptions
				if !op.NilOpts {
					opts = &webdav.MoveOptions{NoOverwrite: op.NoOverwrite}
				}
				cerr = cl.Move(ctx, name, dest, opts)
			}
			if cerr != nil {
				return dev(op.Kind+"|error", "%s(%q,%q): %v", op.Kind, name, dest, cerr), nil
			}
			want := map[string]string{"mkdir": "Mkdir", "remove": "RemoveAll", "copy": "Copy", "move": "Move"}[op.Kind]
			var calls []vdbl.FSCall
			for _, call := range mem.Log() {
				if call.Op == want {
					calls = append(calls, call)
				}
			}
			if len(calls) != 1 {
				return dev(op.Kind+"|calls", "%s(%q,%q): backend saw %d %s calls (%+v)", op.Kind, name, dest, len(calls), want, mem.Log()), nil
			}
			call := calls[0]
			if trimSlashIfRel(name, call.Name) != trimSlashIfRel(name, abs) {
				return dev(op.Kind+"|name", "%s(%q): backend addressed %q, want %q", op.Kind, name, call.Name, abs), nil
			}
			if op.Kind == "copy" || op.Kind == "move" {
				wantDest := resolve(c.Endpoint, dest)
				if trimSlashIfRel(dest, call.Dest) != trimSlashIfRel(dest, wantDest) {
					return dev(op.Kind+"|dest", "%s(%q,%q): backend destination %q, want %q", op.Kind, name, dest, call.Dest, wantDest), nil
				}
				nr, no := op.NoRecursive && !op.NilOpts, op.NoOverwrite && !op.NilOpts
				if op.Kind == "move" {
					nr = false
				}
				if call.NoRecursive != nr || call.NoOverwrite != no {
					return dev(op.Kind+"|options", "%s(%q,%q) nil=%v NoRecursive=%v NoOverwrite=%v reached the backend as NoRecursive=%v NoOverwrite=%v", op.Kind, name, dest, op.NilOpts, op.NoRecursive, op.NoOverwrite, call.NoRecursive, call.NoOverwrite), nil
				}
			}
		default:
			return o, fmt.Errorf("unknown op %q", op.Kind)
		}
	}
	// the same client and handler once more after the backend's metadata and content changed under the same names:
	// what a call reports is what the backend holds at the time of that call (no state kept between calls)
	if mem != nil {
		n := 0
		var names []string
		for p := range mem.Files {
			names = append(names, p)
		}
		sort.Strings(names)
		for _, p := range names {
			f := mem.Files[p]
			if f.Info.IsDir || f.Info.Size > sparseAbove {
				continue
			}
			f.Data = append([]byte("changed:"), f.Data...)
			f.Info.Size = int64(len(f.Data))
			f.Info.ETag += "-2"
			f.Info.ModTime = f.Info.ModTime.Add(90 * time.Minute)
			f.Info.MIMEType = "application/x-changed"
			want, werr := fs.Stat(ctx, p)
			got, gerr := cl.Stat(ctx, p)
			if werr != nil || gerr != nil {
				return dev("again|stat|error", "second round Stat(%q): backend %v, client %v", p, werr, gerr), nil
			}
			if o := sameInfo("again|stat", got, want); !o.OK() {
				return o, nil
			}
			if rc, err := cl.Open(ctx, p); err != nil {
				return dev("again|open|error", "second round Open(%q): %v", p, err), nil
			} else {
				data, _ := io.ReadAll(rc)
				rc.Close()
				if !bytes.Equal(data, f.Data) {
					return dev("again|open|content", "second round Open(%q): client read %.40q, backend holds %.40q", p, data, f.Data), nil
				}
			}
			if n++; n >= 3 {
				break
			}
		}
	}
	return vev.Outcome{}, nil
}

func trimSlashIfRel(name, p string) string {
	if strings.HasPrefix(name, "/") {
		return p
	}
	return trimSlash(p)
}

func firstDiff(a, b []byte) int {
	for i := 0; i < len(a) && i < len(b); i++ {
		if a[i] != b[i] {
			return i
		}
	}
	if len(a) < len(b) {
		return len(a)
	}
	return len(b)
}

func paths(l []webdav.FileInfo) []string {
	var p []string
	for _, x := range l {
		p = append(p, x.Path)
	}
	return p
}

// ---------------------------------------------------------------------------
// generators

var segPool = []string{"a", "b c", "é", "x%20y", "q?#", "d+;e", `"'<&>`, ".h", "..x", `a\b`, "%", "t.txt", "Ünï", "a=b&c", "~", "[1]", "%41", "a#b", "100%", "?", "#", ";", " lead", "trail ", "a:b", "*", "💥", "\x01", "\x7f", "tab\there", "a\x80b"}

func genSeg() *rapid.Generator[string] {
	return rapid.OneOf(rapid.SampledFrom(segPool), rapid.SampledFrom(segPool), rapid.Custom(func(rt *rapid.T) string {
		s := rapid.StringMatching(`[a-zA-Z0-9 %#?;+'"<>&=~éü.\\:*\[\]\x01-\x1f\x7f-\xff-]{1,8}`).Draw(rt, "seg")
		s = strings.ReplaceAll(s, "/", "")
		if s == "" || s == "." || s == ".." {
			return "x"
		}
		return s
	}))
}

func needsEscaping(s string) bool {
	if !utf8.ValidString(s) {
		return true
	}
	for _, r := range s {
		if r < 0x21 || r > 0x7e || strings.ContainsRune(`"%#?;+'<>&\`, r) {
			return true
		}
	}
	return false
}

var endpoints = []string{"", "/", "/p", "/p/", "/p/q/", "/p q/é/"}

var mimes = []string{"", "text/plain", "application/octet-stream", "text/plain; charset=utf-8", `x/y; a="b c"`, "weird<&>type", "é/ü", "text/html"}

func genEntries(rt *rapid.T, endpoint string, local bool) []Entry {
	base := endpoint
	if base == "" {
		base = "/"
	}
	if !strings.HasSuffix(base, "/") {
		base += "/"
	}
	var l []Entry
	// the collections leading to the endpoint
	acc := ""
	for _, s := range strings.Split(strings.Trim(base, "/"), "/") {
		if s == "" {
			continue
		}
		acc += "/" + s
		l = append(l, Entry{Path: vev.B(acc), IsDir: true})
	}
	if !local {
		l = append(l, Entry{Path: "/", IsDir: true})
	}
	var add func(prefix string, depth int)
	seen := map[string]bool{}
	add = func(prefix string, depth int) {
		n := rapid.IntRange(0, 3).Draw(rt, "nkids")
		for i := 0; i < n; i++ {
			seg := genSeg().Draw(rt, "seg")
			if local && (strings.ContainsRune(seg, 0) || len(seg) > 100) {
				seg = "n"
			}
			p := prefix + seg
			if seen[p] {
				continue
			}
			seen[p] = true
			if depth > 0 && rapid.IntRange(0, 2).Draw(rt, "isdir") == 0 {
				e := Entry{Path: vev.B(p), IsDir: true}
				if !local && rapid.Bool().Draw(rt, "dirslash") {
					e.Path = vev.B(p + "/")
				}
				l = append(l, e)
				add(p+"/", depth-1)
				continue
			}
			e := Entry{Path: vev.B(p)}
			e.Size = int64(rapid.SampledFrom([]int{0, 1, 5, 17, 300, 5000, 40000, 70000}).Draw(rt, "size"))
			if !local && rapid.IntRange(0, 5).Draw(rt, "huge") == 0 {
				e.Size = rapid.SampledFrom([]int64{1 << 31, 1<<32 + 5, 1 << 40, 1<<62 + 1, 9223372036854775807}).Draw(rt, "hugesize")
			}
			if rapid.IntRange(0, 3).Draw(rt, "hastime") != 0 {
				e.MTime = rapid.Int64Range(-62135510400, 253402214400).Draw(rt, "mtime")
				if rapid.Bool().Draw(rt, "recent") {
					e.MTime = rapid.Int64Range(1, 2e9).Draw(rt, "mtime-recent")
				}
				e.NS = rapid.SampledFrom([]int{0, 0, 1, 999999999}).Draw(rt, "ns")
				e.Zone = rapid.SampledFrom([]int{0, 3600, -34200}).Draw(rt, "zone")
				if !local && rapid.IntRange(0, 3).Draw(rt, "realzone") == 0 {
					// a backend that keeps local times: instants within two hours of an offset change of a real zone
					e.TZ = rapid.SampledFrom(vev.Zones).Draw(rt, "tz")
					if tr := vev.Transitions(e.TZ); len(tr) > 0 {
						e.MTime = tr[rapid.IntRange(0, len(tr)-1).Draw(rt, "transition")] + rapid.Int64Range(-7300, 7300).Draw(rt, "delta")
					}
				}
			}
			if !local {
				e.MIME = rapid.SampledFrom(mimes).Draw(rt, "mime")
				e.ETag = vev.B(rapid.SampledFrom([]string{"", "abc", `W/"x\y" é`, "a\x00\x80", `"`, "1a2b3c", "a b", `"quoted"`}).Draw(rt, "etag"))
			}
			l = append(l, e)
		}
	}
	add(base, 2)
	return l
}

func relName(endpoint, abs string) (string, bool) {
	base := endpoint
	if base == "" {
		base = "/"
	}
	if !strings.HasSuffix(base, "/") {
		base += "/"
	}
	if strings.HasPrefix(abs, base) && len(abs) > len(base) {
		rel := abs[len(base):]
		if path.Join(base, rel) == trimSlash(abs) && !strings.HasPrefix(rel, "/") {
			return rel, true
		}
	}
	return "", false
}

func genName(rt *rapid.T, c *Case, label string) string {
	var abs string
	if len(c.Entries) > 0 && rapid.IntRange(0, 4).Draw(rt, label+"-existing") != 0 {
		abs = string(rapid.SampledFrom(c.Entries).Draw(rt, label+"-entry").Path)
	} else {
		base := c.Endpoint
		if !strings.HasSuffix(base, "/") {
			base += "/"
		}
		abs = base + genSeg().Draw(rt, label+"-newseg")
	}
	if rapid.Bool().Draw(rt, label+"-relative") {
		if rel, ok := relName(c.Endpoint, abs); ok {
			return rel
		}
	}
	return abs
}

func nontrivial(c Case) bool {
	if c.Endpoint != "" && c.Endpoint != "/" {
		return true
	}
	for _, op := range c.Ops {
		if needsEscaping(string(op.Name)) || needsEscaping(string(op.Dest)) {
			return true
		}
	}
	for _, e := range c.Entries {
		if needsEscaping(string(e.Path)) || e.MIME != "" || e.ETag != "" || e.MTime != 0 {
			return true
		}
	}
	return false
}

func run(t *testing.T, rt *rapid.T, c Case, class string) {
	rec.Case(class, nontrivial(c), mustJSON(c), func() any { return c })
	o, err := evaluate(c)
	if err != nil {
		if rt != nil {
			rt.Fatalf("harness: %v", err)
		}
		t.Fatalf("harness: %v", err)
	}
	if o.OK() || rec.Known(o.Sig) {
		return
	}
	if rt != nil {
		rec.Fail(rt, o.Sig, "c05", c, "%s", o.Msg)
	} else {
		rec.Violation(t, o.Sig, "c05", c, "%s", o.Msg)
	}
}

func TestAReplay(t *testing.T) {
	vev.RunReplays(t, rec, func(kind string, raw json.RawMessage) (vev.Outcome, error) {
		var c Case
		if err := json.Unmarshal(raw, &c); err != nil {
			return vev.Outcome{}, err
		}
		return evaluate(c)
	})
}

func TestRead(t *testing.T) {
	if vev.ReplayFile() != "" {
		t.Skip()
	}
	vev.Rapid(t, rec, 0, vev.N(700, 60000), func(rt *rapid.T) {
		c := Case{Backend: rapid.SampledFrom([]string{"mem", "mem", "local"}).Draw(rt, "backend"), Endpoint: rapid.SampledFrom(endpoints).Draw(rt, "endpoint")}
		c.Entries = genEntries(rt, c.Endpoint, c.Backend == "local")
		if c.Backend == "local" {
			c.RootSpell = rapid.SampledFrom([]int{0, 0, 1, 2, 3, 4, 5}).Draw(rt, "rootspell")
			c.LinkDirs = rapid.IntRange(0, 2).Draw(rt, "linkdirs") == 0
		}
		n := rapid.IntRange(1, 5).Draw(rt, "nops")
		for i := 0; i < n; i++ {
			op := Op{Kind: rapid.SampledFrom([]string{"stat", "stat", "readdir", "readdir", "open"}).Draw(rt, "kind")}
			op.Name = vev.B(genName(rt, &c, "name"))
			if op.Kind == "readdir" {
				op.Recursive = rapid.Bool().Draw(rt, "recursive")
				// mostly collections
				var dirs []Entry
				for _, e := range c.Entries {
					if e.IsDir {
						dirs = append(dirs, e)
					}
				}
				if len(dirs) > 0 && rapid.IntRange(0, 5).Draw(rt, "ondir") != 0 {
					abs := string(rapid.SampledFrom(dirs).Draw(rt, "dir").Path)
					op.Name = vev.B(abs)
					if rel, ok := relName(c.Endpoint, abs); ok && rapid.Bool().Draw(rt, "dirrel") {
						op.Name = vev.B(rel)
					}
				}
			}
			c.Ops = append(c.Ops, op)
		}
		run(t, rt, c, "read/"+c.Backend)
	})
}

func TestMutate(t *testing.T) {
	if vev.ReplayFile() != "" {
		t.Skip()
	}
	vev.Rapid(t, rec, 1, vev.N(1500, 100000), func(rt *rapid.T) {
		c := Case{Backend: "mem", Endpoint: rapid.SampledFrom(endpoints).Draw(rt, "endpoint")}
		c.Entries = genEntries(rt, c.Endpoint, false)
		n := rapid.IntRange(1, 4).Draw(rt, "nops")
		for i := 0; i < n; i++ {
			op := Op{Kind: rapid.SampledFrom([]string{"mkdir", "remove", "copy", "copy", "move", "move"}).Draw(rt, "kind")}
			op.Name = vev.B(genName(rt, &c, "name"))
			if op.Kind == "copy" || op.Kind == "move" {
				op.Dest = vev.B(genName(rt, &c, "dest"))
				op.NilOpts = rapid.IntRange(0, 3).Draw(rt, "nilopts") == 0
				op.NoRecursive = rapid.Bool().Draw(rt, "norec")
				op.NoOverwrite = rapid.Bool().Draw(rt, "noow")
			}
			c.Ops = append(c.Ops, op)
		}
		run(t, rt, c, "mutate")
	})
}

func TestCreate(t *testing.T) {
	if vev.ReplayFile() != "" {
		t.Skip()
	}
	vev.Rapid(t, rec, 2, vev.N(150, 6000), func(rt *rapid.T) {
		c := Case{Backend: rapid.SampledFrom([]string{"mem", "local"}).Draw(rt, "backend"), Endpoint: rapid.SampledFrom(endpoints).Draw(rt, "endpoint")}
		// only the collections leading to the endpoint
		acc := ""
		for _, s := range strings.Split(strings.Trim(c.Endpoint, "/"), "/") {
			if s != "" {
				acc += "/" + s
				c.Entries = append(c.Entries, Entry{Path: vev.B(acc), IsDir: true})
			}
		}
		seg := genSeg().Draw(rt, "seg")
		if c.Backend == "local" && strings.ContainsRune(seg, 0) {
			seg = "n"
		}
		op := Op{Kind: "create", Name: vev.B(seg)}
		if rapid.Bool().Draw(rt, "absolute") {
			op.Name = vev.B(resolve(c.Endpoint, seg))
		}
		op.Size = rapid.SampledFrom([]int{0, 1, 2, 4095, 4096, 32768, 65537, 1 << 20, 3<<20 + 17}).Draw(rt, "size")
		if op.Size > 0 {
			k := rapid.IntRange(0, 6).Draw(rt, "nchunks")
			for i := 0; i < k; i++ {
				op.Chunks = append(op.Chunks, rapid.IntRange(1, op.Size).Draw(rt, "chunk"))
			}
			if rapid.IntRange(0, 9).Draw(rt, "bytewise") == 0 && op.Size <= 4096 {
				op.Chunks = nil
				for i := 0; i < op.Size; i++ {
					op.Chunks = append(op.Chunks, 1)
				}
			}
		}
		c.Ops = []Op{op}
		run(t, rt, c, "create/"+c.Backend)
	})
}

func mustJSON(v any) string {
	b, _ := json.Marshal(v)
	return string(b)
}
