// C04 — If-Match / If-None-Match preconditions are honoured exactly.
package c04

import (
	"time"
	"path"
	"bufio"
	"encoding/json"
	"fmt"
	"net/http"
	"net/http/httptest"
	"os"
	"path/filepath"
	"strings"
	"testing"
	"unicode/utf8"

	webdav "github.com/emersion/go-webdav"
	"github.com/emersion/go-webdav/caldav"
	"github.com/emersion/go-webdav/carddav"
	"github.com/emersion/go-webdav/internal"
	"github.com/emersion/go-webdav/verifharness/cfs"
	"github.com/emersion/go-webdav/verifharness/vdbl"
	"github.com/emersion/go-webdav/verifharness/vev"
	"github.com/emersion/go-webdav/verifharness/vfs"
	"pgregory.net/rapid"
)

var rec = vev.For("C04")

func TestMain(m *testing.M) {
	rec.SetRule("(1) complete truth table on the real file server: resource state {absent,file,collection,file behind a symbolic link,file dated at or before the epoch} x If-Match {unset,*,current,stale,other,the empty tag,6 malformed forms} x If-None-Match likewise x {PUT,DELETE}; (2) rapid: tag announced by PUT/GET/HEAD/PROPFIND for random names/contents is one string and works when sent back; (3) rapid: ConditionalMatch helper laws over arbitrary strings; (4) rapid: CalDAV/CardDAV PUT hands arbitrary header values to the backend unaltered. non-trivial = (1) a conditional header is set and the resource exists, (2) always, (3)/(4) the tag/value contains a quote, backslash, non-ASCII or control byte; distinct by canonical case")
	rec.Assume("a stale tag is produced by rewriting the file with a different size (entity tags contain mtime+size, ext4 mtimes are jiffy-granular)", "header values in (4) are single-line field values without leading/trailing blanks, as net/http delivers them", "the current/stale tag of a collection cannot be obtained through the protocol and is not used")
	vev.Main(m)
}

// ---------------------------------------------------------------------------
// part 1: truth table

type Row struct {
	State   string `json:"state"` // absent | file | collection
	Method  string `json:"method"`
	IfMatch string `json:"if_match"`      // symbolic: "", "*", "$CUR", "$STALE", or literal
	IfNone  string `json:"if_none_match"` // same
}

func treeFor(state string) *vfs.Node {
	t := vfs.NewDir()
	t.Kids["keep"] = vfs.NewFile("keep")
	switch state {
	case "file", "linked-file", "epoch-file", "ancient-file":
		t.Kids["t"] = vfs.NewFile("v1")
	case "collection":
		d := vfs.NewDir()
		d.Kids["x"] = vfs.NewFile("1")
		t.Kids["t"] = d
	}
	return t
}

func runRow(row Row) (vev.Outcome, error) {
	dir, err := os.MkdirTemp("", "c04")
	if err != nil {
		return vev.Outcome{}, err
	}
	defer os.RemoveAll(dir)
	root := filepath.Join(dir, "root")
	srv := cfs.NewServer(root)
	// obtain a stale tag: a file of another size at the same place, then replaced
	stale := ""
	pre := vfs.NewDir()
	pre.Kids["t"] = vfs.NewFile("older and longer content")
	if err := cfs.Sync(root, nil, pre); err != nil {
		return vev.Outcome{}, err
	}
	stale = srv.CurrentTag("/t")
	if stale == "" {
		return vev.Outcome{}, fmt.Errorf("no tag for the stale file")
	}
	before := treeFor(row.State)
	if err := cfs.Sync(root, pre, before); err != nil {
		return vev.Outcome{}, err
	}
	sub := func(v string) string {
		if v == "$STALE" {
			return stale
		}
		return v
	}
	if row.State == "epoch-file" || row.State == "ancient-file" {
		// a file last modified at the Unix epoch, or before it (after C04-s14): still a resource with a tag
		when := time.Unix(0, 0)
		if row.State == "ancient-file" {
			when = time.Unix(-1000000000, 0)
		}
		if err := os.Chtimes(filepath.Join(root, "t"), when, when); err != nil {
			return vev.Outcome{}, err
		}
	}
	if row.State == "linked-file" {
		// the resource is a symbolic link to a regular file kept outside the served directory (after C04-s12): its
		// tag, wherever it is announced or compared, is that of the file it refers to
		if err := cfs.Linkify(root, "t", filepath.Join(dir, "outside")); err != nil {
			return vev.Outcome{}, err
		}
	}
	r := vfs.Req{Method: row.Method, Path: "/t", Body: "new-body", IfMatch: sub(row.IfMatch), IfNoneMatch: sub(row.IfNone)}
	if row.State != "absent" && row.State != "collection" && (srv.CurrentTag("/t") == stale) {
		return vev.Outcome{}, fmt.Errorf("stale tag equals the current one")
	}
	resp, err := srv.Do(r)
	if err != nil {
		return vev.Outcome{}, err
	}
	after, err := cfs.Snapshot(root)
	if err != nil {
		return vev.Outcome{}, err
	}
	st := cfs.Step{Before: before, Req: r, Resp: resp, After: after}
	// signature uses the symbolic row, not the concrete tag
	o := cfs.CheckC01(st, srv)
	if !o.OK() {
		o.Sig = vev.Sig("table", row.State, row.Method, "im="+symClass(row.IfMatch), "inm="+symClass(row.IfNone), fmt.Sprintf("status=%d", resp.Status))
	}
	return o, nil
}

func symClass(v string) string {
	switch v {
	case "":
		return "-"
	case "*":
		return "star"
	case "$CUR":
		return "current"
	case "$STALE":
		return "stale"
	case `"other"`:
		return "other"
	case `""`:
		return "empty-tag"
	case `"*"`:
		return "quoted-star"
	}
	return "malformed"
}

var condValues = []string{"", "*", "$CUR", "$STALE", `"other"`, `""`, `"*"`, "abc", `W/"x"`, `"a", "b"`, `"abc`, `'a'`, "`abc`"}

func TestTruthTable(t *testing.T) {
	if vev.ReplayFile() != "" {
		t.Skip()
	}
	idx := 0
	for _, state := range []string{"absent", "file", "collection", "linked-file", "epoch-file", "ancient-file"} {
		for _, m := range []string{"PUT", "DELETE"} {
			for _, im := range condValues {
				for _, inm := range condValues {
					if (state == "absent" || state == "collection") && (im == "$CUR" || inm == "$CUR") {
						continue
					}
					idx++
					if !vev.MyShare(idx) {
						continue
					}
					row := Row{State: state, Method: m, IfMatch: im, IfNone: inm}
					rec.Case("table/"+state, state != "absent" && (im != "" || inm != ""), "table"+mustJSON(row), func() any { return row })
					o, err := runRow(row)
					if err != nil {
						t.Fatalf("row %+v: %v", row, err)
					}
					if !o.OK() && !rec.Known(o.Sig) {
						rec.Violation(t, o.Sig, "table", row, "%s", o.Msg)
					}
				}
			}
		}
	}
	rec.ExhaustiveSub("truth table: 6 resource states (absent, file, collection, file behind a symbolic link, file last modified at the epoch, file last modified before it) x 11 If-Match values x 11 If-None-Match values x {PUT,DELETE} (current tag only for files)")
}

// ---------------------------------------------------------------------------
// part 2: tag agreement

type Agree struct {
	Name    string `json:"name"`
	Content string `json:"content"`
	Linked  bool   `json:"linked,omitempty"` // after its creation the file is moved out of the served directory and a symbolic link left in its place
}

func runAgree(a Agree) (vev.Outcome, error) {
	dir, err := os.MkdirTemp("", "c04")
	if err != nil {
		return vev.Outcome{}, err
	}
	defer os.RemoveAll(dir)
	root := filepath.Join(dir, "root")
	os.MkdirAll(root, 0o755)
	srv := cfs.NewServer(root)
	p := "/" + a.Name
	dev := func(kind, f string, x ...any) (vev.Outcome, error) {
		return vev.Outcome{Sig: vev.Sig("agree", kind), Msg: fmt.Sprintf("name %q: ", a.Name) + fmt.Sprintf(f, x...)}, nil
	}
	put, err := srv.Do(vfs.Req{Method: "PUT", Path: p, Body: a.Content})
	if err != nil {
		return vev.Outcome{}, err
	}
	if put.Status != 201 {
		return dev("put-status", "initial PUT answered %d", put.Status)
	}
	tag := put.Header.Get("ETag")
	if a.Linked {
		if err := cfs.Linkify(root, a.Name, filepath.Join(dir, "outside")); err != nil {
			return vev.Outcome{}, err
		}
	}
	get, _ := srv.Do(vfs.Req{Method: "GET", Path: p})
	head, _ := srv.Do(vfs.Req{Method: "HEAD", Path: p})
	pf, _ := srv.Do(vfs.Req{Method: "PROPFIND", Path: p, Depth: "0"})
	if tag == "" || get.Header.Get("ETag") != tag || head.Header.Get("ETag") != tag {
		return dev("header-mismatch", "PUT announced %q, GET %q, HEAD %q", tag, get.Header.Get("ETag"), head.Header.Get("ETag"))
	}
	reps, err := cfs.ParseMultiStatus(pf.Body)
	if err != nil || len(reps) != 1 || reps[0].ETag == nil || *reps[0].ETag != tag {
		return dev("propfind-mismatch", "PUT announced %q, PROPFIND body %.300q (err %v)", tag, pf.Body, err)
	}
	// other spellings of the same request path address the same resource and announce the same tag (added after
	// seeded change C04-s7), and so does the listing of the parent
	for _, sp := range []string{"//" + a.Name, "/./" + a.Name, "/x/../" + a.Name, p + "/"} {
		g, _ := srv.Do(vfs.Req{Method: "GET", Path: sp})
		if g.Status != 200 {
			continue
		}
		if g.Header.Get("ETag") != tag {
			return dev("spelling-mismatch", "GET %q announces %q, GET %q announced %q", sp, g.Header.Get("ETag"), p, tag)
		}
		if h, _ := srv.Do(vfs.Req{Method: "HEAD", Path: sp}); h.Status == 200 && h.Header.Get("ETag") != tag {
			return dev("spelling-mismatch", "HEAD %q announces %q, want %q", sp, h.Header.Get("ETag"), tag)
		}
		if r, _ := srv.Do(vfs.Req{Method: "PUT", Path: sp, Body: a.Content + "+", IfNoneMatch: tag}); r.Status != 412 {
			return dev("spelling-if-none-match", "PUT %q If-None-Match: current tag answered %d, want 412", sp, r.Status)
		}
	}
	if lst, _ := srv.Do(vfs.Req{Method: "PROPFIND", Path: "/", Depth: "1"}); lst.Status == 207 {
		if lreps, err := cfs.ParseMultiStatus(lst.Body); err == nil {
			for _, lr := range lreps {
				if lr.Path == path.Clean(p) && (lr.ETag == nil || *lr.ETag != tag) {
					return dev("listing-mismatch", "the Depth 1 listing of / reports %v for %q, PUT announced %q", lr.ETag, p, tag)
				}
			}
		}
	}
	// the announced tag is accepted back
	if r, _ := srv.Do(vfs.Req{Method: "PUT", Path: p, Body: a.Content + "+", IfNoneMatch: tag}); r.Status != 412 {
		return dev("if-none-match-current", "PUT If-None-Match: current tag answered %d, want 412", r.Status)
	}
	if r, _ := srv.Do(vfs.Req{Method: "DELETE", Path: p, IfNoneMatch: tag}); r.Status != 412 {
		return dev("delete-if-none-match-current", "DELETE If-None-Match: current tag answered %d, want 412", r.Status)
	}
	if lfi, err := os.Lstat(filepath.Join(root, a.Name)); a.Linked && (err != nil || lfi.Mode()&os.ModeSymlink == 0) {
		return dev("changed-by-412", "the symbolic link was replaced by refused requests")
	}
	if b, _ := os.ReadFile(filepath.Join(root, a.Name)); string(b) != a.Content {
		return dev("changed-by-412", "content changed by refused requests")
	}
	r2, _ := srv.Do(vfs.Req{Method: "PUT", Path: p, Body: a.Content + "++", IfMatch: tag})
	if r2.Status != 200 && r2.Status != 204 {
		return dev("if-match-current", "PUT If-Match: current tag answered %d, want 200/204", r2.Status)
	}
	tag2 := r2.Header.Get("ETag")
	if tag2 == tag {
		return dev("tag-not-changed", "tag unchanged (%q) after the content changed size", tag)
	}
	if r, _ := srv.Do(vfs.Req{Method: "DELETE", Path: p, IfMatch: tag}); r.Status != 412 {
		return dev("delete-if-match-stale", "DELETE If-Match: stale tag answered %d, want 412", r.Status)
	}
	if r, _ := srv.Do(vfs.Req{Method: "DELETE", Path: p, IfMatch: tag2}); r.Status != 200 && r.Status != 204 {
		return dev("delete-if-match-current", "DELETE If-Match: current tag answered %d, want 200/204", r.Status)
	}
	return vev.Outcome{}, nil
}

func TestTagAgreement(t *testing.T) {
	if vev.ReplayFile() != "" {
		t.Skip()
	}
	names := rapid.OneOf(rapid.SampledFrom([]string{"a", "b c", "é", "x%20y", "q?#", `"'<&>`, ".h", `a\b`, "t.txt", "a.html"}), rapid.StringMatching(`[a-zA-Z0-9 %#?;+'"<>&=~éü.-]{1,12}`))
	vev.Rapid(t, rec, 2, vev.N(150, 8000), func(rt *rapid.T) {
		a := Agree{Name: names.Draw(rt, "name"), Content: rapid.StringMatching(`[a-z0-9\n]{0,40}`).Draw(rt, "content"), Linked: rapid.IntRange(0, 3).Draw(rt, "linked") == 0}
		if a.Name == "." || a.Name == ".." {
			return
		}
		rec.Case("agree", true, "agree"+mustJSON(a), func() any { return a })
		o, err := runAgree(a)
		if err != nil {
			rt.Fatalf("harness: %v", err)
		}
		if !o.OK() && !rec.Known(o.Sig) {
			rec.Fail(rt, o.Sig, "agree", a, "%s", o.Msg)
		}
	})
}

// ---------------------------------------------------------------------------
// part 3: helper laws

type HelperJ struct {
	S vev.B `json:"s"` // a tag
	T vev.B `json:"t"` // the resource's tag ("" = no resource)
	V vev.B `json:"v"` // an arbitrary header value
}

type Helper struct{ S, T, V string }

func (h Helper) J() HelperJ { return HelperJ{vev.B(h.S), vev.B(h.T), vev.B(h.V)} }
func (j HelperJ) H() Helper { return Helper{string(j.S), string(j.T), string(j.V)} }

func simpleTag(s string) bool {
	for i := 0; i < len(s); i++ {
		c := s[i]
		if c == '"' || c == '\\' || c < 0x21 || c == 0x7f {
			return false
		}
	}
	return utf8.ValidString(s)
}

func runHelper(h Helper) (o vev.Outcome) {
	defer func() {
		if p := recover(); p != nil {
			o = vev.Outcome{Sig: "helper|panic", Msg: fmt.Sprintf("panic: %v", p)}
		}
	}()
	dev := func(kind, f string, x ...any) vev.Outcome {
		return vev.Outcome{Sig: vev.Sig("helper", kind), Msg: fmt.Sprintf("%s: ", mustJSON(h.J())) + fmt.Sprintf(f, x...)}
	}
	v := webdav.ConditionalMatch(h.V)
	if v.IsSet() != (h.V != "") {
		return dev("isset", "IsSet() = %v", v.IsSet())
	}
	if v.IsWildcard() != (h.V == "*") {
		return dev("iswildcard", "IsWildcard() = %v", v.IsWildcard())
	}
	// the announced form of any tag is accepted back and yields the tag
	announced := internal.ETag(h.S).String()
	got, err := webdav.ConditionalMatch(announced).ETag()
	if err != nil || got != h.S {
		return dev("announced-roundtrip", "ConditionalMatch(%q).ETag() = %q, %v", announced, got, err)
	}
	if simpleTag(h.S) {
		// RFC 7232: DQUOTE *etagc DQUOTE, independent of the library's quoting
		got, err := webdav.ConditionalMatch(`"` + h.S + `"`).ETag()
		if err != nil || got != h.S {
			return dev("plain-quoted", "ConditionalMatch(%q).ETag() = %q, %v", `"`+h.S+`"`, got, err)
		}
	}
	// MatchETag: true exactly for * or an equal tag, against an existing resource
	for _, c := range []struct {
		val  string
		want bool
	}{
		{"*", h.T != ""},
		{announced, h.T != "" && h.S == h.T},
		{internal.ETag(h.T).String(), h.T != ""},
	} {
		ok, err := webdav.ConditionalMatch(c.val).MatchETag(h.T)
		if ok != c.want || (ok && err != nil) {
			return dev("matchetag", "ConditionalMatch(%q).MatchETag(%q) = %v, %v; want %v", c.val, h.T, ok, err, c.want)
		}
	}
	// an arbitrary value never matches unless it is * or denotes the tag
	ok, err := v.MatchETag(h.T)
	if ok {
		tag, terr := v.ETag()
		if h.T == "" || err != nil || !(h.V == "*" || (terr == nil && tag == h.T)) {
			return dev("matchetag-arbitrary", "ConditionalMatch(%q).MatchETag(%q) = true, %v", h.V, h.T, err)
		}
	}
	return vev.Outcome{}
}

func genTag() *rapid.Generator[string] {
	return rapid.OneOf(
		rapid.SampledFrom([]string{"", "a", "abc", "1a2b", `a"b`, `a\b`, `"`, `\`, "é", "a b", "W/x", "*", "a\nb", "\x00", "\x80\xff", "💥", `\"`, `'a'`}),
		rapid.StringMatching(`[a-f0-9]{1,20}`),
		rapid.StringMatching(`[a-z"\\ é\x00-\x1f\x7f-\xff]{0,8}`),
		rapid.String(),
	)
}

func special(s string) bool {
	return s != "" && !simpleTag(s) || strings.ContainsAny(s, `"\`)
}

func TestHelperLaws(t *testing.T) {
	if vev.ReplayFile() != "" {
		t.Skip()
	}
	values := rapid.OneOf(genTag(), rapid.SampledFrom([]string{"*", `"a"`, `W/"a"`, `"a", "b"`, `"a`, `a"`, "'a'", "`a`", `"\x41"`, `"a\"b"`, ` "a"`, `"a" `, "**", `"*"`}))
	vev.Rapid(t, rec, 3, vev.N(20000, 2000000), func(rt *rapid.T) {
		h := Helper{S: genTag().Draw(rt, "s"), V: values.Draw(rt, "v")}
		switch rapid.IntRange(0, 3).Draw(rt, "tk") {
		case 0:
			h.T = ""
		case 1:
			h.T = h.S
		default:
			h.T = genTag().Draw(rt, "t")
		}
		rec.Case("helper", special(h.S) || special(h.T), "helper"+mustJSON(h.J()), func() any { return h.J() })
		if o := runHelper(h); !o.OK() && !rec.Known(o.Sig) {
			rec.Fail(rt, o.Sig, "helper", h.J(), "%s", o.Msg)
		}
	})
}

// ---------------------------------------------------------------------------
// part 4: CalDAV / CardDAV pass-through

type Pass struct {
	Server  string `json:"server"` // caldav | carddav
	IfMatch vev.B  `json:"if_match"`
	IfNone  vev.B  `json:"if_none_match"`
	SetIM   bool   `json:"set_if_match"`
	SetINM  bool   `json:"set_if_none_match"`
}

const icalBody = "BEGIN:VCALENDAR\r\nVERSION:2.0\r\nPRODID:-//verif//EN\r\nBEGIN:VEVENT\r\nUID:u1\r\nDTSTAMP:20200101T000000Z\r\nDTSTART:20200101T000000Z\r\nEND:VEVENT\r\nEND:VCALENDAR\r\n"
const vcardBody = "BEGIN:VCARD\r\nVERSION:4.0\r\nFN:x\r\nEND:VCARD\r\n"

func runPass(p Pass) (vev.Outcome, error) {
	var raw strings.Builder
	body, ct, path := icalBody, "text/calendar; charset=utf-8", "/u/cal/c/o.ics"
	if p.Server == "carddav" {
		body, ct, path = vcardBody, "text/vcard", "/u/contacts/b/o.vcf"
	}
	fmt.Fprintf(&raw, "PUT %s HTTP/1.1\r\nHost: dav.example\r\nContent-Type: %s\r\n", path, ct)
	if p.SetIM {
		fmt.Fprintf(&raw, "If-Match: %s\r\n", p.IfMatch)
	}
	if p.SetINM {
		fmt.Fprintf(&raw, "If-None-Match: %s\r\n", p.IfNone)
	}
	fmt.Fprintf(&raw, "Content-Length: %d\r\n\r\n%s", len(body), body)
	req, err := http.ReadRequest(bufio.NewReader(strings.NewReader(raw.String())))
	if err != nil {
		return vev.Outcome{}, err
	}
	// what net/http itself delivers is the reference for "unaltered"
	wantIM, wantINM := req.Header.Get("If-Match"), req.Header.Get("If-None-Match")
	w := httptest.NewRecorder()
	var gotIM, gotINM string
	var calls int
	if p.Server == "caldav" {
		b := &vdbl.CalBackend{Principal: "/u/", HomeSet: "/u/cal/"}
		(&caldav.Handler{Backend: b}).ServeHTTP(w, req)
		for _, c := range b.Log() {
			if c.Op == "PutCalendarObject" {
				calls++
				gotIM, gotINM = string(c.Opts.IfMatch), string(c.Opts.IfNoneMatch)
			}
		}
	} else {
		b := &vdbl.CardBackend{Principal: "/u/", HomeSet: "/u/contacts/"}
		(&carddav.Handler{Backend: b}).ServeHTTP(w, req)
		for _, c := range b.Log() {
			if c.Op == "PutAddressObject" {
				calls++
				gotIM, gotINM = string(c.Opts.IfMatch), string(c.Opts.IfNoneMatch)
			}
		}
	}
	if calls != 1 {
		return vev.Outcome{Sig: vev.Sig("pass", p.Server, "no-put-call"), Msg: fmt.Sprintf("%s: PUT answered %d and the backend saw %d put calls", mustJSON(p), w.Code, calls)}, nil
	}
	if gotIM != wantIM || gotINM != wantINM {
		return vev.Outcome{Sig: vev.Sig("pass", p.Server, "altered"), Msg: fmt.Sprintf("%s: backend received If-Match %q / If-None-Match %q, request carried %q / %q", mustJSON(p), gotIM, gotINM, wantIM, wantINM)}, nil
	}
	return vev.Outcome{}, nil
}

func genHeaderValue() *rapid.Generator[string] {
	// field-value: visible ASCII, inner blanks/tabs, obs-text; no outer blanks
	inner := rapid.StringMatching(`[!-~\x80-\xff]([ \t!-~\x80-\xff]{0,10}[!-~\x80-\xff])?`)
	return rapid.OneOf(rapid.SampledFrom([]string{"*", `"abc"`, `W/"x"`, `"a", "b"`, `"a\"b"`, `"é"`, "abc", `"`, `\`, `""`}), inner)
}

func TestPassThrough(t *testing.T) {
	if vev.ReplayFile() != "" {
		t.Skip()
	}
	vev.Rapid(t, rec, 4, vev.N(3000, 200000), func(rt *rapid.T) {
		p := Pass{Server: rapid.SampledFrom([]string{"caldav", "carddav"}).Draw(rt, "server"),
			SetIM: rapid.IntRange(0, 3).Draw(rt, "setim") != 0, SetINM: rapid.IntRange(0, 3).Draw(rt, "setinm") != 0}
		if p.SetIM {
			p.IfMatch = vev.B(genHeaderValue().Draw(rt, "im"))
		}
		if p.SetINM {
			p.IfNone = vev.B(genHeaderValue().Draw(rt, "inm"))
		}
		rec.Case("pass/"+p.Server, special(string(p.IfMatch)) || special(string(p.IfNone)), "pass"+mustJSON(p), func() any { return p })
		o, err := runPass(p)
		if err != nil {
			rt.Fatalf("harness: generated header not parseable: %v", err)
		}
		if !o.OK() && !rec.Known(o.Sig) {
			rec.Fail(rt, o.Sig, "pass", p, "%s", o.Msg)
		}
	})
}

// ---------------------------------------------------------------------------

func TestAReplay(t *testing.T) {
	vev.RunReplays(t, rec, func(kind string, raw json.RawMessage) (vev.Outcome, error) {
		switch kind {
		case "table":
			var r Row
			if err := json.Unmarshal(raw, &r); err != nil {
				return vev.Outcome{}, err
			}
			return runRow(r)
		case "agree":
			var a Agree
			if err := json.Unmarshal(raw, &a); err != nil {
				return vev.Outcome{}, err
			}
			return runAgree(a)
		case "helper":
			var h HelperJ
			if err := json.Unmarshal(raw, &h); err != nil {
				return vev.Outcome{}, err
			}
			return runHelper(h.H()), nil
		case "pass":
			var p Pass
			if err := json.Unmarshal(raw, &p); err != nil {
				return vev.Outcome{}, err
			}
			return runPass(p)
		}
		return vev.Outcome{}, fmt.Errorf("unknown kind %q", kind)
	})
}

func mustJSON(v any) string {
	b, _ := json.Marshal(v)
	return string(b)
}
