// C19 — ValidateCalendarObject enforces the RFC 4791 §4.1 object rules.
package c19

import (
	"encoding/json"
	"fmt"
	"sort"
	"strings"
	"testing"

	"github.com/emersion/go-ical"
	"github.com/emersion/go-webdav/caldav"
	"github.com/emersion/go-webdav/verifharness/vev"
	"pgregory.net/rapid"
)

var rec = vev.For("C19")

func TestMain(m *testing.M) {
	rec.SetRule("calendars are sequences of components (name, optional UID) with or without METHOD; complete enumeration of all sequences of 0-4 components over 5 names x {no UID,u1,u2} x METHOD, plus rapid-generated calendars of up to 12 components with X- names and UIDs needing iCalendar escaping; non-trivial = at least 2 components; distinct by canonical encoding of the calendar")
	rec.Assume("component names are upper case as go-ical produces them", "UIDs are set through SetText (always decodable); an empty UID value is never generated")
	vev.Main(m)
}

type Comp struct {
	Name string  `json:"name"`
	UID  *string `json:"uid"`
	// SubUID: a sub-component (VALARM; STANDARD inside VTIMEZONE) carrying a UID of its own, as RFC 9074 alarms do.
	// The rules of RFC 4791 section 4.1 speak of the calendar's components, i.e. the top level.
	SubUID *string `json:"sub_uid,omitempty"`
	// TZID: the component carries DTSTART;TZID=<this> (no rule of the statement looks at it, whether or not a
	// VTIMEZONE of that name is present)
	TZID string `json:"tzid,omitempty"`
	// RawUID: the UID property's raw value is set verbatim (may be undecodable iCalendar TEXT such as a bad escape);
	// the reference then decides nothing about acceptance, only "an error comes with empty results"
	RawUID *string `json:"raw_uid,omitempty"`
}

type Case struct {
	Method bool   `json:"method"`
	Comps  []Comp `json:"comps"`
	// MethodText: the text of the METHOD property when Method is set ("" is still a METHOD property); nil = PUBLISH
	MethodText *string `json:"method_text,omitempty"`
}

func (c Case) key() string {
	var b strings.Builder
	fmt.Fprintf(&b, "%v", c.Method)
	if c.MethodText != nil {
		fmt.Fprintf(&b, "(%q)", *c.MethodText)
	}
	for _, k := range c.Comps {
		if k.SubUID != nil {
			fmt.Fprintf(&b, "|sub=%q", *k.SubUID)
		}
		if k.TZID != "" {
			fmt.Fprintf(&b, "|tz=%q", k.TZID)
		}
		if k.RawUID != nil {
			fmt.Fprintf(&b, "|raw=%q", *k.RawUID)
		}
		if k.UID == nil {
			fmt.Fprintf(&b, "|%s", k.Name)
		} else {
			fmt.Fprintf(&b, "|%s=%q", k.Name, *k.UID)
		}
	}
	return b.String()
}

func build(c Case) *ical.Calendar {
	cal := ical.NewCalendar()
	cal.Props.SetText(ical.PropVersion, "2.0")
	cal.Props.SetText(ical.PropProductID, "-//verif//EN")
	if c.Method {
		if c.MethodText != nil {
			p := ical.NewProp(ical.PropMethod)
			p.Value = *c.MethodText
			cal.Props.Set(p)
		} else {
			cal.Props.SetText(ical.PropMethod, "PUBLISH")
		}
	}
	for _, k := range c.Comps {
		comp := ical.NewComponent(k.Name)
		if k.UID != nil {
			comp.Props.SetText(ical.PropUID, *k.UID)
		}
		comp.Props.SetText(ical.PropSummary, "s")
		if k.TZID != "" {
			p := ical.NewProp(ical.PropDateTimeStart)
			p.Params.Set(ical.ParamTimezoneID, k.TZID)
			p.Value = "20240310T090000"
			comp.Props.Set(p)
		}
		if k.RawUID != nil {
			p := ical.NewProp(ical.PropUID)
			p.Value = *k.RawUID
			comp.Props.Set(p)
		}
		if k.SubUID != nil {
			sub := ical.NewComponent("VALARM")
			if k.Name == "VTIMEZONE" {
				sub = ical.NewComponent("STANDARD")
			}
			sub.Props.SetText(ical.PropUID, *k.SubUID)
			comp.Children = append(comp.Children, sub)
		}
		cal.Children = append(cal.Children, comp)
	}
	return cal
}

// reference: written from the property statement only.
func reference(c Case) (accept bool, typ, uid string) {
	if c.Method {
		return false, "", ""
	}
	types := map[string]bool{}
	uids := map[string]bool{}
	for _, k := range c.Comps {
		if k.Name != "VTIMEZONE" {
			types[k.Name] = true
		}
		if k.UID != nil && *k.UID != "" {
			uids[*k.UID] = true
		}
	}
	if len(types) > 1 || len(uids) > 1 {
		return false, "", ""
	}
	for t := range types {
		typ = t
	}
	for u := range uids {
		uid = u
	}
	return true, typ, uid
}

func evaluate(c Case) vev.Outcome {
	wantOK, wantT, wantU := reference(c)
	var gotT, gotU string
	var err error
	func() {
		defer func() {
			if p := recover(); p != nil {
				err = fmt.Errorf("PANIC: %v", p)
				gotT, gotU = "<panic>", "<panic>"
			}
		}()
		gotT, gotU, err = caldav.ValidateCalendarObject(build(c))
	}()
	cls := func() string {
		var why []string
		if c.Method {
			why = append(why, "method")
		}
		ok, _, _ := reference(Case{Comps: c.Comps})
		if !ok {
			why = append(why, "conflict")
		}
		tz := false
		for _, k := range c.Comps {
			if k.Name == "VTIMEZONE" {
				tz = true
			}
		}
		if tz {
			why = append(why, "tz")
		}
		sort.Strings(why)
		return strings.Join(why, "+")
	}
	for _, k := range c.Comps {
		if k.RawUID != nil {
			// a UID text the reference does not interpret: acceptance is not asserted, only the unconditional half
			// of the statement - an error comes with empty results
			if err != nil && (gotT != "" || gotU != "") {
				return vev.Outcome{Sig: vev.Sig("nonempty-on-error", "raw-uid"), Msg: fmt.Sprintf("calendar %s rejected (%v) but results not empty: (%q,%q)", c.key(), err, gotT, gotU)}
			}
			return vev.Outcome{}
		}
	}
	switch {
	case wantOK && err != nil:
		return vev.Outcome{Sig: vev.Sig("rejected-valid", cls()), Msg: fmt.Sprintf("valid calendar %s rejected: %v", c.key(), err)}
	case !wantOK && err == nil:
		return vev.Outcome{Sig: vev.Sig("accepted-invalid", cls()), Msg: fmt.Sprintf("invalid calendar %s accepted (type %q uid %q)", c.key(), gotT, gotU)}
	case wantOK && (gotT != wantT || gotU != wantU):
		return vev.Outcome{Sig: vev.Sig("wrong-result", cls()), Msg: fmt.Sprintf("calendar %s: got (%q,%q) want (%q,%q)", c.key(), gotT, gotU, wantT, wantU)}
	case !wantOK && (gotT != "" || gotU != ""):
		return vev.Outcome{Sig: vev.Sig("nonempty-on-error", cls()), Msg: fmt.Sprintf("calendar %s rejected but results not empty: (%q,%q)", c.key(), gotT, gotU)}
	}
	return vev.Outcome{}
}

func record(c Case) {
	ok, _, _ := reference(c)
	cls := "reject"
	if ok {
		cls = "accept"
	}
	rec.Case(fmt.Sprintf("%s/n=%d", cls, min(len(c.Comps), 5)), len(c.Comps) >= 2, c.key(), func() any { return c })
}

func TestReplay(t *testing.T) {
	vev.RunReplays(t, rec, func(kind string, raw json.RawMessage) (vev.Outcome, error) {
		var c Case
		if err := json.Unmarshal(raw, &c); err != nil {
			return vev.Outcome{}, err
		}
		return evaluate(c), nil
	})
}

var names = []string{"VEVENT", "VTODO", "VJOURNAL", "VFREEBUSY", "VTIMEZONE"}

func TestEnumerate(t *testing.T) {
	if vev.ReplayFile() != "" {
		t.Skip()
	}
	u1, u2 := "u1", "u2"
	uids := []*string{nil, &u1, &u2}
	idx := 0
	// by increasing length, so that the first violation reported is a smallest one
	for n := 0; n <= 4; n++ {
		cur := make([]Comp, n)
		var walk func(i int)
		walk = func(i int) {
			if i == n {
				for _, m := range []bool{false, true} {
					idx++
					if !vev.MyShare(idx) {
						continue
					}
					c := Case{Method: m, Comps: append([]Comp(nil), cur...)}
					record(c)
					if o := evaluate(c); !o.OK() && !rec.Known(o.Sig) {
						rec.Violation(t, o.Sig, "c19", c, "%s", o.Msg)
					}
				}
				return
			}
			for _, nm := range names {
				for _, u := range uids {
					cur[i] = Comp{Name: nm, UID: u}
					walk(i + 1)
				}
			}
		}
		walk(0)
	}
	rec.ExhaustiveSub("all sequences of 0-4 components over {VEVENT,VTODO,VJOURNAL,VFREEBUSY,VTIMEZONE} x {no UID,u1,u2} x METHOD (108482 calendars)")
}

func TestRandom(t *testing.T) {
	if vev.ReplayFile() != "" {
		t.Skip()
	}
	nameGen := rapid.OneOf(rapid.SampledFrom(names), rapid.SampledFrom([]string{"VEVENT", "VTIMEZONE", "X-FOO", "VALARM", "VAVAILABILITY"}))
	uidGen := rapid.OneOf(
		rapid.SampledFrom([]string{"u1", "u2", "U1", "u1 ", "a,b", "a;b", "a\\b", "a\nb", "é", "u:1"}),
		rapid.StringMatching(`[a-c,;\\: ]{1,4}`),
	)
	vev.Rapid(t, rec, 0, vev.N(4000, 400000), func(rt *rapid.T) {
		var c Case
		c.Method = rapid.IntRange(0, 6).Draw(rt, "method") == 0
		n := rapid.IntRange(0, 12).Draw(rt, "n")
		// bias toward one dominant name/uid so that accepted calendars with many components are common
		domName := nameGen.Draw(rt, "domName")
		domUID := uidGen.Draw(rt, "domUID")
		for i := 0; i < n; i++ {
			k := Comp{Name: domName}
			switch rapid.IntRange(0, 9).Draw(rt, "nk") {
			case 0:
				k.Name = nameGen.Draw(rt, "name")
			case 1, 2:
				k.Name = "VTIMEZONE"
			}
			switch rapid.IntRange(0, 9).Draw(rt, "uk") {
			case 0:
				u := uidGen.Draw(rt, "uid")
				k.UID = &u
			case 1, 2, 3:
			default:
				u := domUID
				k.UID = &u
			}
			if rapid.IntRange(0, 5).Draw(rt, "tzid?") == 0 {
				k.TZID = rapid.SampledFrom([]string{"Europe/Berlin", "America/New_York", "X-Own"}).Draw(rt, "tzid")
			}
			if rapid.IntRange(0, 11).Draw(rt, "rawuid?") == 0 {
				ru := rapid.SampledFrom([]string{"a\\x", "a\\", "\\", "a,b", "", "a\\;b"}).Draw(rt, "rawuid")
				k.RawUID = &ru
				k.UID = nil
			}
			if rapid.IntRange(0, 7).Draw(rt, "sub?") == 0 {
				u := uidGen.Draw(rt, "subuid")
				k.SubUID = &u
			}
			c.Comps = append(c.Comps, k)
		}
		if c.Method && rapid.IntRange(0, 2).Draw(rt, "mtext?") == 0 {
			mt := rapid.SampledFrom([]string{"", ",REQUEST", ",", " ", "REQUEST"}).Draw(rt, "mtext")
			c.MethodText = &mt
		}
		record(c)
		if o := evaluate(c); !o.OK() && !rec.Known(o.Sig) {
			rec.Fail(rt, o.Sig, "c19", c, "%s", o.Msg)
		}
	})
}
