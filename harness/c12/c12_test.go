// C12 — CalDAV/CardDAV routing and discovery work under any mount prefix.
package c12

import (
	"bufio"
	"context"
	"encoding/json"
	"fmt"
	"net/http"
	"net/http/httptest"
	"net/url"
	"sort"
	"strings"
	"testing"
	"time"

	"github.com/emersion/go-ical"
	"github.com/emersion/go-vcard"
	"github.com/emersion/go-webdav/caldav"
	"github.com/emersion/go-webdav/carddav"
	"github.com/emersion/go-webdav/verifharness/cfs"
	"github.com/emersion/go-webdav/verifharness/vdbl"
	"github.com/emersion/go-webdav/verifharness/vev"
	"github.com/emersion/go-webdav/verifharness/vwire"
	"pgregory.net/rapid"
)

var rec = vev.For("C12")

func TestMain(m *testing.M) {
	rec.SetRule("layouts: mount prefix of 0-3 generated segments configured with or without trailing slash; principal P/u[/], home set P/u/h[/], 0-3 collections P/u/h/c[/] with 0-3 objects each; segment names with blanks, %, #, ?, quotes, non-ASCII. (1) single requests: every method at every depth 0-5 below the prefix in both slash spellings, checked against a table written from the statement (which backend operation, with the request path byte-identical; MKCOL only at collection depth else 403 without backend call; CardDAV DELETE per depth; foreign principal/home-set PROPFIND exposes nothing of the current user); (2) the client discovery chain well-known -> principal -> home set -> collections -> objects returns exactly the backend's paths. non-trivial = the prefix is non-empty or a segment needs escaping, and the request is at principal depth or deeper; distinct by canonical JSON")
	rec.Assume("request paths lie below the mount prefix; segments are non-empty and not '.'/'..'", "where the statement is silent (CalDAV DELETE/PUT/GET above object depth, anything deeper than objects) only 'no panic, no 5xx' is checked")
	vev.Main(m)
}

type Coll struct {
	Name  string   `json:"name"`
	Slash bool     `json:"slash,omitempty"` // the backend spells the path with a trailing slash
	Objs  []string `json:"objs,omitempty"`
	// Under: the two segments above the collection when it does not live textually below the home set (the servers
	// classify by depth only, so a backend may keep a shared or archived collection elsewhere); discovery only
	Under []string `json:"under,omitempty"`
}

type Layout struct {
	Server         string   `json:"server"` // caldav | carddav
	Prefix         []string `json:"prefix"`
	PrefixSlash    bool     `json:"prefix_slash,omitempty"` // Handler.Prefix configured with trailing slash
	User, Home     string
	PrincipalSlash bool   `json:"principal_slash,omitempty"`
	HomeSlash      bool   `json:"home_slash,omitempty"`
	Colls          []Coll `json:"colls"`
	// Second: discovery only - after the chain has been walked for User, the same handler serves this second user
	// (the backend answers with the second user's principal, home set and collections, as a backend does that takes
	// the identity from the request context) and the chain is walked again (after C12-s13: per-handler caches)
	Second string `json:"second_user,omitempty"`
}

type Request struct {
	Method string   `json:"method"`
	Segs   []string `json:"segs"` // segments below the prefix
	Slash  bool     `json:"slash,omitempty"`
	Depth  string   `json:"depth,omitempty"`
	// Warm: earlier requests served by the same handler (index pairs into a fixed pool of methods x depths below the
	// prefix): routing keeps no memory of them
	Warm []int `json:"warm,omitempty"`
}

type Case struct {
	Layout Layout   `json:"layout"`
	Kind   string   `json:"kind"` // request | discovery
	Req    *Request `json:"req,omitempty"`
}

func join(segs []string, slash bool) string {
	p := "/" + strings.Join(segs, "/")
	if len(segs) == 0 {
		return "/"
	}
	if slash {
		p += "/"
	}
	return p
}

func (l Layout) prefixPath() string {
	if len(l.Prefix) == 0 {
		if l.PrefixSlash {
			return "/"
		}
		return ""
	}
	return join(l.Prefix, l.PrefixSlash)
}

func (l Layout) principal() string { return join(append(append([]string{}, l.Prefix...), l.User), l.PrincipalSlash) }
func (l Layout) home() string {
	return join(append(append([]string{}, l.Prefix...), l.User, l.Home), l.HomeSlash)
}
func (l Layout) above(c Coll) []string {
	if len(c.Under) == 2 {
		return append(append([]string{}, l.Prefix...), c.Under...)
	}
	return append(append([]string{}, l.Prefix...), l.User, l.Home)
}
func (l Layout) coll(c Coll) string { return join(append(l.above(c), c.Name), c.Slash) }
func (l Layout) obj(c Coll, o string) string {
	return join(append(l.above(c), c.Name, o), false)
}

func event(uid string) *ical.Calendar {
	cal := ical.NewCalendar()
	cal.Props.SetText(ical.PropVersion, "2.0")
	cal.Props.SetText(ical.PropProductID, "-//verif//EN")
	ev := ical.NewEvent()
	ev.Props.SetText(ical.PropUID, uid)
	ev.Props.SetDateTime(ical.PropDateTimeStamp, time.Unix(0, 0).UTC())
	ev.Props.SetDateTime(ical.PropDateTimeStart, time.Unix(0, 0).UTC())
	cal.Children = append(cal.Children, ev.Component)
	return cal
}

func contact(fn string) vcard.Card {
	c := vcard.Card{}
	c.SetValue(vcard.FieldVersion, "4.0")
	c.SetValue(vcard.FieldFormattedName, fn)
	return c
}

type world struct {
	l    Layout
	cal  *vdbl.CalBackend
	card *vdbl.CardBackend
	h    http.Handler
}

func build(l Layout) *world {
	w := &world{l: l}
	configure(w, l)
	return w
}

// configure (re)fills the backend double for a layout; the handler, once made, stays the same
func configure(w *world, l Layout) {
	w.l = l
	if l.Server == "caldav" {
		b := w.cal
		if b == nil {
			b = &vdbl.CalBackend{}
		}
		b.Principal, b.HomeSet, b.Objects, b.Calendars = l.principal(), l.home(), map[string][]caldav.CalendarObject{}, nil
		for _, c := range l.Colls {
			b.Calendars = append(b.Calendars, caldav.Calendar{Path: l.coll(c), Name: "n-" + c.Name})
			for _, o := range c.Objs {
				b.Objects[l.coll(c)] = append(b.Objects[l.coll(c)], caldav.CalendarObject{Path: l.obj(c, o), ETag: "e", Data: event("u-" + o)})
			}
		}
		if w.cal == nil {
			w.cal = b
			w.h = &caldav.Handler{Backend: b, Prefix: l.prefixPath()}
		}
	} else {
		b := w.card
		if b == nil {
			b = &vdbl.CardBackend{}
		}
		b.Principal, b.HomeSet, b.Objects, b.Books = l.principal(), l.home(), map[string][]carddav.AddressObject{}, nil
		for _, c := range l.Colls {
			b.Books = append(b.Books, carddav.AddressBook{Path: l.coll(c), Name: "n-" + c.Name})
			for _, o := range c.Objs {
				b.Objects[l.coll(c)] = append(b.Objects[l.coll(c)], carddav.AddressObject{Path: l.obj(c, o), ETag: "e", Card: contact(o)})
			}
		}
		if w.card == nil {
			w.card = b
			w.h = &carddav.Handler{Backend: b, Prefix: l.prefixPath()}
		}
	}
}

type call struct{ Op, Path string }

func (w *world) calls() []call {
	var l []call
	if w.cal != nil {
		for _, c := range w.cal.Log() {
			l = append(l, call{c.Op, c.Path})
		}
	} else {
		for _, c := range w.card.Log() {
			l = append(l, call{c.Op, c.Path})
		}
	}
	return l
}

func has(l []call, op string) (call, int) {
	n := 0
	var first call
	for _, c := range l {
		if c.Op == op {
			if n == 0 {
				first = c
			}
			n++
		}
	}
	return first, n
}

func dev(kind, f string, a ...any) vev.Outcome {
	return vev.Outcome{Sig: vev.Sig(kind), Msg: fmt.Sprintf(f, a...)}
}

const pfBody = `<?xml version="1.0"?><D:propfind xmlns:D="DAV:"><D:prop><D:resourcetype/><D:displayname/><D:getetag/></D:prop></D:propfind>`
const icalBody = "BEGIN:VCALENDAR\r\nVERSION:2.0\r\nPRODID:-//verif//EN\r\nBEGIN:VEVENT\r\nUID:u1\r\nDTSTAMP:20200101T000000Z\r\nDTSTART:20200101T000000Z\r\nEND:VEVENT\r\nEND:VCALENDAR\r\n"
const vcardBody = "BEGIN:VCARD\r\nVERSION:4.0\r\nFN:x\r\nEND:VCARD\r\n"

func evalRequest(c Case) (vev.Outcome, error) {
	l, r := c.Layout, *c.Req
	w := build(l)
	full := join(append(append([]string{}, l.Prefix...), r.Segs...), r.Slash)
	body, ct := "", ""
	switch r.Method {
	case "PROPFIND":
		body, ct = pfBody, "application/xml"
	case "PUT":
		if l.Server == "caldav" {
			body, ct = icalBody, "text/calendar"
		} else {
			body, ct = vcardBody, "text/vcard"
		}
	}
	var raw strings.Builder
	fmt.Fprintf(&raw, "%s %s HTTP/1.1\r\nHost: dav.example\r\n", r.Method, cfs.EscapePath(full))
	if r.Depth != "" {
		fmt.Fprintf(&raw, "Depth: %s\r\n", r.Depth)
	}
	if ct != "" {
		fmt.Fprintf(&raw, "Content-Type: %s\r\n", ct)
	}
	fmt.Fprintf(&raw, "Content-Length: %d\r\n\r\n%s", len(body), body)
	req, err := http.ReadRequest(bufio.NewReader(strings.NewReader(raw.String())))
	if err != nil {
		return vev.Outcome{}, err
	}
	if req.URL.Path != full {
		return vev.Outcome{}, fmt.Errorf("request path %q parsed as %q", full, req.URL.Path)
	}
	for _, k := range r.Warm {
		methods := []string{"PROPFIND", "GET", "OPTIONS", "MKCOL", "DELETE", "PUT"}
		segs := [][]string{{}, {l.User}, {l.User, l.Home}, {l.User, l.Home, "warm-coll"}, {l.User, l.Home, "warm-coll", "warm-obj"}, {"other-user"}, {"other-user", l.Home}}
		m, sg := methods[k%len(methods)], segs[(k/len(methods))%len(segs)]
		wraw := fmt.Sprintf("%s %s HTTP/1.1\r\nHost: dav.example\r\nDepth: 1\r\nContent-Length: 0\r\n\r\n", m, cfs.EscapePath(join(append(append([]string{}, l.Prefix...), sg...), k%2 == 0)))
		if wreq, err := http.ReadRequest(bufio.NewReader(strings.NewReader(wraw))); err == nil {
			cfs.Serve(w.h, wreq)
		}
	}
	if len(r.Warm) > 0 {
		if w.cal != nil {
			w.cal.Reset()
		} else {
			w.card.Reset()
		}
	}
	resp := cfs.Serve(w.h, req)
	calls := w.calls()
	depth := len(r.Segs)
	cls := fmt.Sprintf("%s|%s|depth%d", l.Server, r.Method, depth)
	if resp.Panic != nil {
		return dev(cls+"|panic", "%s %q: panic: %v", r.Method, full, resp.Panic), nil
	}
	if resp.Status >= 500 && resp.Status != 501 {
		return dev(cls+fmt.Sprintf("|status-%d", resp.Status), "%s %q answered %d (%.200q)", r.Method, full, resp.Status, resp.Body), nil
	}
	mutating := 0
	for _, cl := range calls {
		if vdbl.Mutating(cl.Op) {
			mutating++
		}
	}
	want := func(op string) vev.Outcome {
		cl, n := has(calls, op)
		if n == 0 {
			return dev(cls+"|backend-op-missing|"+op, "%s %q (depth %d below prefix %q) did not reach backend operation %s; calls: %v, status %d", r.Method, full, depth, l.prefixPath(), op, calls, resp.Status)
		}
		if cl.Path != full {
			return dev(cls+"|path-altered|"+op, "%s %q reached %s with path %q", r.Method, full, op, cl.Path)
		}
		return vev.Outcome{}
	}
	refuse403 := func() vev.Outcome {
		if resp.Status != 403 {
			return dev(cls+"|not-403", "%s %q (depth %d) answered %d, want 403", r.Method, full, depth, resp.Status)
		}
		if mutating != 0 {
			return dev(cls+"|refused-but-backend-called", "%s %q answered 403 but the backend saw %v", r.Method, full, calls)
		}
		return vev.Outcome{}
	}
	objOps := map[string]string{"GetCalendarObject": "GetAddressObject", "PutCalendarObject": "PutAddressObject", "DeleteCalendarObject": "DeleteAddressObject",
		"GetCalendar": "GetAddressBook", "CreateCalendar": "CreateAddressBook", "CalendarHomeSetPath": "AddressBookHomeSetPath", "ListCalendars": "ListAddressBooks"}
	op := func(calName string) string {
		if l.Server == "carddav" {
			return objOps[calName]
		}
		return calName
	}
	switch r.Method {
	case "MKCOL":
		if depth == 3 {
			if o := want(op("CreateCalendar")); !o.OK() {
				return o, nil
			}
			if resp.Status != 201 {
				return dev(cls+"|mkcol-status", "MKCOL %q at collection depth answered %d", full, resp.Status), nil
			}
			return vev.Outcome{}, nil
		}
		return refuse403(), nil
	case "DELETE":
		if l.Server == "carddav" {
			switch depth {
			case 3:
				return want("DeleteAddressBook"), nil
			case 4:
				return want("DeleteAddressObject"), nil
			default:
				return refuse403(), nil
			}
		}
		if depth == 4 {
			return want("DeleteCalendarObject"), nil
		}
	case "GET", "HEAD", "OPTIONS":
		if depth == 4 {
			return want(op("GetCalendarObject")), nil
		}
	case "PUT":
		if depth == 4 {
			return want(op("PutCalendarObject")), nil
		}
	case "PROPFIND":
		switch depth {
		case 0:
			if _, n := has(calls, "CurrentUserPrincipal"); n == 0 {
				return dev(cls+"|backend-op-missing|CurrentUserPrincipal", "PROPFIND %q at the root did not ask for the current user principal; calls %v", full, calls), nil
			}
			if resp.Status != 207 {
				return dev(cls+"|root-status", "PROPFIND %q at the root answered %d", full, resp.Status), nil
			}
		case 1, 2:
			mine := l.principal()
			lvl := "principal"
			if depth == 2 {
				mine = l.home()
				lvl = "home-set"
			}
			if resp.Status != 207 {
				return dev(cls+"|"+lvl+"-status", "PROPFIND %q at %s depth answered %d", full, lvl, resp.Status), nil
			}
			reps, perr := cfs.ParseMultiStatus(resp.Body)
			if perr != nil {
				return dev(cls+"|multistatus-unreadable", "%v: %.200q", perr, resp.Body), nil
			}
			if full != mine && strings.TrimSuffix(full, "/") == strings.TrimSuffix(mine, "/") {
				// the same path up to the trailing slash: whether that counts as
				// the current user's is not asserted either way
				return vev.Outcome{}, nil
			}
			if full == mine {
				if len(reps) == 0 {
					return dev(cls+"|own-"+lvl+"-empty", "PROPFIND %q is the current user's %s but nothing was reported", full, lvl), nil
				}
				found := false
				for _, rp := range reps {
					if rp.RawHref != "" && hrefPath(rp.RawHref) == mine {
						found = true
					}
				}
				if !found {
					return dev(cls+"|own-"+lvl+"-href", "PROPFIND %q: no response carries the %s path %q (hrefs %v)", full, lvl, mine, hrefs(reps)), nil
				}
			} else {
				// a foreign (or differently spelled) principal / home set: nothing of the current user
				own := map[string]bool{l.principal(): true, l.home(): true}
				for _, cc := range l.Colls {
					own[l.coll(cc)] = true
					for _, o := range cc.Objs {
						own[l.obj(cc, o)] = true
					}
				}
				for _, rp := range reps {
					if own[hrefPath(rp.RawHref)] {
						return dev(cls+"|foreign-"+lvl+"-exposes", "PROPFIND %q is not the current user's %s (%q) but the answer contains %q", full, lvl, mine, rp.RawHref), nil
					}
				}
				for _, cl := range calls {
					switch cl.Op {
					case "ListCalendars", "ListAddressBooks", "ListCalendarObjects", "ListAddressObjects":
						return dev(cls+"|foreign-"+lvl+"-lists", "PROPFIND %q is not the current user's %s but the backend was asked %s", full, lvl, cl.Op), nil
					}
				}
			}
		case 3:
			return want(op("GetCalendar")), nil
		case 4:
			return want(op("GetCalendarObject")), nil
		}
	}
	return vev.Outcome{}, nil
}

func hrefPath(h string) string {
	u, err := url.Parse(strings.TrimSpace(h))
	if err != nil {
		return "\x00bad"
	}
	return u.Path
}

func hrefs(l []cfs.Reported) []string {
	var o []string
	for _, r := range l {
		o = append(o, r.RawHref)
	}
	return o
}

func evalDiscovery(c Case) (vev.Outcome, error) {
	l := c.Layout
	w := build(l)
	o, err := walkChain(w, l, l.Server+"|discovery")
	if err != nil || !o.OK() || l.Second == "" || l.Second == l.User {
		return o, err
	}
	l2 := l
	l2.User = l.Second
	configure(w, l2)
	return walkChain(w, l2, l.Server+"|discovery|second-user")
}

func walkChain(w *world, l Layout, cls string) (vev.Outcome, error) {
	hc, _ := vwire.Client(w.h)
	ctx := context.Background()
	var wantColls []string
	wantObjs := map[string][]string{}
	for _, cc := range l.Colls {
		wantColls = append(wantColls, l.coll(cc))
		for _, o := range cc.Objs {
			wantObjs[l.coll(cc)] = append(wantObjs[l.coll(cc)], l.obj(cc, o))
		}
	}
	sort.Strings(wantColls)
	if l.Server == "caldav" {
		cl, err := caldav.NewClient(hc, "http://dav.example/.well-known/caldav")
		if err != nil {
			return vev.Outcome{}, err
		}
		p, err := cl.FindCurrentUserPrincipal(ctx)
		if err != nil || p != l.principal() {
			return dev(cls+"|principal", "FindCurrentUserPrincipal = %q, %v; backend says %q", p, err, l.principal()), nil
		}
		h, err := cl.FindCalendarHomeSet(ctx, p)
		if err != nil || h != l.home() {
			return dev(cls+"|home-set", "FindCalendarHomeSet(%q) = %q, %v; backend says %q", p, h, err, l.home()), nil
		}
		cals, err := cl.FindCalendars(ctx, h)
		if err != nil {
			return dev(cls+"|collections-error", "FindCalendars(%q): %v", h, err), nil
		}
		var got []string
		for _, x := range cals {
			got = append(got, x.Path)
		}
		sort.Strings(got)
		if strings.Join(got, "\x00") != strings.Join(wantColls, "\x00") {
			return dev(cls+"|collections", "FindCalendars(%q) = %q, backend holds %q", h, got, wantColls), nil
		}
		for _, x := range cals {
			objs, err := cl.QueryCalendar(ctx, x.Path, &caldav.CalendarQuery{CompRequest: caldav.CalendarCompRequest{Name: "VCALENDAR", AllProps: true, AllComps: true}, CompFilter: caldav.CompFilter{Name: "VCALENDAR"}})
			if err != nil {
				return dev(cls+"|objects-error", "QueryCalendar(%q): %v", x.Path, err), nil
			}
			var gp []string
			for _, o := range objs {
				gp = append(gp, o.Path)
			}
			if strings.Join(gp, "\x00") != strings.Join(wantObjs[x.Path], "\x00") {
				return dev(cls+"|objects", "QueryCalendar(%q) = %q, backend holds %q", x.Path, gp, wantObjs[x.Path]), nil
			}
			for _, o := range wantObjs[x.Path] {
				g, err := cl.GetCalendarObject(ctx, o)
				if err != nil || g.Path != o {
					return dev(cls+"|object-get", "GetCalendarObject(%q) = %v, %v", o, g, err), nil
				}
			}
		}
		return vev.Outcome{}, nil
	}
	cl, err := carddav.NewClient(hc, "http://dav.example/.well-known/carddav")
	if err != nil {
		return vev.Outcome{}, err
	}
	p, err := cl.FindCurrentUserPrincipal(ctx)
	if err != nil || p != l.principal() {
		return dev(cls+"|principal", "FindCurrentUserPrincipal = %q, %v; backend says %q", p, err, l.principal()), nil
	}
	h, err := cl.FindAddressBookHomeSet(ctx, p)
	if err != nil || h != l.home() {
		return dev(cls+"|home-set", "FindAddressBookHomeSet(%q) = %q, %v; backend says %q", p, h, err, l.home()), nil
	}
	books, err := cl.FindAddressBooks(ctx, h)
	if err != nil {
		return dev(cls+"|collections-error", "FindAddressBooks(%q): %v", h, err), nil
	}
	var got []string
	for _, x := range books {
		got = append(got, x.Path)
	}
	sort.Strings(got)
	if strings.Join(got, "\x00") != strings.Join(wantColls, "\x00") {
		return dev(cls+"|collections", "FindAddressBooks(%q) = %q, backend holds %q", h, got, wantColls), nil
	}
	for _, x := range books {
		objs, err := cl.QueryAddressBook(ctx, x.Path, &carddav.AddressBookQuery{DataRequest: carddav.AddressDataRequest{AllProp: true}})
		if err != nil {
			return dev(cls+"|objects-error", "QueryAddressBook(%q): %v", x.Path, err), nil
		}
		var gp []string
		for _, o := range objs {
			gp = append(gp, o.Path)
		}
		if strings.Join(gp, "\x00") != strings.Join(wantObjs[x.Path], "\x00") {
			return dev(cls+"|objects", "QueryAddressBook(%q) = %q, backend holds %q", x.Path, gp, wantObjs[x.Path]), nil
		}
		for _, o := range wantObjs[x.Path] {
			g, err := cl.GetAddressObject(ctx, o)
			if err != nil || g.Path != o {
				return dev(cls+"|object-get", "GetAddressObject(%q) = %v, %v", o, g, err), nil
			}
		}
	}
	return vev.Outcome{}, nil
}

func evaluate(c Case) (vev.Outcome, error) {
	if c.Kind == "discovery" {
		return evalDiscovery(c)
	}
	return evalRequest(c)
}

// ---------------------------------------------------------------------------

var segPool = []string{"dav", "u", "user", "alice", "cal", "contacts", "work", "a b", "é", "x%20y", "q?#", "d+;e", `"'<&>`, "%41", "ada", "d", "a", "v", "dd", "dav2", "o.ics", "c.vcf", "..x", ".h", "100%", "principals", "calendars"}

func genSeg(rt *rapid.T, label string) string { return rapid.SampledFrom(segPool).Draw(rt, label) }

// relatedSeg derives a different, non-empty segment from own: a proper prefix, an extension, or a case variant.
func relatedSeg(rt *rapid.T, own string) string {
	rs := []rune(own)
	var cands []string
	if len(rs) > 1 {
		cands = append(cands, string(rs[:len(rs)-1]), string(rs[:1]))
	}
	cands = append(cands, own+"x", own+own, "x"+own)
	if up := strings.ToUpper(own); up != own {
		cands = append(cands, up)
	}
	if lo := strings.ToLower(own); lo != own {
		cands = append(cands, lo)
	}
	var ok []string
	for _, c := range cands {
		if c != own && c != "" && c != "." && c != ".." {
			ok = append(ok, c)
		}
	}
	return rapid.SampledFrom(ok).Draw(rt, "relatedseg")
}

func genLayout(rt *rapid.T) Layout {
	l := Layout{Server: rapid.SampledFrom([]string{"caldav", "carddav"}).Draw(rt, "server")}
	n := rapid.IntRange(0, 3).Draw(rt, "nprefix")
	for i := 0; i < n; i++ {
		l.Prefix = append(l.Prefix, genSeg(rt, "prefixseg"))
	}
	l.PrefixSlash = rapid.Bool().Draw(rt, "prefixslash")
	l.User, l.Home = genSeg(rt, "user"), genSeg(rt, "home")
	l.PrincipalSlash = rapid.IntRange(0, 3).Draw(rt, "pslash") != 0
	l.HomeSlash = rapid.IntRange(0, 3).Draw(rt, "hslash") != 0
	nc := rapid.IntRange(0, 3).Draw(rt, "ncolls")
	seen := map[string]bool{}
	for i := 0; i < nc; i++ {
		c := Coll{Name: genSeg(rt, "coll"), Slash: rapid.IntRange(0, 3).Draw(rt, "cslash") != 0}
		if seen[c.Name] {
			continue
		}
		seen[c.Name] = true
		no := rapid.IntRange(0, 3).Draw(rt, "nobjs")
		so := map[string]bool{}
		for j := 0; j < no; j++ {
			o := genSeg(rt, "obj")
			if !so[o] {
				so[o] = true
				c.Objs = append(c.Objs, o)
			}
		}
		l.Colls = append(l.Colls, c)
	}
	return l
}

func needsEsc(s string) bool { return strings.ContainsAny(s, ` %#?;+"'<>&é`) }

func nontrivial(c Case) bool {
	esc := false
	for _, s := range append(append([]string{c.Layout.User, c.Layout.Home}, c.Layout.Prefix...), func() []string {
		if c.Req != nil {
			return c.Req.Segs
		}
		return nil
	}()...) {
		if needsEsc(s) {
			esc = true
		}
	}
	deep := c.Kind == "discovery" || len(c.Req.Segs) >= 1
	return (len(c.Layout.Prefix) > 0 || esc) && deep
}

func run(t *testing.T, rt *rapid.T, c Case, class string) {
	rec.Case(class, nontrivial(c), mustJSON(c), func() any { return c })
	o, err := evaluate(c)
	if err != nil {
		rt.Fatalf("harness: %v", err)
	}
	if o.OK() || rec.Known(o.Sig) {
		return
	}
	rec.Fail(rt, o.Sig, "c12", c, "%s", o.Msg)
}

func TestAReplay(t *testing.T) {
	vev.RunReplays(t, rec, func(kind string, raw json.RawMessage) (vev.Outcome, error) {
		var c Case
		if err := json.Unmarshal(raw, &c); err != nil {
			return vev.Outcome{}, err
		}
		return evaluate(c)
	})
}

func TestRequests(t *testing.T) {
	if vev.ReplayFile() != "" {
		t.Skip()
	}
	vev.Rapid(t, rec, 0, vev.N(6000, 400000), func(rt *rapid.T) {
		l := genLayout(rt)
		r := Request{Method: rapid.SampledFrom([]string{"PROPFIND", "PROPFIND", "PROPFIND", "MKCOL", "MKCOL", "DELETE", "DELETE", "GET", "HEAD", "OPTIONS", "PUT"}).Draw(rt, "method"), Slash: rapid.Bool().Draw(rt, "slash")}
		depth := rapid.IntRange(0, 5).Draw(rt, "depth")
		// mostly the layout's own resources, sometimes foreign names
		own := []string{l.User, l.Home}
		var coll *Coll
		if len(l.Colls) > 0 {
			coll = &l.Colls[rapid.IntRange(0, len(l.Colls)-1).Draw(rt, "whichcoll")]
			own = append(own, coll.Name)
			if len(coll.Objs) > 0 {
				own = append(own, rapid.SampledFrom(coll.Objs).Draw(rt, "whichobj"))
			}
		}
		for i := 0; i < depth; i++ {
			if i < len(own) && rapid.IntRange(0, 4).Draw(rt, "own") != 0 {
				r.Segs = append(r.Segs, own[i])
			} else if i < len(own) && rapid.IntRange(0, 2).Draw(rt, "related") == 0 {
				// a foreign name that is textually related to the own one: guards written with prefix or
				// case-insensitive comparisons let exactly these through
				r.Segs = append(r.Segs, relatedSeg(rt, own[i]))
			} else {
				r.Segs = append(r.Segs, genSeg(rt, "foreign"))
			}
		}
		if r.Method == "PROPFIND" {
			r.Depth = rapid.SampledFrom([]string{"", "0", "1", "infinity"}).Draw(rt, "hdepth")
		}
		if rapid.IntRange(0, 2).Draw(rt, "warm?") == 0 {
			r.Warm = rapid.SliceOfN(rapid.IntRange(0, 41), 1, 3).Draw(rt, "warm")
		}
		run(t, rt, Case{Layout: l, Kind: "request", Req: &r}, fmt.Sprintf("request/%s/depth%d", l.Server, depth))
	})
}

func TestDiscovery(t *testing.T) {
	if vev.ReplayFile() != "" {
		t.Skip()
	}
	vev.Rapid(t, rec, 1, vev.N(1500, 80000), func(rt *rapid.T) {
		l := genLayout(rt)
		for i := range l.Colls {
			if rapid.IntRange(0, 3).Draw(rt, "elsewhere?") == 0 {
				l.Colls[i].Under = rapid.SampledFrom([][]string{{l.User, l.Home + "-archive"}, {"shared", "team"}, {l.User + "x", l.Home}, {l.User, "inbox"}}).Draw(rt, "under")
			}
		}
		cls := "discovery/" + l.Server
		if rapid.IntRange(0, 2).Draw(rt, "second-user?") == 0 {
			l.Second = genSeg(rt, "second")
			cls += "/two-users-one-handler"
		}
		run(t, rt, Case{Layout: l, Kind: "discovery"}, cls)
	})
}

func mustJSON(v any) string {
	b, _ := json.Marshal(v)
	return string(b)
}

var _ = httptest.NewRecorder
