// C10 — calendars, address books and their objects reach the client unchanged.
package c10

import (
	"bufio"
	"bytes"
	"context"
	"encoding/json"
	"fmt"
	"net/http"
	"net/url"
	"reflect"
	"sort"
	"strings"
	"testing"
	"time"

	"github.com/emersion/go-ical"
	"github.com/emersion/go-vcard"
	"github.com/emersion/go-webdav/caldav"
	"github.com/emersion/go-webdav/carddav"
	"github.com/emersion/go-webdav/verifharness/cfs"
	"github.com/emersion/go-webdav/verifharness/vdav"
	"github.com/emersion/go-webdav/verifharness/vdbl"
	"github.com/emersion/go-webdav/verifharness/vev"
	"github.com/emersion/go-webdav/verifharness/vwire"
	"github.com/emersion/go-webdav/verifharness/vx"
	"pgregory.net/rapid"
)

var rec = vev.For("C10")

func TestMain(m *testing.M) {
	rec.SetRule("recording backends holding rapid-generated calendars/address books (paths, names and descriptions with XML metacharacters/blanks/non-ASCII, size limits, component sets) and objects (tags with quotes/backslashes/NUL, times, iCalendar/vCard content with escaped text, long values, parameters needing quoting, repeated and X- properties) -> caldav/carddav Handler -> wire-faithful adapter -> caldav/carddav Client: discovery, Get, MultiGet, Query and PUT must yield values equal to the backend's (content relative to go-ical/go-vcard's own encode->decode). Server-side multiget with scripted per-href failures is read by the harness' RFC 4918 reader: one response per href, in order, object or the backend's status. Clients are also fed conformant multi-status documents from the harness writer in random lexical form (properties split over propstats, unknown extra properties, absolute-URI hrefs), incl. sync-collection. non-trivial = some string needs XML/URL/iCalendar/quote escaping or a multiget mixes success and failure; distinct by canonical JSON")
	rec.Assume("strings are XML-representable; parameter values contain no double quote (go-ical cannot encode them)", "objects on which go-ical/go-vcard's own encode->decode is not the identity are compared against that round trip, not against the original", "ContentLength and the CardDAV supported-address-data list are not part of the comparison (the statement does not list them)")
	vev.Main(m)
}

// ---------------------------------------------------------------------------
// mirror of backend data

type P struct {
	Name   string      `json:"n"`
	Text   string      `json:"t"`
	Params [][2]string `json:"p,omitempty"`
	Raw    bool        `json:"raw,omitempty"` // value set verbatim instead of through SetText
}

type Comp struct {
	Name  string `json:"name"`
	UID   string `json:"uid"`
	Props []P    `json:"props,omitempty"`
	Alarm bool   `json:"alarm,omitempty"`
}

type Obj struct {
	Name  string `json:"name"`
	ETag  vev.B  `json:"etag,omitempty"`
	MTime int64  `json:"mtime,omitempty"`
	Comps []Comp `json:"comps,omitempty"` // caldav
	Card  []P    `json:"card,omitempty"`  // carddav
}

type Coll struct {
	Name    string   `json:"name"`
	Display string   `json:"display,omitempty"`
	Desc    string   `json:"desc,omitempty"`
	Max     int64    `json:"max,omitempty"`
	Comps   []string `json:"comps,omitempty"`
	NilComp bool     `json:"nil_comps,omitempty"`
	Objs    []Obj    `json:"objs,omitempty"`
}

type Case struct {
	Kind    string `json:"kind"` // caldav | carddav | multiget-mixed | fed-caldav | fed-carddav | fed-sync
	Colls   []Coll `json:"colls,omitempty"`
	Put     *Obj   `json:"put,omitempty"`
	PutPath string `json:"put_path,omitempty"` // what the backend answers
	PutRel  bool   `json:"put_rel,omitempty"`  // the PUT goes through a client whose endpoint is the collection, with a relative target
	Fail    []int  `json:"fail,omitempty"`     // multiget-mixed: status per href (0 = ok)
	Server  string `json:"server,omitempty"`
	Lexical []int  `json:"lexical,omitempty"`
	Split   bool   `json:"split,omitempty"`
	AbsHref bool   `json:"abs_href,omitempty"`
	Deleted []int  `json:"deleted,omitempty"` // fed-sync: indices reported 404
	Token   string `json:"token,omitempty"`
}

const home = "/u/h/"

func collPath(c Coll) string       { return home + c.Name + "/" }
func objPath(c Coll, o Obj) string { return home + c.Name + "/" + o.Name }

func mt(v int64) time.Time {
	if v == 0 {
		return time.Time{}
	}
	return time.Unix(v, 0).UTC()
}

func buildCal(o Obj) *ical.Calendar {
	cal := ical.NewCalendar()
	cal.Props.SetText(ical.PropVersion, "2.0")
	cal.Props.SetText(ical.PropProductID, "-//verif//EN")
	for _, c := range o.Comps {
		comp := ical.NewComponent(c.Name)
		comp.Props.SetText(ical.PropUID, c.UID)
		comp.Props.SetDateTime(ical.PropDateTimeStamp, time.Unix(1e9, 0).UTC())
		if c.Name == ical.CompEvent {
			comp.Props.SetDateTime(ical.PropDateTimeStart, time.Unix(1e9, 0).UTC())
		}
		for _, p := range c.Props {
			ip := ical.NewProp(p.Name)
			if p.Raw {
				ip.Value = p.Text
			} else {
				ip.SetText(p.Text)
			}
			for _, kv := range p.Params {
				ip.Params.Add(kv[0], kv[1])
			}
			comp.Props.Add(ip)
		}
		if c.Alarm && c.Name == ical.CompEvent {
			al := ical.NewComponent(ical.CompAlarm)
			al.Props.SetText(ical.PropAction, "DISPLAY")
			al.Props.SetText(ical.PropDescription, "d")
			tr := ical.NewProp(ical.PropTrigger)
			tr.Value = "-PT5M"
			al.Props.Add(tr)
			comp.Children = append(comp.Children, al)
		}
		cal.Children = append(cal.Children, comp)
	}
	return cal
}

func buildCard(o Obj) vcard.Card {
	c := vcard.Card{}
	c.SetValue(vcard.FieldVersion, "4.0")
	c.SetValue(vcard.FieldFormattedName, o.Name)
	for _, p := range o.Card {
		f := &vcard.Field{Value: p.Text}
		if len(p.Params) > 0 {
			f.Params = vcard.Params{}
			for _, kv := range p.Params {
				f.Params.Add(kv[0], kv[1])
			}
		}
		c.Add(p.Name, f)
	}
	return c
}

func encIcal(c *ical.Calendar) (string, error) {
	var b bytes.Buffer
	err := ical.NewEncoder(&b).Encode(c)
	return b.String(), err
}

// what go-ical itself makes of the object (the reference for content equality)
func icalRef(c *ical.Calendar) (string, bool, error) {
	s, err := encIcal(c)
	if err != nil {
		return "", false, err
	}
	d, err := ical.NewDecoder(strings.NewReader(s)).Decode()
	if err != nil {
		return "", false, err
	}
	s2, err := encIcal(d)
	return s2, s2 == s, err
}

func dumpCard(c vcard.Card) string {
	var keys []string
	for k := range c {
		keys = append(keys, k)
	}
	sort.Strings(keys)
	var b strings.Builder
	for _, k := range keys {
		for _, f := range c[k] {
			var ps []string
			for pk, pv := range f.Params {
				ps = append(ps, fmt.Sprintf("%s=%q", pk, pv))
			}
			sort.Strings(ps)
			fmt.Fprintf(&b, "%s.%s;%s:%q\n", f.Group, k, strings.Join(ps, ";"), f.Value)
		}
	}
	return b.String()
}

func cardRef(c vcard.Card) (string, bool, error) {
	var b bytes.Buffer
	if err := vcard.NewEncoder(&b).Encode(c); err != nil {
		return "", false, err
	}
	d, err := vcard.NewDecoder(&b).Decode()
	if err != nil {
		return "", false, err
	}
	return dumpCard(d), dumpCard(d) == dumpCard(c), nil
}

func dev(kind, f string, a ...any) vev.Outcome {
	return vev.Outcome{Sig: vev.Sig(kind), Msg: fmt.Sprintf(f, a...)}
}

// ---------------------------------------------------------------------------
// pipelines

func normComps(l []string, isNil bool) []string {
	if isNil {
		return []string{"VEVENT"}
	}
	return append([]string{}, l...)
}

func evalCalDAV(c Case) (vev.Outcome, error) {
	b := &vdbl.CalBackend{Principal: "/u/", HomeSet: home, Objects: map[string][]caldav.CalendarObject{}}
	type want struct {
		path, etag, content string
		mtime               int64
	}
	wantObjs := map[string][]want{}
	for _, cl := range c.Colls {
		cal := caldav.Calendar{Path: collPath(cl), Name: cl.Display, Description: cl.Desc, MaxResourceSize: cl.Max}
		if !cl.NilComp {
			cal.SupportedComponentSet = append([]string{}, cl.Comps...)
		}
		b.Calendars = append(b.Calendars, cal)
		for _, o := range cl.Objs {
			data := buildCal(o)
			ref, same, err := icalRef(data)
			if err != nil {
				return vev.Outcome{}, fmt.Errorf("generated calendar not encodable: %v", err)
			}
			if !same {
				rec.Count("upstream-roundtrip-not-identity", 1)
			}
			b.Objects[collPath(cl)] = append(b.Objects[collPath(cl)], caldav.CalendarObject{Path: objPath(cl, o), ETag: string(o.ETag), ModTime: mt(o.MTime), Data: data})
			wantObjs[collPath(cl)] = append(wantObjs[collPath(cl)], want{objPath(cl, o), string(o.ETag), ref, o.MTime})
		}
	}
	hc, rt := vwire.Client(&caldav.Handler{Backend: b})
	cl, err := caldav.NewClient(hc, "http://dav.example/")
	if err != nil {
		return vev.Outcome{}, err
	}
	ctx := context.Background()
	cals, err := cl.FindCalendars(ctx, home)
	if err != nil {
		return dev("caldav|find|error", "FindCalendars: %v", err), nil
	}
	if len(cals) != len(c.Colls) {
		return dev("caldav|find|count", "FindCalendars returned %d calendars, backend holds %d", len(cals), len(c.Colls)), nil
	}
	for i, cc := range c.Colls {
		g := cals[i]
		w := caldav.Calendar{Path: collPath(cc), Name: cc.Display, Description: cc.Desc, MaxResourceSize: cc.Max, SupportedComponentSet: normComps(cc.Comps, cc.NilComp)}
		if g.SupportedComponentSet == nil {
			g.SupportedComponentSet = []string{}
		}
		if len(w.SupportedComponentSet) == 0 {
			w.SupportedComponentSet = []string{}
		}
		if !reflect.DeepEqual(g, w) {
			field := "other"
			switch {
			case g.Path != w.Path:
				field = "path"
			case g.Name != w.Name:
				field = "name"
			case g.Description != w.Description:
				field = "description"
			case g.MaxResourceSize != w.MaxResourceSize:
				field = "max-resource-size"
			default:
				field = "component-set"
			}
			return dev("caldav|find|"+field, "calendar %d: client %+v, backend %+v", i, g, w), nil
		}
	}
	cmp := func(op string, got []caldav.CalendarObject, w []want) vev.Outcome {
		if len(got) != len(w) {
			return dev("caldav|"+op+"|count", "%s returned %d objects, backend holds %d", op, len(got), len(w))
		}
		for i := range w {
			g := got[i]
			if g.Path != w[i].path {
				return dev("caldav|"+op+"|path", "%s object %d: path %q, backend %q", op, i, g.Path, w[i].path)
			}
			if g.ETag != w[i].etag {
				return dev("caldav|"+op+"|etag", "%s %q: tag %q, backend %q", op, g.Path, g.ETag, w[i].etag)
			}
			if g.ModTime.IsZero() != (w[i].mtime == 0) || (w[i].mtime != 0 && g.ModTime.Unix() != w[i].mtime) {
				return dev("caldav|"+op+"|modtime", "%s %q: time %v, backend %v", op, g.Path, g.ModTime, mt(w[i].mtime))
			}
			gs, err := encIcal(g.Data)
			if err != nil || gs != w[i].content {
				return dev("caldav|"+op+"|content", "%s %q: content\n%s\nbackend (through go-ical)\n%s (%v)", op, g.Path, gs, w[i].content, err)
			}
		}
		return vev.Outcome{}
	}
	allReq := caldav.CalendarCompRequest{Name: "VCALENDAR", AllProps: true, AllComps: true}
	pass := func() vev.Outcome {
	for _, cc := range c.Colls {
		p := collPath(cc)
		got, err := cl.QueryCalendar(ctx, p, &caldav.CalendarQuery{CompRequest: allReq, CompFilter: caldav.CompFilter{Name: "VCALENDAR"}})
		if err != nil {
			return dev("caldav|query|error", "QueryCalendar(%q): %v", p, err)
		}
		if o := cmp("query", got, wantObjs[p]); !o.OK() {
			return o
		}
		if len(wantObjs[p]) > 0 {
			var paths []string
			for i := len(wantObjs[p]) - 1; i >= 0; i-- {
				paths = append(paths, wantObjs[p][i].path)
			}
			got, err := cl.MultiGetCalendar(ctx, p, &caldav.CalendarMultiGet{Paths: paths, CompRequest: allReq})
			if err != nil {
				return dev("caldav|multiget|error", "MultiGetCalendar(%q): %v", p, err)
			}
			rev := make([]want, len(wantObjs[p]))
			for i, w := range wantObjs[p] {
				rev[len(rev)-1-i] = w
			}
			if o := cmp("multiget", got, rev); !o.OK() {
				return o
			}
		}
		for _, w := range wantObjs[p] {
			g, err := cl.GetCalendarObject(ctx, w.path)
			if err != nil {
				return dev("caldav|get|error", "GetCalendarObject(%q): %v", w.path, err)
			}
			if o := cmp("get", []caldav.CalendarObject{*g}, []want{w}); !o.OK() {
				return o
			}
		}
	}
		return vev.Outcome{}
	}
	if o := pass(); !o.OK() {
		return o, nil
	}
	// a second round through the same handler and the same client after the backend's data has changed under the
	// same paths and entity tags (after C10-s13: what a call returns is what the backend returned to *this* call -
	// partial retrieval and expansion legitimately produce different data for one path and tag)
	{
		var all []*caldav.CalendarObject
		var wants []*want
		for _, cc := range c.Colls {
			p := collPath(cc)
			for i := range b.Objects[p] {
				all = append(all, &b.Objects[p][i])
				wants = append(wants, &wantObjs[p][i])
			}
		}
		if len(all) > 0 {
			alt := buildCal(Obj{Name: "changed.ics", Comps: []Comp{{Name: "VTODO", UID: "changed", Props: []P{{Name: "SUMMARY", Text: "changed under the same tag"}}}}})
			altRef, _, err := icalRef(alt)
			if err != nil {
				return vev.Outcome{}, err
			}
			d0, c0 := all[0].Data, wants[0].content
			for i := range all {
				if i+1 < len(all) {
					all[i].Data, wants[i].content = all[i+1].Data, wants[i+1].content
				} else if len(all) > 1 {
					all[i].Data, wants[i].content = d0, c0
				} else {
					all[i].Data, wants[i].content = alt, altRef
				}
			}
			if o := pass(); !o.OK() {
				o.Sig = "again|" + o.Sig
				o.Msg = "second round, data changed under the same paths and tags: " + o.Msg
				return o, nil
			}
		}
	}
	// every multi-status the server emitted is readable by the independent reader
	for _, ex := range rt.Exchanges() {
		if ex.Status == 207 {
			root, err := vx.Parse(ex.RespBody)
			if err != nil {
				return dev("caldav|multistatus-not-wellformed", "%v: %.300q", err, ex.RespBody), nil
			}
			if _, err := vdav.ReadMultiStatus(root); err != nil {
				return dev("caldav|multistatus-not-rfc4918", "%v: %.300q", err, ex.RespBody), nil
			}
		}
	}
	if c.Put != nil {
		data := buildCal(*c.Put)
		ref, _, err := icalRef(data)
		if err != nil {
			return vev.Outcome{}, err
		}
		b.Reset()
		b.PutResult = &caldav.CalendarObject{Path: c.PutPath, ETag: string(c.Put.ETag), ModTime: mt(c.Put.MTime)}
		reqPath := home + "c/" + c.Put.Name
		target, pcl := reqPath, cl
		if c.PutRel {
			if pcl, err = caldav.NewClient(hc, "http://dav.example"+(&url.URL{Path: home + "c/"}).EscapedPath()); err != nil {
				return vev.Outcome{}, err
			}
			target = c.Put.Name
		}
		g, err := pcl.PutCalendarObject(ctx, target, data)
		if err != nil {
			return dev("caldav|put|error", "PutCalendarObject(%q): %v", reqPath, err), nil
		}
		var seen *vdbl.CalCall
		for _, call := range b.Log() {
			if call.Op == "PutCalendarObject" {
				call := call
				seen = &call
			}
		}
		if seen == nil || seen.Path != reqPath {
			return dev("caldav|put|backend-path", "backend saw %+v for PUT %q", seen, reqPath), nil
		}
		gs, err := encIcal(seen.Cal)
		if err != nil || gs != ref {
			return dev("caldav|put|content", "backend received\n%s\ncaller sent (through go-ical)\n%s", gs, ref), nil
		}
		wantPath := c.PutPath
		if wantPath == "" {
			wantPath = target // the backend names no path: the caller's own spelling is all the client has
		}
		if g.Path != wantPath {
			return dev("caldav|put|returned-path", "client returned path %q, backend answered %q", g.Path, wantPath), nil
		}
		if g.ETag != string(c.Put.ETag) {
			return dev("caldav|put|returned-etag", "client returned tag %q, backend answered %q", g.ETag, string(c.Put.ETag)), nil
		}
		if g.ModTime.IsZero() != (c.Put.MTime == 0) || (c.Put.MTime != 0 && g.ModTime.Unix() != c.Put.MTime) {
			return dev("caldav|put|returned-modtime", "client returned time %v, backend answered %v", g.ModTime, mt(c.Put.MTime)), nil
		}
	}
	return vev.Outcome{}, nil
}

func evalCardDAV(c Case) (vev.Outcome, error) {
	b := &vdbl.CardBackend{Principal: "/u/", HomeSet: home, Objects: map[string][]carddav.AddressObject{}}
	type want struct {
		path, etag, content string
		mtime               int64
	}
	wantObjs := map[string][]want{}
	for _, cl := range c.Colls {
		b.Books = append(b.Books, carddav.AddressBook{Path: collPath(cl), Name: cl.Display, Description: cl.Desc, MaxResourceSize: cl.Max})
		for _, o := range cl.Objs {
			card := buildCard(o)
			ref, same, err := cardRef(card)
			if err != nil {
				return vev.Outcome{}, fmt.Errorf("generated card not encodable: %v", err)
			}
			if !same {
				rec.Count("upstream-roundtrip-not-identity", 1)
			}
			b.Objects[collPath(cl)] = append(b.Objects[collPath(cl)], carddav.AddressObject{Path: objPath(cl, o), ETag: string(o.ETag), ModTime: mt(o.MTime), Card: card})
			wantObjs[collPath(cl)] = append(wantObjs[collPath(cl)], want{objPath(cl, o), string(o.ETag), ref, o.MTime})
		}
	}
	hc, rt := vwire.Client(&carddav.Handler{Backend: b})
	cl, err := carddav.NewClient(hc, "http://dav.example/")
	if err != nil {
		return vev.Outcome{}, err
	}
	ctx := context.Background()
	books, err := cl.FindAddressBooks(ctx, home)
	if err != nil {
		return dev("carddav|find|error", "FindAddressBooks: %v", err), nil
	}
	if len(books) != len(c.Colls) {
		return dev("carddav|find|count", "FindAddressBooks returned %d, backend holds %d", len(books), len(c.Colls)), nil
	}
	for i, cc := range c.Colls {
		g := books[i]
		switch {
		case g.Path != collPath(cc):
			return dev("carddav|find|path", "book %d: path %q, backend %q", i, g.Path, collPath(cc)), nil
		case g.Name != cc.Display:
			return dev("carddav|find|name", "book %d: name %q, backend %q", i, g.Name, cc.Display), nil
		case g.Description != cc.Desc:
			return dev("carddav|find|description", "book %d: description %q, backend %q", i, g.Description, cc.Desc), nil
		case g.MaxResourceSize != cc.Max:
			return dev("carddav|find|max-resource-size", "book %d: max size %d, backend %d", i, g.MaxResourceSize, cc.Max), nil
		}
	}
	cmp := func(op string, got []carddav.AddressObject, w []want) vev.Outcome {
		if len(got) != len(w) {
			return dev("carddav|"+op+"|count", "%s returned %d objects, backend holds %d", op, len(got), len(w))
		}
		for i := range w {
			g := got[i]
			if g.Path != w[i].path {
				return dev("carddav|"+op+"|path", "%s object %d: path %q, backend %q", op, i, g.Path, w[i].path)
			}
			if g.ETag != w[i].etag {
				return dev("carddav|"+op+"|etag", "%s %q: tag %q, backend %q", op, g.Path, g.ETag, w[i].etag)
			}
			if g.ModTime.IsZero() != (w[i].mtime == 0) || (w[i].mtime != 0 && g.ModTime.Unix() != w[i].mtime) {
				return dev("carddav|"+op+"|modtime", "%s %q: time %v, backend %v", op, g.Path, g.ModTime, mt(w[i].mtime))
			}
			if gs := dumpCard(g.Card); gs != w[i].content {
				return dev("carddav|"+op+"|content", "%s %q: content\n%s\nbackend (through go-vcard)\n%s", op, g.Path, gs, w[i].content)
			}
		}
		return vev.Outcome{}
	}
	pass := func() vev.Outcome {
	for _, cc := range c.Colls {
		p := collPath(cc)
		got, err := cl.QueryAddressBook(ctx, p, &carddav.AddressBookQuery{DataRequest: carddav.AddressDataRequest{AllProp: true}})
		if err != nil {
			return dev("carddav|query|error", "QueryAddressBook(%q): %v", p, err)
		}
		if o := cmp("query", got, wantObjs[p]); !o.OK() {
			return o
		}
		if len(wantObjs[p]) > 0 {
			var paths []string
			for _, w := range wantObjs[p] {
				paths = append(paths, w.path)
			}
			got, err := cl.MultiGetAddressBook(ctx, p, &carddav.AddressBookMultiGet{Paths: paths, DataRequest: carddav.AddressDataRequest{AllProp: true}})
			if err != nil {
				return dev("carddav|multiget|error", "MultiGetAddressBook(%q): %v", p, err)
			}
			if o := cmp("multiget", got, wantObjs[p]); !o.OK() {
				return o
			}
		}
		for _, w := range wantObjs[p] {
			g, err := cl.GetAddressObject(ctx, w.path)
			if err != nil {
				return dev("carddav|get|error", "GetAddressObject(%q): %v", w.path, err)
			}
			if o := cmp("get", []carddav.AddressObject{*g}, []want{w}); !o.OK() {
				return o
			}
		}
	}
		return vev.Outcome{}
	}
	if o := pass(); !o.OK() {
		return o, nil
	}
	// second round: same handler, same client, data changed under the same paths and tags (see evalCalDAV)
	{
		var all []*carddav.AddressObject
		var wants []*want
		for _, cc := range c.Colls {
			p := collPath(cc)
			for i := range b.Objects[p] {
				all = append(all, &b.Objects[p][i])
				wants = append(wants, &wantObjs[p][i])
			}
		}
		if len(all) > 0 {
			alt := buildCard(Obj{Name: "changed under the same tag", Card: []P{{Name: "NOTE", Text: "changed"}}})
			altRef, _, err := cardRef(alt)
			if err != nil {
				return vev.Outcome{}, err
			}
			d0, c0 := all[0].Card, wants[0].content
			for i := range all {
				if i+1 < len(all) {
					all[i].Card, wants[i].content = all[i+1].Card, wants[i+1].content
				} else if len(all) > 1 {
					all[i].Card, wants[i].content = d0, c0
				} else {
					all[i].Card, wants[i].content = alt, altRef
				}
			}
			if o := pass(); !o.OK() {
				o.Sig = "again|" + o.Sig
				o.Msg = "second round, data changed under the same paths and tags: " + o.Msg
				return o, nil
			}
		}
	}
	for _, ex := range rt.Exchanges() {
		if ex.Status == 207 {
			root, err := vx.Parse(ex.RespBody)
			if err != nil {
				return dev("carddav|multistatus-not-wellformed", "%v: %.300q", err, ex.RespBody), nil
			}
			if _, err := vdav.ReadMultiStatus(root); err != nil {
				return dev("carddav|multistatus-not-rfc4918", "%v: %.300q", err, ex.RespBody), nil
			}
		}
	}
	if c.Put != nil {
		card := buildCard(*c.Put)
		ref, _, err := cardRef(card)
		if err != nil {
			return vev.Outcome{}, err
		}
		b.Reset()
		b.PutResult = &carddav.AddressObject{Path: c.PutPath, ETag: string(c.Put.ETag), ModTime: mt(c.Put.MTime)}
		reqPath := home + "b/" + c.Put.Name
		target, pcl := reqPath, cl
		if c.PutRel {
			if pcl, err = carddav.NewClient(hc, "http://dav.example"+(&url.URL{Path: home + "b/"}).EscapedPath()); err != nil {
				return vev.Outcome{}, err
			}
			target = c.Put.Name
		}
		g, err := pcl.PutAddressObject(ctx, target, card)
		if err != nil {
			return dev("carddav|put|error", "PutAddressObject(%q): %v", reqPath, err), nil
		}
		var seen *vdbl.CardCall
		for _, call := range b.Log() {
			if call.Op == "PutAddressObject" {
				call := call
				seen = &call
			}
		}
		if seen == nil || seen.Path != reqPath {
			return dev("carddav|put|backend-path", "backend saw %+v for PUT %q", seen, reqPath), nil
		}
		if gs := dumpCard(seen.Card); gs != ref {
			return dev("carddav|put|content", "backend received\n%s\ncaller sent (through go-vcard)\n%s", gs, ref), nil
		}
		wantPath := c.PutPath
		if wantPath == "" {
			wantPath = target // the backend names no path: the caller's own spelling is all the client has
		}
		if g.Path != wantPath {
			return dev("carddav|put|returned-path", "client returned path %q, backend answered %q", g.Path, wantPath), nil
		}
		if g.ETag != string(c.Put.ETag) {
			return dev("carddav|put|returned-etag", "client returned tag %q, backend answered %q", g.ETag, string(c.Put.ETag)), nil
		}
		if g.ModTime.IsZero() != (c.Put.MTime == 0) || (c.Put.MTime != 0 && g.ModTime.Unix() != c.Put.MTime) {
			return dev("carddav|put|returned-modtime", "client returned time %v, backend answered %v", g.ModTime, mt(c.Put.MTime)), nil
		}
	}
	return vev.Outcome{}, nil
}

// server-side multiget with per-href failures, read independently
func evalMixed(c Case) (vev.Outcome, error) {
	cl := c.Colls[0]
	var hrefs []string
	failPath := map[string]int{}
	for i, o := range cl.Objs {
		p := objPath(cl, o)
		hrefs = append(hrefs, p)
		if i < len(c.Fail) && c.Fail[i] != 0 {
			if c.Fail[i] == 1 {
				hrefs[len(hrefs)-1] = p + ".absent" // unknown to the backend: its own 404
			} else {
				failPath[p] = c.Fail[i]
			}
		}
	}
	var h http.Handler
	var body string
	var dataName string
	if c.Server == "caldav" {
		b := &vdbl.CalBackend{Principal: "/u/", HomeSet: home, Objects: map[string][]caldav.CalendarObject{}, FailPath: failPath}
		for _, o := range cl.Objs {
			b.Objects[collPath(cl)] = append(b.Objects[collPath(cl)], caldav.CalendarObject{Path: objPath(cl, o), ETag: string(o.ETag), Data: buildCal(o)})
		}
		h = &caldav.Handler{Backend: b}
		m := vdav.CalMultiGet{Data: vdav.CalData{Present: true}, OtherProps: []string{"getetag"}, Hrefs: hrefs}
		body = string(vx.Write(m.Node(func(p string) string { return (&url.URL{Path: p}).EscapedPath() }), vx.Fixed(0), false))
		dataName = "calendar-data"
	} else {
		b := &vdbl.CardBackend{Principal: "/u/", HomeSet: home, Objects: map[string][]carddav.AddressObject{}, FailPath: failPath}
		for _, o := range cl.Objs {
			b.Objects[collPath(cl)] = append(b.Objects[collPath(cl)], carddav.AddressObject{Path: objPath(cl, o), ETag: string(o.ETag), Card: buildCard(o)})
		}
		h = &carddav.Handler{Backend: b}
		m := vdav.CardMultiGet{Data: vdav.AddrData{Present: true, AllProp: true}, OtherProps: []string{"getetag"}, Hrefs: hrefs}
		body = string(vx.Write(m.Node(func(p string) string { return (&url.URL{Path: p}).EscapedPath() }), vx.Fixed(0), false))
		dataName = "address-data"
	}
	raw := fmt.Sprintf("REPORT %s HTTP/1.1\r\nHost: dav.example\r\nDepth: 1\r\nContent-Type: application/xml\r\nContent-Length: %d\r\n\r\n%s", cfs.EscapePath(collPath(cl)), len(body), body)
	req, err := http.ReadRequest(bufio.NewReader(strings.NewReader(raw)))
	if err != nil {
		return vev.Outcome{}, err
	}
	resp := cfs.Serve(h, req)
	cls := c.Server + "|mixed"
	if resp.Panic != nil {
		return dev(cls+"|panic", "panic: %v", resp.Panic), nil
	}
	if resp.Status != 207 {
		return dev(cls+fmt.Sprintf("|status-%d", resp.Status), "multiget answered %d: %.200q", resp.Status, resp.Body), nil
	}
	root, err := vx.Parse(resp.Body)
	if err != nil {
		return dev(cls+"|not-wellformed", "%v: %.300q", err, resp.Body), nil
	}
	ms, err := vdav.ReadMultiStatus(root)
	if err != nil {
		return dev(cls+"|not-rfc4918", "%v: %.300q", err, resp.Body), nil
	}
	if len(ms.Responses) != len(hrefs) {
		return dev(cls+"|response-count", "%d hrefs requested, %d responses: %.300q", len(hrefs), len(ms.Responses), resp.Body), nil
	}
	for i, r := range ms.Responses {
		p, _ := vdav.HrefPath(r.Hrefs[0])
		if len(r.Hrefs) != 1 || p != hrefs[i] {
			return dev(cls+"|order-or-href", "response %d is for %q, requested %q", i, r.Hrefs, hrefs[i]), nil
		}
		wantCode := 0
		if i < len(c.Fail) {
			wantCode = c.Fail[i]
			if wantCode == 1 {
				wantCode = 404
			}
			if wantCode < 0 {
				wantCode = -wantCode // the backend wrapped its HTTP error with %w
			}
		}
		if wantCode != 0 {
			if r.Status == nil || *r.Status != wantCode {
				return dev(cls+"|failure-status", "href %q: backend failed with %d, response says %v (propstats %d)", hrefs[i], wantCode, r.Status, len(r.PropStats)), nil
			}
			if len(r.PropStats) != 0 {
				return dev(cls+"|failure-with-props", "href %q failed but carries properties", hrefs[i]), nil
			}
			continue
		}
		ok := false
		for _, ps := range r.PropStats {
			for _, el := range ps.Props {
				if el.Name.Local == dataName && ps.Code == 200 && strings.Contains(el.TextContent(), "BEGIN:") {
					ok = true
				}
			}
		}
		if !ok || r.Status != nil && *r.Status/100 != 2 {
			return dev(cls+"|success-without-data", "href %q: no %s under 200 (%+v)", hrefs[i], dataName, r), nil
		}
	}
	return vev.Outcome{}, nil
}

// ---------------------------------------------------------------------------
// clients fed by the independent writer

type replayChooser struct {
	choices []int
	i       int
}

func (r *replayChooser) Pick(label string, n int) int {
	if r.i >= len(r.choices) {
		return 0
	}
	v := r.choices[r.i] % n
	r.i++
	return v
}

func hrefText(p string, abs bool) string {
	esc := (&url.URL{Path: p}).EscapedPath()
	if abs {
		return "https://dav.example:8443" + esc
	}
	return esc
}

func httpDate(v int64) string { return time.Unix(v, 0).UTC().Format(http.TimeFormat) }

func quoteTag(s string) string {
	// RFC 7232 form where possible, else the escaped form the library itself announces
	return fmt.Sprintf("%q", s)
}

func splitProps(props []*vx.Node, split bool, extra bool) []vdav.PropStat {
	var ps []vdav.PropStat
	if extra {
		ps = append(ps, vdav.PropStat{Code: 404, Props: []*vx.Node{vx.El("urn:unknown", "nope"), vx.El(vdav.NSDAV, "quota-used-bytes")}})
		props = append([]*vx.Node{vx.El("urn:unknown", "extra", vx.T("x"))}, props...)
	}
	if split && len(props) > 1 {
		ps = append(ps, vdav.PropStat{Code: 200, Props: props[:1]}, vdav.PropStat{Code: 200, Props: props[1:]})
	} else {
		ps = append(ps, vdav.PropStat{Code: 200, Props: props})
	}
	return ps
}

func evalFed(c Case) (vev.Outcome, error) {
	var ms vdav.MultiStatus
	ctx := context.Background()
	write := func() string {
		return string(vx.Write(ms.Node(), &replayChooser{choices: c.Lexical}, true))
	}
	extra := len(c.Lexical) > 1 && c.Lexical[1]%2 == 1
	switch c.Kind {
	case "fed-caldav":
		// home set listing: the home set itself plus the calendars
		ms.Responses = append(ms.Responses, vdav.Response{Hrefs: []string{hrefText(home, c.AbsHref)}, PropStats: splitProps([]*vx.Node{vx.El(vdav.NSDAV, "resourcetype", vx.El(vdav.NSDAV, "collection"))}, false, false)})
		for _, cl := range c.Colls {
			props := []*vx.Node{vx.El(vdav.NSDAV, "resourcetype", vx.El(vdav.NSDAV, "collection"), vx.El(vdav.NSCal, "calendar"))}
			if cl.Display != "" {
				props = append(props, vx.El(vdav.NSDAV, "displayname", vx.T(cl.Display)))
			}
			if cl.Desc != "" {
				props = append(props, vx.El(vdav.NSCal, "calendar-description", vx.T(cl.Desc)))
			}
			if cl.Max > 0 {
				props = append(props, vx.El(vdav.NSCal, "max-resource-size", vx.T(fmt.Sprint(cl.Max))))
			}
			if !cl.NilComp {
				set := vx.El(vdav.NSCal, "supported-calendar-component-set")
				for _, n := range cl.Comps {
					set.Add(vx.El(vdav.NSCal, "comp").With("", "name", n))
				}
				props = append(props, set)
			}
			ms.Responses = append(ms.Responses, vdav.Response{Hrefs: []string{hrefText(collPath(cl), c.AbsHref)}, PropStats: splitProps(props, c.Split, extra)})
		}
		capt := &vwire.Capture{Body: write()}
		cl, _ := caldav.NewClient(capt, "http://dav.example/")
		got, err := cl.FindCalendars(ctx, home)
		if err != nil {
			return dev("fed-caldav|find|error", "FindCalendars on %q: %v", capt.Body, err), nil
		}
		if len(got) != len(c.Colls) {
			return dev("fed-caldav|find|count", "FindCalendars returned %d of %d calendars from %q", len(got), len(c.Colls), capt.Body), nil
		}
		for i, cc := range c.Colls {
			g := got[i]
			wc := append([]string{}, cc.Comps...)
			if cc.NilComp {
				wc = []string{}
			}
			if g.SupportedComponentSet == nil {
				g.SupportedComponentSet = []string{}
			}
			if g.Path != collPath(cc) || g.Name != cc.Display || g.Description != cc.Desc || g.MaxResourceSize != cc.Max || !reflect.DeepEqual(g.SupportedComponentSet, wc) {
				return dev("fed-caldav|find|value", "calendar %d read as %+v, document says %+v: %q", i, g, cc, capt.Body), nil
			}
		}
		// objects of the first calendar through a query answer
		if len(c.Colls) > 0 {
			ms = vdav.MultiStatus{}
			cc := c.Colls[0]
			var refs []string
			for _, o := range cc.Objs {
				txt, err := encIcal(buildCal(o))
				if err != nil {
					return vev.Outcome{}, err
				}
				ref, _, _ := icalRef(buildCal(o))
				refs = append(refs, ref)
				props := []*vx.Node{vx.El(vdav.NSCal, "calendar-data", vx.T(txt))}
				if o.ETag != "" {
					props = append(props, vx.El(vdav.NSDAV, "getetag", vx.T(quoteTag(string(o.ETag)))))
				}
				if o.MTime != 0 {
					props = append(props, vx.El(vdav.NSDAV, "getlastmodified", vx.T(httpDate(o.MTime))))
				}
				ms.Responses = append(ms.Responses, vdav.Response{Hrefs: []string{hrefText(objPath(cc, o), c.AbsHref)}, PropStats: splitProps(props, c.Split, extra)})
			}
			capt.Body = write()
			objs, err := cl.QueryCalendar(ctx, collPath(cc), &caldav.CalendarQuery{CompRequest: caldav.CalendarCompRequest{Name: "VCALENDAR", AllProps: true, AllComps: true}, CompFilter: caldav.CompFilter{Name: "VCALENDAR"}})
			if err != nil {
				return dev("fed-caldav|query|error", "QueryCalendar on %q: %v", capt.Body, err), nil
			}
			if len(objs) != len(cc.Objs) {
				return dev("fed-caldav|query|count", "%d of %d objects", len(objs), len(cc.Objs)), nil
			}
			for i, o := range cc.Objs {
				g := objs[i]
				gs, _ := encIcal(g.Data)
				if g.Path != objPath(cc, o) || g.ETag != string(o.ETag) || (o.MTime != 0 && g.ModTime.Unix() != o.MTime) || g.ModTime.IsZero() != (o.MTime == 0) || gs != refs[i] {
					return dev("fed-caldav|query|value", "object %d read as path %q tag %q time %v content %q; document says %q %q %v %q", i, g.Path, g.ETag, g.ModTime, gs, objPath(cc, o), string(o.ETag), mt(o.MTime), refs[i]), nil
				}
			}
		}
	case "fed-carddav", "fed-sync":
		if len(c.Colls) == 0 {
			return vev.Outcome{}, nil
		}
		cc := c.Colls[0]
		capt := &vwire.Capture{}
		cl, _ := carddav.NewClient(capt, "http://dav.example/")
		if c.Kind == "fed-carddav" {
			ms.Responses = append(ms.Responses, vdav.Response{Hrefs: []string{hrefText(home, c.AbsHref)}, PropStats: splitProps([]*vx.Node{vx.El(vdav.NSDAV, "resourcetype", vx.El(vdav.NSDAV, "collection"))}, false, false)})
			for _, cl := range c.Colls {
				props := []*vx.Node{vx.El(vdav.NSDAV, "resourcetype", vx.El(vdav.NSDAV, "collection"), vx.El(vdav.NSCard, "addressbook"))}
				if cl.Display != "" {
					props = append(props, vx.El(vdav.NSDAV, "displayname", vx.T(cl.Display)))
				}
				if cl.Desc != "" {
					props = append(props, vx.El(vdav.NSCard, "addressbook-description", vx.T(cl.Desc)))
				}
				if cl.Max > 0 {
					props = append(props, vx.El(vdav.NSCard, "max-resource-size", vx.T(fmt.Sprint(cl.Max))))
				}
				ms.Responses = append(ms.Responses, vdav.Response{Hrefs: []string{hrefText(collPath(cl), c.AbsHref)}, PropStats: splitProps(props, c.Split, extra)})
			}
			capt.Body = write()
			got, err := cl.FindAddressBooks(ctx, home)
			if err != nil {
				return dev("fed-carddav|find|error", "FindAddressBooks on %q: %v", capt.Body, err), nil
			}
			if len(got) != len(c.Colls) {
				return dev("fed-carddav|find|count", "%d of %d address books from %q", len(got), len(c.Colls), capt.Body), nil
			}
			for i, x := range c.Colls {
				g := got[i]
				if g.Path != collPath(x) || g.Name != x.Display || g.Description != x.Desc || g.MaxResourceSize != x.Max {
					return dev("fed-carddav|find|value", "address book %d read as %+v, document says %+v: %q", i, g, x, capt.Body), nil
				}
			}
			return vev.Outcome{}, nil
		}
		// sync-collection: members with tag/time, some reported 404 (deleted)
		del := map[int]bool{}
		for _, d := range c.Deleted {
			del[d] = true
		}
		var wantUpd []carddav.AddressObject
		var wantDel []string
		for i, o := range cc.Objs {
			p := objPath(cc, o)
			if del[i] {
				st := 404
				ms.Responses = append(ms.Responses, vdav.Response{Hrefs: []string{hrefText(p, c.AbsHref)}, Status: &st})
				wantDel = append(wantDel, p)
				continue
			}
			var props []*vx.Node
			if o.ETag != "" {
				props = append(props, vx.El(vdav.NSDAV, "getetag", vx.T(quoteTag(string(o.ETag)))))
			}
			if o.MTime != 0 {
				props = append(props, vx.El(vdav.NSDAV, "getlastmodified", vx.T(httpDate(o.MTime))))
			}
			if len(props) == 0 {
				props = []*vx.Node{vx.El(vdav.NSDAV, "getcontenttype", vx.T("text/vcard"))}
			}
			ms.Responses = append(ms.Responses, vdav.Response{Hrefs: []string{hrefText(p, c.AbsHref)}, PropStats: splitProps(props, c.Split, extra)})
			wantUpd = append(wantUpd, carddav.AddressObject{Path: p, ETag: string(o.ETag), ModTime: mt(o.MTime)})
		}
		ms.SyncToken = c.Token
		capt.Body = write()
		got, err := cl.SyncCollection(ctx, collPath(cc), &carddav.SyncQuery{SyncToken: "old"})
		if err != nil {
			return dev("fed-sync|error", "SyncCollection on %q: %v", capt.Body, err), nil
		}
		if got.SyncToken != c.Token {
			return dev("fed-sync|token", "sync token %q, document says %q", got.SyncToken, c.Token), nil
		}
		if !reflect.DeepEqual(append([]string{}, got.Deleted...), append([]string{}, wantDel...)) {
			return dev("fed-sync|deleted", "Deleted %q, document reports 404 for %q: %q", got.Deleted, wantDel, capt.Body), nil
		}
		if len(got.Updated) != len(wantUpd) {
			return dev("fed-sync|updated-count", "Updated has %d entries, document has %d changed members: %q", len(got.Updated), len(wantUpd), capt.Body), nil
		}
		for i, w := range wantUpd {
			g := got.Updated[i]
			if g.Path != w.Path || g.ETag != w.ETag || g.ModTime.IsZero() != w.ModTime.IsZero() || (!w.ModTime.IsZero() && g.ModTime.Unix() != w.ModTime.Unix()) {
				return dev("fed-sync|updated-value", "Updated[%d] = %+v, document says %+v", i, g, w), nil
			}
		}
	}
	return vev.Outcome{}, nil
}

func evaluate(c Case) (o vev.Outcome, err error) {
	defer func() {
		if p := recover(); p != nil {
			o = dev(c.Kind+"|panic", "panic: %v", p)
		}
	}()
	switch c.Kind {
	case "caldav":
		return evalCalDAV(c)
	case "carddav":
		return evalCardDAV(c)
	case "multiget-mixed":
		return evalMixed(c)
	}
	return evalFed(c)
}

// ---------------------------------------------------------------------------
// generators

func genText() *rapid.Generator[string] {
	return rapid.OneOf(
		rapid.SampledFrom([]string{"", "Work", "a<b&c>d", `"q"`, " lead", "trail ", "é ü", "a,b;c", `back\slash`, "line1\nline2", "x:y", "]]>", "💥", strings.Repeat("long text é ", 9), "tab\there", "&amp;", "a'b"}),
		rapid.StringMatching(`[a-zA-Z0-9 ,;:\\<>&'é]{0,20}`),
	)
}

// collection display names and descriptions travel as XML character data only (no iCalendar/vCard layer), so they
// may also hold carriage returns, which XML can carry only as character references
func genCollText() *rapid.Generator[string] {
	return rapid.OneOf(genText(), genText(), rapid.SampledFrom([]string{"a\rb", "line1\r\nline2", "\r", "trail\r"}))
}

func genSeg(rt *rapid.T, label, suffix string) string {
	return rapid.SampledFrom([]string{"a", "work", "a b", "é", "x%20y", "q?#", "d+;e", `"'<&>`, "%41", "100%"}).Draw(rt, label) + suffix
}

func genParams(rt *rapid.T) [][2]string {
	n := rapid.IntRange(0, 3).Draw(rt, "nparams")
	if n == 3 {
		n = 0
	}
	var l [][2]string
	seen := map[string]bool{}
	for i := 0; i < n; i++ {
		k := rapid.SampledFrom([]string{"CN", "X-P", "LANGUAGE", "ROLE"}).Draw(rt, "pk")
		if seen[k] {
			continue
		}
		seen[k] = true
		l = append(l, [2]string{k, rapid.SampledFrom([]string{"v", "Jane Doe", "a;b", "a:b", "a,b", "é", "en-US", "x y"}).Draw(rt, "pv")})
	}
	return l
}

func genObj(rt *rapid.T, i int, cal bool) Obj {
	ext := ".vcf"
	if cal {
		ext = ".ics"
	}
	o := Obj{Name: fmt.Sprintf("%s%d%s", genSeg(rt, "oname", ""), i, ext)}
	o.ETag = vev.B(rapid.SampledFrom([]string{"", "abc", `q"uote`, `back\slash`, "é", "a\x00b", "W/x", "1 2", `"quoted"`, `'single'`}).Draw(rt, "etag"))
	if rapid.Bool().Draw(rt, "hasmtime") {
		// also instants before the Unix epoch (after C10-s17): a date is "unset" only when it is the zero time
		o.MTime = rapid.OneOf(rapid.Int64Range(1, 4e9), rapid.Int64Range(1, 4e9), rapid.Int64Range(1, 4e9), rapid.SampledFrom([]int64{-1, -86400, -14182940, -2000000000, 1})).Draw(rt, "mtime")
	}
	if cal {
		n := rapid.IntRange(1, 3).Draw(rt, "ncomps")
		kind := rapid.SampledFrom([]string{"VEVENT", "VTODO"}).Draw(rt, "ckind")
		for j := 0; j < n; j++ {
			c := Comp{Name: kind, UID: "uid-" + genText().Draw(rt, "uid"), Alarm: rapid.IntRange(0, 3).Draw(rt, "alarm") == 0}
			c.UID = strings.NewReplacer("\n", " ").Replace(c.UID)
			k := rapid.IntRange(0, 4).Draw(rt, "nprops")
			seen := map[string]bool{}
			for x := 0; x < k; x++ {
				name := rapid.SampledFrom([]string{"SUMMARY", "DESCRIPTION", "LOCATION", "X-A", "X-B", "CATEGORIES", "ATTENDEE", "COMMENT"}).Draw(rt, "pname")
				if seen[name] && (name == "SUMMARY" || name == "DESCRIPTION" || name == "LOCATION") {
					continue
				}
				seen[name] = true
				p := P{Name: name, Text: genText().Draw(rt, "ptext"), Params: genParams(rt)}
				if name == "ATTENDEE" {
					p.Raw, p.Text = true, "mailto:"+rapid.SampledFrom([]string{"a@example.org", "b+c@example.org"}).Draw(rt, "mail")
				}
				if name == "X-B" {
					p.Raw = true
					p.Text = strings.NewReplacer("\n", " ", "\r", " ").Replace(p.Text)
				}
				c.Props = append(c.Props, p)
			}
			o.Comps = append(o.Comps, c)
		}
	} else {
		k := rapid.IntRange(0, 5).Draw(rt, "nfields")
		for x := 0; x < k; x++ {
			name := rapid.SampledFrom([]string{"EMAIL", "TEL", "NOTE", "X-A", "NICKNAME", "ORG"}).Draw(rt, "fname")
			p := P{Name: name, Text: genText().Draw(rt, "ftext")}
			if rapid.IntRange(0, 2).Draw(rt, "fparam") == 0 {
				p.Params = [][2]string{{"TYPE", rapid.SampledFrom([]string{"home", "work", "a b"}).Draw(rt, "ftype")}}
			}
			o.Card = append(o.Card, p)
		}
	}
	return o
}

func genColls(rt *rapid.T, cal bool, minColl int) []Coll {
	n := rapid.IntRange(minColl, 3).Draw(rt, "ncolls")
	var l []Coll
	for i := 0; i < n; i++ {
		c := Coll{Name: fmt.Sprintf("%s%d", genSeg(rt, "cname", ""), i), Display: genCollText().Draw(rt, "display"), Desc: genCollText().Draw(rt, "desc")}
		if rapid.Bool().Draw(rt, "hasmax") {
			c.Max = rapid.Int64Range(1, 1<<40).Draw(rt, "max")
		}
		if cal {
			switch rapid.IntRange(0, 3).Draw(rt, "compkind") {
			case 0:
				c.NilComp = true
			case 1:
				c.Comps = []string{}
			default:
				c.Comps = rapid.SliceOfN(rapid.SampledFrom([]string{"VEVENT", "VTODO", "VJOURNAL", "X-C"}), 1, 3).Draw(rt, "comps")
			}
		}
		m := rapid.IntRange(0, 3).Draw(rt, "nobjs")
		for j := 0; j < m; j++ {
			c.Objs = append(c.Objs, genObj(rt, j, cal))
		}
		l = append(l, c)
	}
	return l
}

func needsEsc(s string) bool {
	return strings.ContainsAny(s, " %#?;+\"'<>&\\,:\n\x00é💥")
}

func nontrivial(c Case) bool {
	for _, f := range c.Fail {
		if f != 0 {
			return true
		}
	}
	for _, cl := range c.Colls {
		if needsEsc(cl.Name) || needsEsc(cl.Display) || needsEsc(cl.Desc) {
			return true
		}
		for _, o := range cl.Objs {
			if needsEsc(o.Name) || needsEsc(string(o.ETag)) {
				return true
			}
			for _, cc := range o.Comps {
				for _, p := range cc.Props {
					if needsEsc(p.Text) {
						return true
					}
				}
			}
			for _, p := range o.Card {
				if needsEsc(p.Text) {
					return true
				}
			}
		}
	}
	return false
}

func run(t *testing.T, rt *rapid.T, c Case) {
	rec.Case(c.Kind, nontrivial(c), mustJSON(c), func() any { return c })
	o, err := evaluate(c)
	if err != nil {
		rt.Fatalf("harness: %v", err)
	}
	if o.OK() || rec.Known(o.Sig) {
		return
	}
	rec.Fail(rt, o.Sig, "c10", c, "%s", o.Msg)
}

func TestAReplay(t *testing.T) {
	vev.RunReplays(t, rec, func(kind string, raw json.RawMessage) (vev.Outcome, error) {
		var c Case
		if err := json.Unmarshal(raw, &c); err != nil {
			return vev.Outcome{}, err
		}
		return evaluate(c)
	})
}

func TestPipelines(t *testing.T) {
	if vev.ReplayFile() != "" {
		t.Skip()
	}
	vev.Rapid(t, rec, 0, vev.N(700, 50000), func(rt *rapid.T) {
		cal := rapid.Bool().Draw(rt, "cal")
		c := Case{Kind: "carddav"}
		if cal {
			c.Kind = "caldav"
		}
		c.Colls = genColls(rt, cal, 0)
		if rapid.Bool().Draw(rt, "put") {
			o := genObj(rt, 9, cal)
			c.Put = &o
			switch rapid.IntRange(0, 2).Draw(rt, "putpath") {
			case 0:
				c.PutPath = ""
			case 1:
				c.PutPath = home + "c/" + o.Name
				if !cal {
					c.PutPath = home + "b/" + o.Name // exactly where the request asked
				}
			default:
				c.PutPath = home + genSeg(rt, "putcoll", "/") + genSeg(rt, "putname", ".new")
			}
			c.PutRel = rapid.IntRange(0, 2).Draw(rt, "putrel") == 0
		}
		run(t, rt, c)
	})
}

func TestMultigetMixed(t *testing.T) {
	if vev.ReplayFile() != "" {
		t.Skip()
	}
	vev.Rapid(t, rec, 1, vev.N(500, 40000), func(rt *rapid.T) {
		cal := rapid.Bool().Draw(rt, "cal")
		c := Case{Kind: "multiget-mixed", Server: "carddav"}
		if cal {
			c.Server = "caldav"
		}
		cl := Coll{Name: genSeg(rt, "cname", "")}
		n := rapid.IntRange(1, 6).Draw(rt, "nobjs")
		for j := 0; j < n; j++ {
			cl.Objs = append(cl.Objs, genObj(rt, j, cal))
			c.Fail = append(c.Fail, rapid.SampledFrom([]int{0, 0, 0, 1, 403, 404, 507, 423, -404, -423, -403, 420, 599, 499}).Draw(rt, "fail"))
		}
		c.Colls = []Coll{cl}
		run(t, rt, c)
	})
}

func TestClientsFed(t *testing.T) {
	if vev.ReplayFile() != "" {
		t.Skip()
	}
	vev.Rapid(t, rec, 2, vev.N(800, 60000), func(rt *rapid.T) {
		c := Case{Kind: rapid.SampledFrom([]string{"fed-caldav", "fed-carddav", "fed-sync"}).Draw(rt, "kind")}
		c.Colls = genColls(rt, c.Kind == "fed-caldav", 1)
		c.Lexical = rapid.SliceOfN(rapid.IntRange(0, 11), 40, 40).Draw(rt, "lexical")
		c.Split = rapid.Bool().Draw(rt, "split")
		c.AbsHref = rapid.Bool().Draw(rt, "abshref")
		if c.Kind == "fed-sync" {
			c.Token = rapid.SampledFrom([]string{"t1", "http://example.org/sync/42", "a b", ""}).Draw(rt, "token")
			for i := range c.Colls[0].Objs {
				if rapid.IntRange(0, 2).Draw(rt, "deleted") == 0 {
					c.Deleted = append(c.Deleted, i)
				}
			}
		}
		run(t, rt, c)
	})
}

func mustJSON(v any) string {
	b, _ := json.Marshal(v)
	return string(b)
}
