package cfs

import (
	"encoding/json"
	"testing"

	"github.com/emersion/go-webdav/verifharness/vev"
)

// TestReplay runs first (file order): committed witnesses, or VERIF_REPLAY.
func TestReplay(t *testing.T) {
	for _, x := range []struct {
		rec *vev.Rec
		sel func(verdicts) vev.Outcome
	}{{rec01, func(v verdicts) vev.Outcome { return v.o01 }}, {rec02, func(v verdicts) vev.Outcome { return v.o02 }}, {rec17, func(v verdicts) vev.Outcome { return v.o17 }}} {
		x := x
		vev.RunReplays(t, x.rec, func(kind string, raw json.RawMessage) (vev.Outcome, error) {
			var c Case
			if err := json.Unmarshal(raw, &c); err != nil {
				return vev.Outcome{}, err
			}
			return x.sel(runCase(t, c)), nil
		})
	}
}

