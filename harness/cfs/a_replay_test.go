package cfs

import (
	"encoding/json"
	"os"
	"testing"

	"github.com/emersion/go-webdav/verifharness/vev"
)

// TestReplay runs first (file order): committed witnesses, or VERIF_REPLAY.
func TestReplay(t *testing.T) {
	for _, x := range []struct {
		rec *vev.Rec
		sel func(verdicts) vev.Outcome
	}{{rec01, func(v verdicts) vev.Outcome { return v.o01 }}, {rec02, func(v verdicts) vev.Outcome { return v.o02 }}, {rec17, func(v verdicts) vev.Outcome { return v.o17 }}} {
		x := x
		vev.RunReplays(t, x.rec, func(kind string, raw json.RawMessage) (vev.Outcome, error) {
			if kind == "cfs-modes" {
				var mc ModeCase
				if err := json.Unmarshal(raw, &mc); err != nil {
					return vev.Outcome{}, err
				}
				m := newModeEnv(t, mc.ViaLink)
				defer os.RemoveAll(m.base)
				_, o, err := m.run(mc.Req)
				return o, err
			}
			if kind == "cfs-links" {
				if x.rec != rec01 {
					return vev.Outcome{}, nil
				}
				var lc LinkCase
				if err := json.Unmarshal(raw, &lc); err != nil {
					return vev.Outcome{}, err
				}
				e, err := newLinkEnv()
				if err != nil {
					return vev.Outcome{}, err
				}
				defer os.RemoveAll(e.base)
				_, o, err := evalLinks(e, lc)
				return o, err
			}
			if kind == "cfs-perm" {
				var pc PermCase
				if err := json.Unmarshal(raw, &pc); err != nil {
					return vev.Outcome{}, err
				}
				p, err := newPermEnv()
				if err != nil {
					return vev.Outcome{}, nil
				}
				defer func() { os.Chmod(p.root+"/locked", 0o755); os.RemoveAll(p.base) }()
				_, o02, o17, err := evalPerm(p, pc)
				if err != nil {
					t.Logf("permission-denied witness skipped: %v", err)
					return vev.Outcome{}, nil
				}
				if x.rec == rec17 {
					return o17, nil
				}
				return o02, nil
			}
			if kind == "cfs-mount" {
				var mc MountCase
				if err := json.Unmarshal(raw, &mc); err != nil {
					return vev.Outcome{}, err
				}
				m, err := newMountEnv()
				if err != nil {
					t.Logf("mount refused (%v): witness skipped", err)
					return vev.Outcome{}, nil
				}
				defer m.close()
				_, o02, o17, err := evalMount(m, mc)
				if x.rec == rec17 {
					return o17, err
				}
				return o02, err
			}
			var c Case
			if err := json.Unmarshal(raw, &c); err != nil {
				return vev.Outcome{}, err
			}
			return x.sel(runCase(t, c)), nil
		})
	}
}

