package cfs

import (
	"time"
	"crypto/sha256"
	"encoding/hex"
	"fmt"
	"os"
	"path/filepath"
	"strings"
	"testing"

	"github.com/emersion/go-webdav/verifharness/vev"
	"github.com/emersion/go-webdav/verifharness/vfs"
	"pgregory.net/rapid"
)

var (
	rec01 = vev.For("C01")
	rec02 = vev.For("C02")
	rec17 = vev.For("C17")
)

func TestMain(m *testing.M) {
	if os.Getenv("VERIF_PERM_CHILD") != "" {
		permChild() // the unprivileged child of the permission-denied family (perm_test.go)
		os.Exit(0)
	}
	rec01.SetRule("(tree state, request) pairs served by webdav.Handler over LocalFileSystem on a real directory and compared with the abstract RFC 4918 model: engine A = product of all 361 trees over names {a,b} (depth <= 2, contents '1'/'22') with a fixed request set (every method x 8 paths; PROPFIND x Depth x body form; COPY/MOVE x 8 sources x 12 destination forms x Depth x Overwrite; conditional PUT/DELETE) - complete in the thorough tier, a fixed-seed sample in the quick tier; a third of the pairs is repeated under a renaming of the two names ({..b,b}, {a,...}, {'a b',a%41}, {.a,a.}, {-,e-acute}, {n,n.bak}, {ab,a}, {a.html,b}, {a,b.html}) or another spelling of the request paths (trailing slash on target and/or destination, '/./', '//'); engine B = rapid state-machine histories over 8 names with URL/XML metacharacters, depth <= 4, contents up to 256 KiB. non-trivial = the request touches an existing resource (target, source, destination or required parent); distinct by (canonical tree, request)")
	rec02.SetRule("same exploration as C01 plus a cross-device / disk-full family (COPY, MOVE, PUT, MKCOL, DELETE between the main file system and a 128 kB tmpfs mounted on a collection, empty and filled to the last byte) and a permission-denied family (every method on a fixture with writable, read-only, unreadable, untraversable and partly removable parts, served in a child process running as uid 65534) plus PUT bodies that fail after k bytes (every k for bodies <= 64 bytes, offsets around the 32 KiB copy buffer for large ones; plain error, unexpected EOF, cancelled context) against absent and existing targets; model-free oracle: any response >= 400 must leave the on-disk tree (names, kinds, bytes) unchanged. non-trivial = response >= 400 while some resource the request names exists; distinct by (canonical tree, request)")
	rec17.SetRule("every response of the C01/C02 exploration plus a failure-mode enumerator (ENOENT, EEXIST, EISDIR, ENOTDIR, ENOTEMPTY, EINVAL, ENAMETOOLONG, ELOOP; root reached directly and through a symlinked parent) and a cross-device / disk-full family (EXDEV, ENOSPC on a 128 kB tmpfs mounted inside the served directory) and a permission-denied family (EACCES: requests served in a child process running as uid 65534) is scanned (all header values and the body) for the random tokens in the served directory's host path, the configured root string and its symlink-resolved form. non-trivial = response >= 400 with a non-empty body; distinct by (canonical tree, request)")
	for _, r := range []*vev.Rec{rec01, rec02, rec17} {
		r.Assume("EIO cannot be produced in this sandbox; EXDEV and ENOSPC are produced by the mount-mode family (a 128 kB tmpfs mounted inside the served directory) and EACCES by the permission-denied family (each request served in a child process running as uid 65534) where the sandbox permits mounting / changing uid, and skipped - counted as mount-modes/skipped-... and perm-modes/skipped-... - where it does not", "names never contain '/' or NUL and are not '.' or '..' (C03 covers those)")
	}
	rec01.Assume("entity tags are never predicted, only their shape (quoted string) and agreement with HEAD; MIME types are not asserted", "DELETE / is modelled single-step: everything below the root goes, whether the root directory itself remains is not asserted")
	vev.Main(m)
}

// Case is the replayable unit: an initial tree and a request history.
type Case struct {
	Tree   *JNode    `json:"tree"`
	Reqs   []vfs.Req `json:"reqs"`
	Secret bool      `json:"secret_root,omitempty"`
	// NoModel: the case involves a name the host file system cannot hold (longer than 255 bytes); the abstract model
	// knows no such limit, so only the model-free oracles (C02, C17) apply
	NoModel bool `json:"no_model,omitempty"`
	// MTimes: modification times (unix seconds) given to files of the initial tree after it has been materialised
	// (after C01-s15 / C04-s14: the epoch and instants before it are ordinary modification times)
	MTimes map[string]int64 `json:"mtimes,omitempty"`
	// Links: symbolic links (path below the root, target; "$ROOT/" in a target stands for the served directory) planted
	// after the tree has been materialised; model-free families only
	Links [][2]string `json:"links,omitempty"`
	// Linked: files of the initial tree that are moved out of the served directory after materialisation, a symbolic
	// link (absolute target) left in their place: to the model they are the files they were
	Linked []string `json:"linked,omitempty"`
}

func (e *env) linkify(paths []string) {
	for _, p := range paths {
		if err := Linkify(e.root, strings.TrimPrefix(p, "/"), filepath.Join(e.base, "linked-targets")); err != nil {
			e.t.Fatalf("linkify %s: %v", p, err)
		}
	}
}

func (e *env) plant(links [][2]string) {
	if len(links) == 0 {
		return
	}
	for _, l := range links {
		os.Symlink(strings.Replace(l[1], "$ROOT/", e.root+"/", 1), filepath.Join(e.root, filepath.FromSlash(l[0])))
	}
	if snap, err := Snapshot(e.root); err == nil {
		e.have = snap
	}
}

func (e *env) setTimes(m map[string]int64) {
	for p, v := range m {
		os.Chtimes(filepath.Join(e.root, filepath.FromSlash(p)), time.Unix(v, 0), time.Unix(v, 0))
	}
}

type env struct {
	t       testing.TB
	base    string // scratch dir
	root    string
	secrets []string
	srv     *Server
	have    *vfs.Node // what is on disk now
}

func token() string {
	b := make([]byte, 16)
	f, _ := os.Open("/dev/urandom")
	f.Read(b)
	f.Close()
	h := sha256.Sum256(b)
	return "tok" + hex.EncodeToString(h[:6])
}

var envCounter int

func newEnv(t testing.TB) *env {
	base, err := os.MkdirTemp("", "cfs")
	if err != nil {
		t.Fatal(err)
	}
	a, b := token(), token()
	root := filepath.Join(base, a, b, "root")
	if err := os.MkdirAll(root, 0o755); err != nil {
		t.Fatal(err)
	}
	// the configured root string is spelled in several equivalent ways
	spelled := root
	envCounter++
	switch envCounter % 4 {
	case 1:
		spelled = root + "/"
	case 2:
		spelled = filepath.Join(base, a) + "/./" + b + "//root"
	case 3:
		// relative to the working directory, as in `webdav-server ./public`
		if wd, err := os.Getwd(); err == nil {
			if rel, err := filepath.Rel(wd, root); err == nil {
				spelled = "./" + rel
			}
		}
	}
	return &env{t: t, base: base, root: root, secrets: []string{a, b, root}, srv: NewServer(spelled), have: vfs.NewDir()}
}

func (e *env) close() { os.RemoveAll(e.base) }

func (e *env) set(want *vfs.Node) {
	if e.have == nil {
		os.MkdirAll(e.root, 0o755)
		e.have = vfs.NewDir()
	}
	if err := Sync(e.root, e.have, want); err != nil {
		e.t.Fatalf("cannot materialise %s: %v", want, err)
	}
	e.have = want.Clone()
}

// step serves one request on the current disk state and returns the Step.
func (e *env) step(r vfs.Req) (Step, error) {
	before := e.have.Clone()
	resp, err := e.srv.Do(r)
	if err != nil {
		return Step{}, err
	}
	after, err := Snapshot(e.root)
	if err != nil {
		e.t.Fatalf("snapshot: %v", err)
	}
	e.have = after
	return Step{Before: before, Req: r, Resp: resp, After: after}, nil
}

func touchesExisting(t *vfs.Node, r vfs.Req) bool {
	segs := vfs.Segs(r.Path)
	if _, k := t.Lookup(segs); k.Exists() {
		return true
	}
	if r.Method == "PUT" || r.Method == "MKCOL" {
		if _, k := t.Lookup(segs); k == vfs.Missing && len(segs) > 1 {
			return true // an existing non-root parent is needed
		}
	}
	if r.HasDest {
		if ds, ok := vfs.ParseDest(r.Dest); ok {
			if _, k := t.Lookup(ds); k.Exists() || (k == vfs.Missing && len(ds) > 1) {
				return true
			}
		}
	}
	return false
}

type verdicts struct{ o01, o02, o17 vev.Outcome }

// judge runs the three oracles on a step and records the evidence.
func (e *env) judge(st Step, engine string) verdicts {
	key := st.Before.String() + "\x00" + st.Req.String()
	cls := ClassOf(st.Before, st.Req)
	touch := touchesExisting(st.Before, st.Req)
	sample := func() any {
		return map[string]any{"tree": st.Before.String(), "request": st.Req.String(), "status": st.Resp.Status, "tree_after": treeOrGone(st.After)}
	}
	short := engine + "/" + strings.SplitN(cls, ",", 2)[0]
	rec01.Case(short, touch, key, sample)
	rec02.Case(short+fmt.Sprintf("/%dxx", st.Resp.Status/100), st.Resp.Status >= 400 && touch, key, sample)
	rec17.Case(short+fmt.Sprintf("/%dxx", st.Resp.Status/100), st.Resp.Status >= 400 && len(st.Resp.Body) > 0, key, func() any {
		return map[string]any{"tree": st.Before.String(), "request": st.Req.String(), "status": st.Resp.Status, "body": fmt.Sprintf("%.200s", st.Resp.Body)}
	})
	var v verdicts
	if st.Req.FailAfter == nil {
		v.o01 = CheckC01(st, e.srv)
	}
	v.o02 = CheckC02(st)
	v.o17 = CheckC17(st, e.secrets)
	return v
}

// report turns deviations into violations (enumerators).
func report(t *testing.T, c Case, v verdicts) {
	for _, x := range []struct {
		rec *vev.Rec
		o   vev.Outcome
	}{{rec01, v.o01}, {rec02, v.o02}, {rec17, v.o17}} {
		if x.o.OK() || !x.rec.Active() || x.rec.Known(x.o.Sig) {
			continue
		}
		x.rec.Violation(t, x.o.Sig, "cfs", c, "%s", x.o.Msg)
	}
}

// ---------------------------------------------------------------------------
// engine A: complete small scope

func smallStates() []*vfs.Node {
	files := []func() *vfs.Node{func() *vfs.Node { return vfs.NewFile("1") }, func() *vfs.Node { return vfs.NewFile("22") }}
	// level-2 entry: absent | f1 | f22 | empty dir
	l2 := []func() *vfs.Node{func() *vfs.Node { return nil }, files[0], files[1], func() *vfs.Node { return vfs.NewDir() }}
	// level-1 entry: absent | f1 | f22 | dir{a:l2, b:l2}
	var l1 []func() *vfs.Node
	l1 = append(l1, func() *vfs.Node { return nil }, files[0], files[1])
	for _, a := range l2 {
		for _, b := range l2 {
			a, b := a, b
			l1 = append(l1, func() *vfs.Node {
				d := vfs.NewDir()
				if x := a(); x != nil {
					d.Kids["a"] = x
				}
				if x := b(); x != nil {
					d.Kids["b"] = x
				}
				return d
			})
		}
	}
	var out []*vfs.Node
	for _, a := range l1 {
		for _, b := range l1 {
			d := vfs.NewDir()
			if x := a(); x != nil {
				d.Kids["a"] = x
			}
			if x := b(); x != nil {
				d.Kids["b"] = x
			}
			out = append(out, d)
		}
	}
	return out
}

var smallPaths = []string{"/", "/a", "/b", "/a/a", "/a/b", "/b/a", "/b/b", "/a/a/a"}

const (
	pfAllprop  = `<?xml version="1.0" encoding="utf-8"?><D:propfind xmlns:D="DAV:"><D:allprop/></D:propfind>`
	pfProp     = `<D:propfind xmlns:D="DAV:"><D:prop><D:resourcetype/><D:getcontentlength/><D:getetag/><D:getlastmodified/></D:prop></D:propfind>`
	pfPropname = `<D:propfind xmlns:D="DAV:"><D:propname/></D:propfind>`
	// the same local names also asked for in a foreign namespace, before and after their DAV: twins: what is stored
	// must still be reported (added after seeded change C01-s10)
	pfPropTwin = `<D:propfind xmlns:D="DAV:" xmlns:X="urn:x"><D:prop><X:getcontentlength/><D:resourcetype/><D:getcontentlength/><D:getetag/><X:getetag/><D:getlastmodified/><X:resourcetype/></D:prop></D:propfind>`
)

func smallRequests() (basic, copymove []vfs.Req) {
	for _, p := range smallPaths {
		for _, m := range []string{"OPTIONS", "GET", "HEAD", "DELETE", "LOCK", "FROB"} {
			basic = append(basic, vfs.Req{Method: m, Path: p})
		}
		basic = append(basic,
			vfs.Req{Method: "PUT", Path: p, Body: "1"}, vfs.Req{Method: "PUT", Path: p, Body: "333"}, vfs.Req{Method: "PUT", Path: p, Body: ""},
			vfs.Req{Method: "MKCOL", Path: p}, vfs.Req{Method: "MKCOL", Path: p, ContentType: "application/xml", Body: "<x/>"}, vfs.Req{Method: "MKCOL", Path: p, ContentType: "text/plain"})
		for _, d := range []string{"", "0", "1", "infinity", "2"} {
			basic = append(basic, vfs.Req{Method: "PROPFIND", Path: p, Depth: d},
				vfs.Req{Method: "PROPFIND", Path: p, Depth: d, Body: pfAllprop, ContentType: "application/xml"},
				vfs.Req{Method: "PROPFIND", Path: p, Depth: d, Body: pfProp, ContentType: `text/xml; charset="utf-8"`})
		}
		basic = append(basic, vfs.Req{Method: "PROPFIND", Path: p, Depth: "1", Body: pfPropname, ContentType: "application/xml"},
			vfs.Req{Method: "PROPFIND", Path: p, Depth: "1", Body: pfPropTwin, ContentType: "application/xml"},
			vfs.Req{Method: "PROPFIND", Path: p, Depth: "0", Body: pfPropTwin, ContentType: "application/xml"})
	}
	for _, p := range []string{"/a", "/a/a", "/b"} {
		for _, m := range []string{"PUT", "DELETE"} {
			for _, im := range []string{"", "*", vfs.CurTag, `"other"`, "abc"} {
				for _, inm := range []string{"", "*", vfs.CurTag, `"other"`, `W/"x"`} {
					if im == "" && inm == "" {
						continue
					}
					basic = append(basic, vfs.Req{Method: m, Path: p, Body: "4444", IfMatch: im, IfNoneMatch: inm})
				}
			}
		}
	}
	type dst struct {
		has bool
		v   string
	}
	var dests []dst
	for _, p := range smallPaths {
		dests = append(dests, dst{true, p})
	}
	dests = append(dests, dst{false, ""}, dst{true, "http://[::1"}, dst{true, "b"}, dst{true, "http://other.example/b"})
	for _, m := range []string{"COPY", "MOVE"} {
		for _, p := range smallPaths {
			for _, d := range dests {
				for _, depth := range []string{"", "0", "1", "infinity", "x"} {
					for _, ow := range []string{"", "T", "F", "t"} {
						copymove = append(copymove, vfs.Req{Method: m, Path: p, HasDest: d.has, Dest: d.v, Depth: depth, Overwrite: ow})
					}
				}
			}
		}
	}
	return
}

// Engine A variants: the same (state, request) pair under a renaming of the two names or another spelling of the
// request paths.  The model is name-agnostic, so the expected outcome is the renamed expected outcome; the server
// may not be (names that start with dots, that contain blanks or percent signs; a trailing slash).
var aliasPairs = [][2]string{{"..b", "b"}, {"a", "..."}, {"a b", "a%41"}, {".a", "a."}, {"-", "é"}, {"n", "n.bak"}, {"ab", "a"}, {"a.html", "b"}, {"a", "b.html"}, {".webdav-upload-1", "b"}, {"a", ".webdav-replaced-2"}} // the last two: names shaped like the server's own scratch entries are ordinary names (after C11-s15)

var nVariants = len(aliasPairs) + 4

func renamePath(p string, al [2]string) string {
	if !strings.HasPrefix(p, "/") {
		return p
	}
	segs := strings.Split(p, "/")
	for i, sg := range segs {
		switch sg {
		case "a":
			segs[i] = al[0]
		case "b":
			segs[i] = al[1]
		}
	}
	return strings.Join(segs, "/")
}

func renameTree(n *vfs.Node, al [2]string) *vfs.Node {
	if n == nil {
		return nil
	}
	c := &vfs.Node{Dir: n.Dir, Data: n.Data}
	if n.Kids != nil {
		c.Kids = map[string]*vfs.Node{}
		for k, v := range n.Kids {
			c.Kids[renamePath("/"+k, al)[1:]] = renameTree(v, al)
		}
	}
	return c
}

func variant(s *vfs.Node, r vfs.Req, k int) (*vfs.Node, vfs.Req) {
	if r.Body != "" && k%2 == 0 {
		r.Chunked = true // the variants of requests with a body also come without a declared length
	}
	slash := func(p string) string {
		if strings.HasPrefix(p, "/") && !strings.HasSuffix(p, "/") {
			return p + "/"
		}
		return p
	}
	na := len(aliasPairs)
	switch {
	case k < na:
		al := aliasPairs[k]
		r.Path = renamePath(r.Path, al)
		if r.HasDest {
			r.Dest = renamePath(r.Dest, al)
		}
		return renameTree(s, al), r
	case k == na:
		r.Path = slash(r.Path)
	case k == na+1:
		if r.HasDest {
			r.Dest = slash(r.Dest)
		} else {
			r.Path = slash(r.Path)
		}
	case k == na+2:
		r.Path = slash(r.Path)
		if r.HasDest {
			r.Dest = slash(r.Dest)
		}
	default:
		// "/./" and "//" inside the path: other spellings of the same resource
		r.Path = strings.Replace(r.Path, "/", "/./", 1)
		if r.HasDest && strings.HasPrefix(r.Dest, "/") {
			r.Dest = "/" + r.Dest
		}
	}
	return s, r
}

func TestEngineA(t *testing.T) {
	if vev.ReplayFile() != "" {
		t.Skip()
	}
	states := smallStates()
	basic, cm := smallRequests()
	e := newEnv(t)
	defer e.close()
	full := vev.Thorough()
	seed := uint64(vev.SeedValue())
	idx := 0
	for si, s := range states {
		reqs := make([]vfs.Req, 0, len(basic)+len(cm))
		reqs = append(reqs, basic...)
		reqs = append(reqs, cm...)
		for ri, r := range reqs {
			idx++
			if full {
				if !vev.MyShare(idx) {
					continue
				}
			} else {
				h := vev.Hash(fmt.Sprintf("%d/%d/%d", seed, si, ri))
				if ri < len(basic) && h%4 != 0 || ri >= len(basic) && h%48 != 0 {
					continue
				}
			}
			if (r.IfMatch == vfs.CurTag || r.IfNoneMatch == vfs.CurTag) && func() bool { _, k := s.Lookup(vfs.Segs(r.Path)); return k != vfs.File }() {
				continue // the current tag is only obtainable for files
			}
			e.set(s)
			st, err := e.step(r)
			if err != nil {
				t.Fatalf("cannot serve %s: %v", r, err)
			}
			report(t, Case{Tree: ToJ(s), Reqs: []vfs.Req{r}}, e.judge(st, "A"))
			if hv := vev.Hash(fmt.Sprintf("variant/%d/%d/%d", seed, si, ri)); hv%3 == 0 {
				s2, r2 := variant(s, r, int(hv/3%uint64(nVariants)))
				e.set(s2)
				st, err := e.step(r2)
				if err != nil {
					t.Fatalf("cannot serve %s: %v", r2, err)
				}
				report(t, Case{Tree: ToJ(s2), Reqs: []vfs.Req{r2}}, e.judge(st, "A/variant"))
			}
		}
	}
	if full {
		for _, r := range []*vev.Rec{rec01, rec02, rec17} {
			r.ExhaustiveSub(fmt.Sprintf("engine A: all %d tree states x all %d requests of the fixed request set", len(states), len(basic)+len(cm)))
		}
	}
}

// ---------------------------------------------------------------------------
// C02: body faults on PUT

func TestBodyFaults(t *testing.T) {
	if vev.ReplayFile() != "" {
		t.Skip()
	}
	e := newEnv(t)
	defer e.close()
	mk := func(files map[string]string) *vfs.Node {
		d := vfs.NewDir()
		sub := vfs.NewDir()
		d.Kids["dir"] = sub
		for k, v := range files {
			d.Kids[k] = vfs.NewFile(v)
		}
		sub.Kids["keep"] = vfs.NewFile("keep")
		return d
	}
	small := "0123456789abcdefghijklmnopqrstuvwxyzABCDEFGHIJKLMNOPQRSTUVWXYZ-_"
	big := strings.Repeat("0123456789abcdef", 5000) // 80000 bytes: crosses 32 KiB twice
	idx := 0
	for _, body := range []string{"", "x", small, big} {
		var offs []int
		if len(body) <= 64 {
			for k := 0; k <= len(body); k++ {
				offs = append(offs, k)
			}
		} else {
			offs = []int{0, 1, 32767, 32768, 32769, 65535, 65536, 65537, len(body) - 1, len(body)}
		}
		for _, k := range offs {
			for _, kind := range []string{"error", "unexpected-eof", "canceled"} {
				for _, target := range []string{"/new", "/old", "/dir/new", "/dir/keep", "/dir", "/nodir/x"} {
					idx++
					if !vev.MyShare(idx) {
						continue
					}
					k := k
					s := mk(map[string]string{"old": "previous content of old"})
					e.set(s)
					r := vfs.Req{Method: "PUT", Path: target, Body: body, FailAfter: &k, FailKind: kind}
					st, err := e.step(r)
					if err != nil {
						t.Fatal(err)
					}
					report(t, Case{Tree: ToJ(s), Reqs: []vfs.Req{r}}, e.judge(st, "F"))
				}
			}
		}
	}
	// the context is cancelled after k bytes but the body still arrives completely
	for _, body := range []string{"", "x", small, big} {
		for _, k := range []int{0, 1, len(body) / 2, len(body)} {
			for _, target := range []string{"/new", "/old", "/dir/keep", "/dir", "/nodir/x"} {
				idx++
				if !vev.MyShare(idx) {
					continue
				}
				k := k
				s := mk(map[string]string{"old": "previous content of old"})
				e.set(s)
				r := vfs.Req{Method: "PUT", Path: target, Body: body, CancelAfter: &k}
				st, err := e.step(r)
				if err != nil {
					t.Fatal(err)
				}
				report(t, Case{Tree: ToJ(s), Reqs: []vfs.Req{r}}, e.judge(st, "F"))
			}
		}
	}
	// uploads addressed to symbolic links (after C02-s11): a link that leads nowhere and a link to another file of the
	// served directory; a failing upload leaves the link, and whatever it names, as they were.  Model-free (C02, C17).
	for _, body := range []string{"", "x", small, big} {
		for _, k := range []int{0, 1, len(body) / 2, len(body)} {
			for _, kind := range []string{"error", "canceled"} {
				for _, target := range []string{"/dangling", "/tolink", "/dir/dangling2"} {
					idx++
					if !vev.MyShare(idx) {
						continue
					}
					k := k
					s := mk(map[string]string{"old": "previous content of old"})
					e.have = nil
					os.RemoveAll(e.root)
					e.set(s)
					links := [][2]string{{"dangling", "$ROOT/ghost"}, {"tolink", "$ROOT/old"}, {"dir/dangling2", "nowhere/at/all"}}
					e.plant(links)
					r := vfs.Req{Method: "PUT", Path: target, Body: body, FailAfter: &k, FailKind: kind}
					st, err := e.step(r)
					if err != nil {
						t.Fatal(err)
					}
					v := e.judge(st, "F/link")
					v.o01 = vev.Outcome{}
					report(t, Case{Tree: ToJ(s), Reqs: []vfs.Req{r}, NoModel: true, Links: links}, v)
					e.have = nil
					os.RemoveAll(e.root)
				}
			}
		}
	}
	rec02.ExhaustiveSub("PUT body failure at every offset of bodies of 0, 1 and 64 bytes and at offsets around 32 KiB/64 KiB of an 80000-byte body x 3 failure kinds x 6 target kinds")
}

// ---------------------------------------------------------------------------
// names at and beyond the host's file-name limit (after C01-s14, C02-s9): a name of up to 255 bytes is an ordinary
// name and the model applies in full - whatever the server derives from it (temporary upload names, set-aside names)
// must still fit; a longer name cannot be stored, and a request that fails for it must leave nothing behind (C02)
// and disclose nothing (C17)

func TestLongNames(t *testing.T) {
	if vev.ReplayFile() != "" {
		t.Skip()
	}
	e := newEnv(t)
	defer e.close()
	l200, l230, l255 := "n200"+strings.Repeat("x", 196), "n230"+strings.Repeat("y", 226), "n255"+strings.Repeat("z", 251)
	cjk := strings.Repeat("\u8a9e", 85) // 255 bytes in 85 characters
	l256, l300 := "n256"+strings.Repeat("o", 252), "n300"+strings.Repeat("p", 296)
	state := func(names ...string) *vfs.Node {
		d := vfs.NewDir()
		d.Kids["a"] = vfs.NewFile("content of a")
		sub := vfs.NewDir()
		sub.Kids["k"] = vfs.NewFile("kept")
		d.Kids["d"] = sub
		for i, n := range names {
			if i%2 == 0 {
				d.Kids[n] = vfs.NewFile("old " + n[:4])
			} else {
				x := vfs.NewDir()
				x.Kids[n] = vfs.NewFile("inner")
				d.Kids[n] = x
			}
		}
		return d
	}
	states := []*vfs.Node{state(), state(l230), state(l255, cjk), state(l200, l255)}
	idx := 0
	for _, s := range states {
		for _, n := range []string{l200, l230, l255, cjk, l256, l300} {
			over := len(n) > 255
			var reqs []vfs.Req
			for _, p := range []string{"/" + n, "/d/" + n, "/" + n + "/" + n} {
				for _, m := range []string{"GET", "HEAD", "DELETE", "MKCOL", "OPTIONS"} {
					reqs = append(reqs, vfs.Req{Method: m, Path: p})
				}
				reqs = append(reqs, vfs.Req{Method: "PUT", Path: p, Body: "new content"}, vfs.Req{Method: "PUT", Path: p, Body: strings.Repeat("0123456789abcdef", 4097)},
					vfs.Req{Method: "PROPFIND", Path: p, Depth: "1", Body: pfAllprop, ContentType: "application/xml"})
				for _, other := range []string{"/a", "/d", "/new", "/d/" + l255} {
					for _, m := range []string{"COPY", "MOVE"} {
						for _, ow := range []string{"", "F"} {
							reqs = append(reqs, vfs.Req{Method: m, Path: p, HasDest: true, Dest: EscapePath(other), Overwrite: ow},
								vfs.Req{Method: m, Path: other, HasDest: true, Dest: EscapePath(p), Overwrite: ow})
						}
					}
				}
			}
			for _, r := range reqs {
				idx++
				if !vev.MyShare(idx) {
					continue
				}
				e.set(s)
				st, err := e.step(r)
				if err != nil {
					continue
				}
				v := e.judge(st, "L")
				if over {
					v.o01 = vev.Outcome{}
					rec02.Count("name-beyond-255-bytes", 1)
				}
				report(t, Case{Tree: ToJ(s), Reqs: []vfs.Req{r}, NoModel: over}, v)
			}
		}
	}
	rec01.ExhaustiveSub("names of 200, 230 and 255 bytes (ASCII and 85 three-byte characters) as target, parent, source and destination of every method, on 4 states")
	rec02.ExhaustiveSub("names of 256 and 300 bytes as target, parent, source and destination of every method (model-free oracles only)")
}

// ---------------------------------------------------------------------------
// files whose modification time is the Unix epoch, lies before it or far in the future (after C01-s15, C04-s14):
// "zero" times of one layer or another must not make a date, a tag or the resource itself disappear

func TestOldFiles(t *testing.T) {
	if vev.ReplayFile() != "" {
		t.Skip()
	}
	e := newEnv(t)
	defer e.close()
	s := vfs.NewDir()
	s.Kids["a"] = vfs.NewFile("content of a")
	s.Kids["b"] = vfs.NewFile("b")
	d := vfs.NewDir()
	d.Kids["k"] = vfs.NewFile("kept")
	s.Kids["d"] = d
	idx := 0
	for _, mt := range []int64{0, -1, 1, -1000000000, -62135596800, 253402300799, 4102444800} {
		times := map[string]int64{"/a": mt, "/d/k": mt}
		var reqs []vfs.Req
		for _, p := range []string{"/a", "/d/k", "/", "/d"} {
			reqs = append(reqs, vfs.Req{Method: "GET", Path: p}, vfs.Req{Method: "HEAD", Path: p},
				vfs.Req{Method: "PROPFIND", Path: p, Depth: "0", Body: pfAllprop, ContentType: "application/xml"},
				vfs.Req{Method: "PROPFIND", Path: p, Depth: "1", Body: pfProp, ContentType: "text/xml"},
				vfs.Req{Method: "PROPFIND", Path: p, Depth: "infinity"})
		}
		for _, p := range []string{"/a", "/d/k"} {
			for _, cond := range [][2]string{{"", ""}, {"*", ""}, {"", "*"}, {vfs.CurTag, ""}, {"", vfs.CurTag}, {`"other"`, ""}, {"", `"other"`}, {vfs.CurTag, `"other"`}} {
				reqs = append(reqs, vfs.Req{Method: "PUT", Path: p, Body: "replacement", IfMatch: cond[0], IfNoneMatch: cond[1]},
					vfs.Req{Method: "DELETE", Path: p, IfMatch: cond[0], IfNoneMatch: cond[1]})
			}
			reqs = append(reqs, vfs.Req{Method: "COPY", Path: p, HasDest: true, Dest: "/copy"}, vfs.Req{Method: "MOVE", Path: p, HasDest: true, Dest: "/b"},
				vfs.Req{Method: "COPY", Path: "/b", HasDest: true, Dest: EscapePath(p), Overwrite: "F"}, vfs.Req{Method: "COPY", Path: "/b", HasDest: true, Dest: EscapePath(p)})
		}
		for _, r := range reqs {
			idx++
			if !vev.MyShare(idx) {
				continue
			}
			e.have = nil
			os.RemoveAll(e.root)
			e.set(s)
			e.setTimes(times)
			st, err := e.step(r)
			if err != nil {
				continue
			}
			report(t, Case{Tree: ToJ(s), Reqs: []vfs.Req{r}, MTimes: times}, e.judge(st, "T"))
		}
	}
	rec01.ExhaustiveSub("files with modification time 0, -1, +1, -10^9, year 1, year 9999 and 2100 x GET/HEAD/PROPFIND (3 forms) x conditional PUT/DELETE (8 header combinations) x COPY/MOVE")
}

// ---------------------------------------------------------------------------
// replay

func runCase(t testing.TB, c Case) verdicts {
	e := newEnv(t)
	defer e.close()
	tree := FromJ(c.Tree)
	if tree == nil {
		tree = vfs.NewDir()
	}
	e.set(tree)
	e.setTimes(c.MTimes)
	e.linkify(c.Linked)
	e.plant(c.Links)
	var last verdicts
	for _, r := range c.Reqs {
		if e.have == nil {
			e.set(vfs.NewDir())
		}
		st, err := e.step(r)
		if err != nil {
			continue
		}
		v := e.judge(st, "R")
		if c.NoModel {
			v.o01 = vev.Outcome{}
		}
		if !v.o01.OK() && last.o01.OK() {
			last.o01 = v.o01
		}
		if !v.o02.OK() && last.o02.OK() {
			last.o02 = v.o02
		}
		if !v.o17.OK() && last.o17.OK() {
			last.o17 = v.o17
		}
	}
	return last
}

var _ = rapid.Bool
