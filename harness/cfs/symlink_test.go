package cfs

import (
	"fmt"
	"os"
	"path/filepath"
	"sort"
	"strings"
	"testing"

	"github.com/emersion/go-webdav/verifharness/vev"
	"github.com/emersion/go-webdav/verifharness/vfs"
)

// Symbolic links inside the served directory (after C11-s11, C04-s12 and fix ec1e5ef).  The abstract model has no
// links, and what a COPY or a Depth-infinity walk does with a linked *directory* is not something the statement
// settles, so this family asks only what the statement does settle: a PROPFIND with Depth 1 names the addressed
// collection and every direct member exactly once - whatever kind of entry precedes it in the directory - and what it
// reports for a member is what a Depth 0 request to that member reports (kind, length, tag, date).

type LinkCase struct {
	Req   vfs.Req `json:"request"`
	Order int     `json:"order"` // which of the name orders of the fixture (the link sorts before, between or after the plain members)
}

type linkEnv struct {
	base, root string
	srv        *Server
}

func newLinkEnv() (*linkEnv, error) {
	base, err := os.MkdirTemp("", "cfslnk")
	if err != nil {
		return nil, err
	}
	root := filepath.Join(base, "root")
	return &linkEnv{base: base, root: root, srv: NewServer(root)}, nil
}

// fixture: plain file, plain directory, link to an outside file, link to an outside directory, dangling link;
// names[i] gives the directory order
func (e *linkEnv) fixture(order int) (want map[string]bool, dangling string) {
	os.RemoveAll(e.root)
	out := filepath.Join(e.base, "outside")
	os.RemoveAll(out)
	os.MkdirAll(filepath.Join(out, "dir", "sub"), 0o755)
	os.WriteFile(filepath.Join(out, "dir", "x"), []byte("x in the linked directory"), 0o644)
	os.WriteFile(filepath.Join(out, "file"), []byte("content of the linked file, longer than any link text............................................................"), 0o644)
	names := [][5]string{ // file, dir, link-to-file, link-to-dir, dangling
		{"a", "b", "c", "d", "e"}, {"e", "d", "c", "b", "a"}, {"c", "e", "a", "b", "d"}, {"b", "a", "e", "c", "d"}, {"d", "c", "b", "a", "e"}}[order]
	os.MkdirAll(filepath.Join(e.root, names[1], "inner"), 0o755)
	os.WriteFile(filepath.Join(e.root, names[0]), []byte("plain"), 0o644)
	os.WriteFile(filepath.Join(e.root, names[1], "k"), []byte("k"), 0o644)
	os.Symlink(filepath.Join(out, "file"), filepath.Join(e.root, names[2]))
	os.Symlink(filepath.Join(out, "dir"), filepath.Join(e.root, names[3]))
	os.Symlink(filepath.Join(out, "nowhere"), filepath.Join(e.root, names[4]))
	return map[string]bool{"/": true, "/" + names[0]: true, "/" + names[1]: true, "/" + names[2]: true, "/" + names[3]: true}, "/" + names[4]
}

func evalLinks(e *linkEnv, c LinkCase) (Resp, vev.Outcome, error) {
	want, dangling := e.fixture(c.Order)
	resp, err := e.srv.Do(c.Req)
	if err != nil {
		return resp, vev.Outcome{}, err
	}
	dev := func(kind, f string, a ...any) (Resp, vev.Outcome, error) {
		return resp, vev.Outcome{Sig: vev.Sig("links", c.Req.Method, "depth="+dflt(c.Req.Depth), kind), Msg: fmt.Sprintf("%s (name order %d): ", c.Req.String(), c.Order) + fmt.Sprintf(f, a...)}, nil
	}
	if resp.Panic != nil {
		return dev("panic", "panic: %v", resp.Panic)
	}
	if c.Req.Method != "PROPFIND" || c.Req.Path != "/" || c.Req.Depth != "1" {
		if resp.Status >= 500 && c.Req.Path != dangling {
			return dev("5xx", "answered %d (%.200q)", resp.Status, resp.Body)
		}
		return resp, vev.Outcome{}, nil
	}
	if resp.Status != 207 {
		return dev("status", "answered %d, want 207 (%.200q)", resp.Status, resp.Body)
	}
	reps, err := ParseMultiStatus(resp.Body)
	if err != nil {
		return dev("multistatus", "unreadable multi-status: %v", err)
	}
	seen := map[string]int{}
	for _, r := range reps {
		seen[r.Path]++
	}
	var missing, extra []string
	for p := range want {
		if seen[p] != 1 {
			missing = append(missing, fmt.Sprintf("%s x%d", p, seen[p]))
		}
	}
	for p := range seen {
		if !want[p] && p != dangling { // whether a link that leads nowhere is listed is left open
			extra = append(extra, p)
		}
	}
	sort.Strings(missing)
	sort.Strings(extra)
	if len(missing) > 0 || len(extra) > 0 {
		return dev("members", "the listing must name / and its four resolvable members exactly once each; wrong count for %v, unexpected %v", missing, extra)
	}
	// what the listing says about a member is what the member says about itself
	for _, r := range reps {
		if r.Path == "/" || r.Path == dangling {
			continue
		}
		self, err := e.srv.Do(vfs.Req{Method: "PROPFIND", Path: r.Path, Depth: "0", Body: c.Req.Body, ContentType: c.Req.ContentType})
		if err != nil || self.Status != 207 {
			return dev("member-depth0", "PROPFIND Depth 0 on the listed member %s answered %d", r.Path, self.Status)
		}
		sr, err := ParseMultiStatus(self.Body)
		if err != nil || len(sr) != 1 {
			return dev("member-depth0", "PROPFIND Depth 0 on %s: %d responses, %v", r.Path, len(sr), err)
		}
		if sr[0].IsCollection != r.IsCollection || deref(sr[0].Length) != deref(r.Length) || deref(sr[0].ETag) != deref(r.ETag) || deref(sr[0].Modified) != deref(r.Modified) {
			return dev("listing-differs-from-depth0", "%s is listed as collection=%v length=%q tag=%q date=%q but describes itself as collection=%v length=%q tag=%q date=%q",
				r.Path, r.IsCollection, deref(r.Length), deref(r.ETag), deref(r.Modified), sr[0].IsCollection, deref(sr[0].Length), deref(sr[0].ETag), deref(sr[0].Modified))
		}
		if !r.IsCollection && (c.Req.Body == "" || c.Req.Body == pfAllprop) {
			if g, _ := e.srv.Do(vfs.Req{Method: "HEAD", Path: r.Path}); g.Status == 200 && (r.ETag == nil || r.Length == nil || g.Header.Get("ETag") != *r.ETag || g.Header.Get("Content-Length") != *r.Length) {
				return dev("listing-differs-from-head", "%s is listed with length=%q tag=%q, HEAD announces %q %q", r.Path, deref(r.Length), deref(r.ETag), g.Header.Get("Content-Length"), g.Header.Get("ETag"))
			}
		}
	}
	return resp, vev.Outcome{}, nil
}

func TestSymlinkListing(t *testing.T) {
	if vev.ReplayFile() != "" {
		t.Skip()
	}
	e, err := newLinkEnv()
	if err != nil {
		t.Fatal(err)
	}
	defer os.RemoveAll(e.base)
	idx := 0
	for order := 0; order < 5; order++ {
		var reqs []vfs.Req
		for _, body := range [][2]string{{"", ""}, {pfAllprop, "application/xml"}, {pfProp, "text/xml"}, {pfPropname, "application/xml"}} {
			for _, depth := range []string{"0", "1", "infinity", ""} {
				for _, p := range []string{"/", "/a", "/b", "/c", "/d", "/e"} {
					reqs = append(reqs, vfs.Req{Method: "PROPFIND", Path: p, Depth: depth, Body: body[0], ContentType: body[1]})
				}
			}
		}
		for _, p := range []string{"/a", "/b", "/c", "/d", "/e", "/d/x", "/d/sub"} {
			for _, m := range []string{"GET", "HEAD", "OPTIONS"} {
				reqs = append(reqs, vfs.Req{Method: m, Path: p})
			}
		}
		for _, r := range reqs {
			idx++
			if !vev.MyShare(idx) {
				continue
			}
			c := LinkCase{Req: r, Order: order}
			resp, o, err := evalLinks(e, c)
			if err != nil {
				continue
			}
			rec01.Case("links/"+r.Method+"/depth="+dflt(r.Depth), r.Method == "PROPFIND" && r.Depth == "1" && r.Path == "/", fmt.Sprintf("links/%d/%s", order, r.String()), func() any {
				return map[string]any{"request": r.String(), "name_order": order, "status": resp.Status, "body": fmt.Sprintf("%.300s", strings.ReplaceAll(string(resp.Body), "\n", " "))}
			})
			if !o.OK() && rec01.Active() && !rec01.Known(o.Sig) {
				rec01.Violation(t, o.Sig, "cfs-links", c, "%s", o.Msg)
			}
		}
	}
	rec01.ExhaustiveSub("a directory holding a plain file, a plain directory, links to a file and to a directory outside, and a dangling link, in 5 name orders x PROPFIND (4 body forms x 4 Depth values x 6 paths) and GET/HEAD/OPTIONS: the Depth 1 listing names every resolvable member once and agrees with each member's own Depth 0 answer")
}
