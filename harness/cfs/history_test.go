package cfs

import (
	"sort"
	"fmt"
	"os"
	"path/filepath"
	"strings"
	"testing"

	"github.com/emersion/go-webdav/verifharness/vev"
	"github.com/emersion/go-webdav/verifharness/vfs"
	"pgregory.net/rapid"
)

// ---------------------------------------------------------------------------
// engine B: random histories over a larger universe

var namePool = []string{"a", "b c", "é", "x%20y", "q?#", "d+;e", `"'<&>`, ".h", "..x", `a\b`, "%", "t.txt", "Ünï", "a=b&c", "~", "[1]", "n240" + strings.Repeat("w", 236), ".webdav-upload-x", ".webdav-replaced-y"}

func genContent() *rapid.Generator[string] {
	return rapid.Custom(func(rt *rapid.T) string {
		switch rapid.IntRange(0, 9).Draw(rt, "ckind") {
		case 0:
			return ""
		case 1, 2, 3:
			return rapid.StringMatching(`[a-z<&\x00-\x09é]{1,12}`).Draw(rt, "csmall")
		case 4:
			n := rapid.SampledFrom([]int{32767, 32768, 32769, 65536, 70000, 262144}).Draw(rt, "clen")
			unit := rapid.SampledFrom([]string{"0123456789abcdef", "x", "\x00\xff\r\n"}).Draw(rt, "cunit")
			return strings.Repeat(unit, n/len(unit)+1)[:n]
		default:
			return rapid.SampledFrom([]string{"1", "22", "333", "hello world"}).Draw(rt, "cfixed")
		}
	})
}

func genTree(depth int) *rapid.Generator[*vfs.Node] {
	return rapid.Custom(func(rt *rapid.T) *vfs.Node {
		d := vfs.NewDir()
		n := rapid.IntRange(0, 3).Draw(rt, "nkids")
		for i := 0; i < n; i++ {
			name := rapid.SampledFrom(namePool).Draw(rt, "kname")
			if depth > 0 && rapid.IntRange(0, 2).Draw(rt, "isdir") == 0 {
				d.Kids[name] = genTree(depth - 1).Draw(rt, "subtree")
			} else {
				d.Kids[name] = vfs.NewFile(genContent().Draw(rt, "kdata"))
			}
		}
		return d
	})
}

func filePaths(t *vfs.Node) []string {
	var l []string
	t.Walk(func(p string, x *vfs.Node) {
		if !x.Dir {
			l = append(l, p)
		}
	})
	sort.Strings(l)
	return l
}

func existingPaths(t *vfs.Node) []string {
	var l []string
	t.Walk(func(p string, x *vfs.Node) { l = append(l, p) })
	return l
}

func genPath(rt *rapid.T, t *vfs.Node, label string) string {
	ex := existingPaths(t)
	switch rapid.IntRange(0, 9).Draw(rt, label+"-kind") {
	case 0, 1, 2, 3, 4:
		return rapid.SampledFrom(ex).Draw(rt, label+"-existing")
	case 5, 6, 7:
		base := rapid.SampledFrom(ex).Draw(rt, label+"-base")
		if base == "/" {
			base = ""
		}
		return base + "/" + rapid.SampledFrom(namePool).Draw(rt, label+"-leaf")
	default:
		n := rapid.IntRange(1, 4).Draw(rt, label+"-n")
		p := ""
		for i := 0; i < n; i++ {
			p += "/" + rapid.SampledFrom(namePool).Draw(rt, label+"-seg")
		}
		return p
	}
}

func genDest(rt *rapid.T, t *vfs.Node) (string, bool) {
	switch rapid.IntRange(0, 29).Draw(rt, "dest-form") {
	case 0:
		return "", false
	case 1:
		return rapid.SampledFrom([]string{"", "b", "http://[::1", "%zz", "../x", "http://h/%zz"}).Draw(rt, "dest-bad"), true
	}
	p := genPath(rt, t, "dest")
	esc := EscapePath(p)
	switch rapid.IntRange(0, 3).Draw(rt, "dest-spelling") {
	case 0:
		return "http://dav.example" + esc, true
	case 1:
		return "https://other.example:8443" + esc + "?q=1", true
	}
	return esc, true
}

func genRequest(rt *rapid.T, t *vfs.Node) vfs.Req {
	m := rapid.SampledFrom([]string{"PUT", "PUT", "PUT", "DELETE", "MKCOL", "MKCOL", "COPY", "COPY", "COPY", "MOVE", "MOVE", "MOVE", "GET", "HEAD", "OPTIONS", "PROPFIND", "PROPFIND", "PATCH"}).Draw(rt, "method")
	r := vfs.Req{Method: m, Path: genPath(rt, t, "path")}
	switch m {
	case "PUT":
		r.Body = genContent().Draw(rt, "body")
		if rapid.IntRange(0, 5).Draw(rt, "cond") == 0 {
			_, k := t.Lookup(vfs.Segs(r.Path))
			opts := []string{"", "*", `"other"`, "abc"}
			if k == vfs.File {
				opts = append(opts, vfs.CurTag, vfs.CurTag)
			}
			r.IfMatch = rapid.SampledFrom(opts).Draw(rt, "im")
			r.IfNoneMatch = rapid.SampledFrom(opts).Draw(rt, "inm")
		}
	case "DELETE":
		if rapid.IntRange(0, 5).Draw(rt, "cond") == 0 {
			_, k := t.Lookup(vfs.Segs(r.Path))
			opts := []string{"", "*", `"other"`}
			if k == vfs.File {
				opts = append(opts, vfs.CurTag)
			}
			r.IfMatch = rapid.SampledFrom(opts).Draw(rt, "im")
			r.IfNoneMatch = rapid.SampledFrom(opts).Draw(rt, "inm")
		}
	case "MKCOL":
		if rapid.IntRange(0, 7).Draw(rt, "mkct") == 0 {
			r.ContentType = "application/xml"
			r.Body = "<x/>"
		}
	case "PROPFIND":
		r.Depth = rapid.SampledFrom([]string{"", "0", "1", "infinity", "infinity", "Infinity"}).Draw(rt, "depth")
		switch rapid.IntRange(0, 3).Draw(rt, "pfbody") {
		case 0:
			r.Body, r.ContentType = pfAllprop, "application/xml"
		case 1:
			r.Body, r.ContentType = pfProp, "text/xml"
		case 2:
			r.Body, r.ContentType = pfPropname, "application/xml; charset=utf-8"
		}
	case "COPY", "MOVE":
		r.Dest, r.HasDest = genDest(rt, t)
		r.Depth = rapid.SampledFrom([]string{"", "", "", "", "infinity", "infinity", "infinity", "0", "0", "0", "1", "zero"}).Draw(rt, "depth")
		if m == "MOVE" && r.Depth == "0" && rapid.Bool().Draw(rt, "mv0") {
			r.Depth = ""
		}
		r.Overwrite = rapid.SampledFrom([]string{"", "", "", "T", "T", "T", "F", "F", "F", "F", "f", "yes"}).Draw(rt, "overwrite")
	}
	if r.Body != "" && rapid.IntRange(0, 3).Draw(rt, "chunked") == 0 {
		r.Chunked = true
	}
	return r
}

func TestEngineB(t *testing.T) {
	if vev.ReplayFile() != "" {
		t.Skip()
	}
	active := []*vev.Rec{}
	for _, r := range []*vev.Rec{rec01, rec02, rec17} {
		if r.Active() {
			active = append(active, r)
		}
	}
	primary := active[0]
	vev.Rapid(t, primary, 1, vev.N(250, 24000), func(rt *rapid.T) {
		e := newEnv(t)
		defer e.close()
		init := genTree(3).Draw(rt, "tree")
		e.set(init)
		c := Case{Tree: ToJ(init)}
		if files := filePaths(init); len(files) > 0 && rapid.IntRange(0, 3).Draw(rt, "oldfile") == 0 {
			c.MTimes = map[string]int64{rapid.SampledFrom(files).Draw(rt, "oldpath"): rapid.SampledFrom([]int64{0, -1, 1, -1000000000, 253402300799}).Draw(rt, "oldtime")}
			e.setTimes(c.MTimes)
		}
		if files := filePaths(init); len(files) > 0 && rapid.IntRange(0, 3).Draw(rt, "linkedfile") == 0 {
			// one or two files of the initial tree are symbolic links to files kept outside the served directory
			c.Linked = rapid.SliceOfNDistinct(rapid.SampledFrom(files), 1, 2, rapid.ID[string]).Draw(rt, "linked")
			e.linkify(c.Linked)
		}
		mutated := false
		steps := 0
		rt.Repeat(map[string]func(*rapid.T){
			"request": func(rt *rapid.T) {
				if steps >= 40 {
					return // history long enough
				}
				steps++
				if e.have == nil {
					e.set(vfs.NewDir())
				}
				r := genRequest(rt, e.have)
				c.Reqs = append(c.Reqs, r)
				st, err := e.step(r)
				if err != nil {
					rt.Fatalf("cannot serve %s: %v", r, err)
				}
				eng := "B"
				if mutated {
					eng = "B+" // after at least one successful mutation
				}
				v := e.judge(st, eng)
				if st.Resp.Status < 300 && (st.After == nil || !st.Before.Equal(st.After)) {
					mutated = true
				}
				for _, x := range []struct {
					rec *vev.Rec
					o   vev.Outcome
				}{{rec01, v.o01}, {rec02, v.o02}, {rec17, v.o17}} {
					if x.o.OK() || !x.rec.Active() || x.rec.Known(x.o.Sig) {
						continue
					}
					x.rec.Fail(rt, x.o.Sig, "cfs", c, "step %d: %s", len(c.Reqs), x.o.Msg)
				}
			},
		})
	})
}

// ---------------------------------------------------------------------------
// C17: failure modes the OS can report, root reached through a symlinked parent

type ModeCase struct {
	Req     vfs.Req `json:"req"`
	ViaLink bool    `json:"via_link"`
}

type modeEnv struct {
	base, real string
	secrets    []string
	srv        *Server
}

func newModeEnv(t testing.TB, viaLink bool) *modeEnv {
	base, err := os.MkdirTemp("", "cfs17")
	if err != nil {
		t.Fatal(err)
	}
	a, b := token(), token()
	real := filepath.Join(base, a, b, "root")
	os.MkdirAll(real, 0o755)
	root := real
	secrets := []string{a, b, real}
	if viaLink {
		l := token()
		if err := os.Symlink(filepath.Join(base, a), filepath.Join(base, l)); err != nil {
			t.Fatal(err)
		}
		root = filepath.Join(base, l, b, "root")
		secrets = append(secrets, l, root)
	}
	return &modeEnv{base: base, real: real, secrets: secrets, srv: NewServer(root)}
}

// fixture: a file, a dir with a file, a symlink loop, a dangling symlink, an
// in-tree link to a directory (COPY reads it as a file); rebuilt before every
// request because the requests are destructive.
func (m *modeEnv) fixture() {
	real := m.real
	os.RemoveAll(real)
	os.MkdirAll(filepath.Join(real, "d", "sub"), 0o755)
	os.WriteFile(filepath.Join(real, "f"), []byte("data"), 0o644)
	os.WriteFile(filepath.Join(real, "d", "g"), []byte("g"), 0o644)
	os.Symlink("loop", filepath.Join(real, "loop"))
	os.Symlink("nowhere", filepath.Join(real, "dangling"))
	os.Symlink(filepath.Join(real, "d", "sub"), filepath.Join(real, "d", "lnk"))
}

func (m *modeEnv) run(r vfs.Req) (Resp, vev.Outcome, error) {
	m.fixture()
	resp, err := m.srv.Do(r)
	if err != nil {
		return resp, vev.Outcome{}, err
	}
	if resp.Panic != nil {
		return resp, vev.Outcome{Sig: vev.Sig("modes", "panic", r.Method), Msg: fmt.Sprintf("panic: %v", resp.Panic)}, nil
	}
	o := CheckC17(Step{Before: vfs.NewDir(), Req: r, Resp: resp}, m.secrets)
	if !o.OK() {
		o.Sig = "modes|" + o.Sig
	}
	return resp, o, nil
}

func TestDisclosureModes(t *testing.T) {
	if vev.ReplayFile() != "" {
		t.Skip()
	}
	for _, viaLink := range []bool{false, true} {
		m := newModeEnv(t, viaLink)
		long := strings.Repeat("n", 300)
		paths := []string{"/", "/f", "/d", "/d/g", "/f/x", "/missing", "/missing/x", "/loop", "/loop/x", "/dangling", "/" + long, "/d/" + long, "/" + long + "/x", "/d/sub", "/d/lnk", "/d/lnk/x"}
		var reqs []vfs.Req
		for _, p := range paths {
			for _, meth := range []string{"GET", "HEAD", "OPTIONS", "DELETE", "MKCOL", "PROPFIND", "FROB"} {
				reqs = append(reqs, vfs.Req{Method: meth, Path: p})
			}
			reqs = append(reqs, vfs.Req{Method: "PUT", Path: p, Body: "z"})
			for _, d := range paths {
				for _, meth := range []string{"COPY", "MOVE"} {
					reqs = append(reqs, vfs.Req{Method: meth, Path: p, HasDest: true, Dest: EscapePath(d), Overwrite: "F"})
					reqs = append(reqs, vfs.Req{Method: meth, Path: p, HasDest: true, Dest: EscapePath(d)})
				}
			}
		}
		for i, r := range reqs {
			if !vev.MyShare(i) {
				continue
			}
			resp, o, err := m.run(r)
			if err != nil {
				continue
			}
			key := fmt.Sprintf("modes/%v/%s", viaLink, r.String())
			rec17.Case(fmt.Sprintf("modes/%dxx", resp.Status/100), resp.Status >= 400 && len(resp.Body) > 0, key, func() any {
				return map[string]any{"request": r.String(), "via_symlinked_parent": viaLink, "status": resp.Status, "body": fmt.Sprintf("%.160s", resp.Body)}
			})
			if !o.OK() && rec17.Active() && !rec17.Known(o.Sig) {
				rec17.Violation(t, o.Sig, "cfs-modes", ModeCase{Req: r, ViaLink: viaLink}, "%s", o.Msg)
			}
		}
		os.RemoveAll(m.base)
	}
}
