package cfs

// C02 + C17: failure modes that need a second file system - cross-device links (EXDEV) and a full disk (ENOSPC).
// A tiny tmpfs is mounted on a collection inside the served directory.  Mounting needs privileges; where it is
// refused the whole family is skipped and counted, never failed.

import (
	"fmt"
	"os"
	"path/filepath"
	"strings"
	"syscall"
	"testing"

	"github.com/emersion/go-webdav/verifharness/vev"
	"github.com/emersion/go-webdav/verifharness/vfs"
)

type MountCase struct {
	Req  vfs.Req `json:"req"`
	Fill bool    `json:"fill"` // the small file system is filled to the last byte before the request
}

type mountEnv struct {
	base, root, mnt string
	secrets         []string
	srv             *Server
}

func newMountEnv() (*mountEnv, error) {
	base, err := os.MkdirTemp("", "cfsmnt")
	if err != nil {
		return nil, err
	}
	a, b := token(), token()
	root := filepath.Join(base, a, b, "root")
	m := &mountEnv{base: base, root: root, mnt: filepath.Join(root, "m"), secrets: []string{a, b, root}, srv: NewServer(root)}
	if err := os.MkdirAll(m.mnt, 0o755); err != nil {
		os.RemoveAll(base)
		return nil, err
	}
	if err := syscall.Mount("tmpfs", m.mnt, "tmpfs", 0, "size=128k,mode=0755"); err != nil {
		os.RemoveAll(base)
		return nil, err
	}
	return m, nil
}

func (m *mountEnv) close() {
	syscall.Unmount(m.mnt, syscall.MNT_DETACH)
	os.RemoveAll(m.base)
}

var big = strings.Repeat("0123456789abcdef", 20000) // 320 kB: more than the small file system holds

// fixture: on the main file system a file, a big file and a collection with two files; on the small one a file and a
// collection.  Rebuilt before every request.
func (m *mountEnv) fixture(fill bool) {
	ents, _ := os.ReadDir(m.root)
	for _, e := range ents {
		if e.Name() != "m" {
			os.RemoveAll(filepath.Join(m.root, e.Name()))
		}
	}
	ents, _ = os.ReadDir(m.mnt)
	for _, e := range ents {
		os.RemoveAll(filepath.Join(m.mnt, e.Name()))
	}
	os.WriteFile(filepath.Join(m.root, "f"), []byte("data"), 0o644)
	os.WriteFile(filepath.Join(m.root, "big"), []byte(big), 0o644)
	os.MkdirAll(filepath.Join(m.root, "d", "sub"), 0o755)
	os.WriteFile(filepath.Join(m.root, "d", "g"), []byte("g"), 0o644)
	os.WriteFile(filepath.Join(m.root, "d", "big"), []byte(big), 0o644)
	os.WriteFile(filepath.Join(m.root, "d", "z"), []byte("z"), 0o644)
	os.WriteFile(filepath.Join(m.mnt, "x"), []byte("on-the-small-one"), 0o644)
	os.MkdirAll(filepath.Join(m.mnt, "c"), 0o755)
	os.WriteFile(filepath.Join(m.mnt, "c", "y"), []byte("y"), 0o644)
	if fill {
		// fill to the last byte: first in pages, then byte-wise
		if f, err := os.Create(filepath.Join(m.mnt, "filler")); err == nil {
			page := []byte(strings.Repeat("#", 4096))
			for {
				if _, err := f.Write(page); err != nil {
					break
				}
			}
			for {
				if _, err := f.Write([]byte("#")); err != nil {
					break
				}
			}
			f.Close()
		}
	}
}

func (m *mountEnv) run(c MountCase) (Step, error) {
	m.fixture(c.Fill)
	before, err := Snapshot(m.root)
	if err != nil {
		return Step{}, err
	}
	resp, err := m.srv.Do(c.Req)
	if err != nil {
		return Step{}, err
	}
	after, err := Snapshot(m.root)
	if err != nil {
		return Step{}, err
	}
	return Step{Before: before, Req: c.Req, Resp: resp, After: after}, nil
}

func mountRequests() []MountCase {
	var l []MountCase
	main := []string{"/f", "/big", "/d", "/d/g", "/new", "/d/new"}
	small := []string{"/m/x", "/m/c", "/m/c/y", "/m/new", "/m/c/new", "/m"}
	for _, fill := range []bool{false, true} {
		for _, meth := range []string{"COPY", "MOVE"} {
			for _, ow := range []string{"", "F"} {
				for _, a := range main {
					for _, b := range small {
						l = append(l, MountCase{Req: vfs.Req{Method: meth, Path: a, HasDest: true, Dest: b, Overwrite: ow}, Fill: fill},
							MountCase{Req: vfs.Req{Method: meth, Path: b, HasDest: true, Dest: a, Overwrite: ow}, Fill: fill})
					}
				}
			}
		}
		for _, p := range small {
			if p != "/m" {
				// DELETE of the mount point itself is left out: the kernel refuses to remove it (EBUSY) after its
				// members are gone - an artefact of the harness' own mount, not a resource a client could create
				l = append(l, MountCase{Req: vfs.Req{Method: "DELETE", Path: p}, Fill: fill})
			}
			l = append(l, MountCase{Req: vfs.Req{Method: "PUT", Path: p, Body: "small"}, Fill: fill},
				MountCase{Req: vfs.Req{Method: "PUT", Path: p, Body: big}, Fill: fill},
				MountCase{Req: vfs.Req{Method: "MKCOL", Path: p}, Fill: fill},
				MountCase{Req: vfs.Req{Method: "PROPFIND", Path: p, Depth: "0"}, Fill: fill},
				MountCase{Req: vfs.Req{Method: "PROPFIND", Path: p, Depth: "1"}, Fill: fill},
				MountCase{Req: vfs.Req{Method: "GET", Path: p}, Fill: fill})
		}
	}
	return l
}

func evalMount(m *mountEnv, c MountCase) (Step, vev.Outcome, vev.Outcome, error) {
	st, err := m.run(c)
	if err != nil {
		return st, vev.Outcome{}, vev.Outcome{}, err
	}
	if st.Resp.Panic != nil {
		o := vev.Outcome{Sig: vev.Sig("mount", "panic", c.Req.Method), Msg: fmt.Sprintf("%s panicked: %v", c.Req, st.Resp.Panic)}
		return st, o, o, nil
	}
	o02 := CheckC02(st)
	if !o02.OK() {
		o02.Sig = "mount|" + fmt.Sprintf("fill=%v|", c.Fill) + o02.Sig
	}
	o17 := CheckC17(st, m.secrets)
	if !o17.OK() {
		o17.Sig = "mount|" + fmt.Sprintf("fill=%v|", c.Fill) + o17.Sig
	}
	return st, o02, o17, nil
}

func TestMountModes(t *testing.T) {
	if vev.ReplayFile() != "" {
		t.Skip()
	}
	m, err := newMountEnv()
	if err != nil {
		for _, r := range []*vev.Rec{rec02, rec17} {
			r.Count("mount-modes/skipped-mount-refused", 1)
		}
		t.Logf("mount refused (%v): EXDEV/ENOSPC family skipped", err)
		return
	}
	defer m.close()
	for i, c := range mountRequests() {
		if !vev.MyShare(i) {
			continue
		}
		st, o02, o17, err := evalMount(m, c)
		if err != nil {
			t.Fatalf("harness: %v", err)
		}
		key := fmt.Sprintf("mount/%v/%s/%d", c.Fill, c.Req.String(), len(c.Req.Body))
		sample := func() any {
			return map[string]any{"request": c.Req.String(), "small_fs_full": c.Fill, "status": st.Resp.Status, "body": fmt.Sprintf("%.160s", st.Resp.Body)}
		}
		cls := fmt.Sprintf("mount-modes/fill=%v/%dxx", c.Fill, st.Resp.Status/100)
		rec02.Case(cls, st.Resp.Status >= 400, key, sample)
		rec17.Case(cls, st.Resp.Status >= 400 && len(st.Resp.Body) > 0, key, sample)
		if !o02.OK() && rec02.Active() && !rec02.Known(o02.Sig) {
			rec02.Violation(t, o02.Sig, "cfs-mount", c, "%s", o02.Msg)
		}
		if !o17.OK() && rec17.Active() && !rec17.Known(o17.Sig) {
			rec17.Violation(t, o17.Sig, "cfs-mount", c, "%s", o17.Msg)
		}
	}
	for _, r := range []*vev.Rec{rec02, rec17} {
		r.ExhaustiveSub("cross-device and disk-full family: COPY/MOVE between 6 resources on the main file system and 6 on a 128 kB tmpfs mounted on a collection (both directions, Overwrite unset/F), PUT (small and oversized), MKCOL, DELETE, PROPFIND, GET on the small one; each with the small file system empty and filled to the last byte")
	}
}
