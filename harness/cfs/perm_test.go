package cfs

// C02 + C17: the permission-denied family (EACCES).  The harness runs as root, for which permission checks do not
// apply, so each request of this family is served in a child process - this test binary re-executed under the
// unprivileged uid/gid 65534 - against a fixture whose modes the parent (root) sets up and snapshots.  Where the child
// cannot be started or cannot reach the fixture the family is skipped and counted, never failed.

import (
	"encoding/json"
	"fmt"
	"os"
	"os/exec"
	"path/filepath"
	"strings"
	"syscall"
	"testing"

	"github.com/emersion/go-webdav/verifharness/vev"
	"github.com/emersion/go-webdav/verifharness/vfs"
)

type PermCase struct {
	Req vfs.Req `json:"req"`
}

type permResp struct {
	Status int                 `json:"status"`
	Header map[string][]string `json:"header"`
	Body   []byte              `json:"body"`
	Panic  string              `json:"panic,omitempty"`
	Err    string              `json:"err,omitempty"`
}

// permChild runs in the unprivileged child: serve one request, print the response as JSON.
func permChild() {
	var req vfs.Req
	out := permResp{}
	if err := json.Unmarshal([]byte(os.Getenv("VERIF_PERM_REQ")), &req); err != nil {
		out.Err = err.Error()
	} else if os.Geteuid() == 0 {
		out.Err = "still root"
	} else {
		resp, err := NewServer(os.Getenv("VERIF_PERM_ROOT")).Do(req)
		if err != nil {
			out.Err = err.Error()
		}
		out.Status, out.Header, out.Body = resp.Status, resp.Header, resp.Body
		if resp.Panic != nil {
			out.Panic = fmt.Sprint(resp.Panic)
		}
	}
	json.NewEncoder(os.Stdout).Encode(out)
}

type permEnv struct {
	base, root string
	secrets    []string
}

func newPermEnv() (*permEnv, error) {
	base, err := os.MkdirTemp("", "cfsperm")
	if err != nil {
		return nil, err
	}
	os.Chmod(base, 0o755)
	a, b := token(), token()
	root := filepath.Join(base, a, b, "root")
	if err := os.MkdirAll(root, 0o755); err != nil {
		os.RemoveAll(base)
		return nil, err
	}
	return &permEnv{base: base, root: root, secrets: []string{a, b, root}}, nil
}

// fixture (all owned by root, the requests run as "nobody"):
//
//	/            0777  entries can be created, renamed and removed
//	/w/          0777  /w/f 0666            fully accessible
//	/ro/         0755  /ro/g 0644           readable, nothing can be created or removed inside
//	/secret      0600                       unreadable file (can be unlinked: the root is writable)
//	/locked/     0700  /locked/h            cannot even be traversed
//	/mix/        0777  /mix/own 0666, /mix/sub/ 0755 with /mix/sub/k: partly removable
func (p *permEnv) fixture() {
	os.Chmod(p.root, 0o777)
	ents, _ := os.ReadDir(p.root)
	for _, e := range ents {
		os.RemoveAll(filepath.Join(p.root, e.Name()))
	}
	mk := func(rel string, mode os.FileMode) {
		d := filepath.Join(p.root, rel)
		os.MkdirAll(d, 0o755)
		os.Chmod(d, mode)
	}
	wr := func(rel, data string, mode os.FileMode) {
		f := filepath.Join(p.root, rel)
		os.WriteFile(f, []byte(data), 0o644)
		os.Chmod(f, mode)
	}
	mk("w", 0o777)
	wr("w/f", "writable", 0o666)
	mk("ro", 0o755)
	wr("ro/g", "read-only", 0o644)
	wr("secret", "unreadable", 0o600)
	mk("locked", 0o755)
	wr("locked/h", "hidden", 0o644)
	os.Chmod(filepath.Join(p.root, "locked"), 0o700)
	mk("mix", 0o777)
	wr("mix/own", "own", 0o666)
	mk("mix/sub", 0o755)
	wr("mix/sub/k", "kept", 0o644)
	os.Chmod(p.root, 0o777)
}

func (p *permEnv) serve(r vfs.Req) (Resp, error) {
	rb, _ := json.Marshal(r)
	cmd := exec.Command(os.Args[0], "-test.run=^$")
	cmd.Env = append(os.Environ(), "VERIF_PERM_CHILD=1", "VERIF_PERM_ROOT="+p.root, "VERIF_PERM_REQ="+string(rb))
	cmd.SysProcAttr = &syscall.SysProcAttr{Credential: &syscall.Credential{Uid: 65534, Gid: 65534, NoSetGroups: false}}
	cmd.Dir = "/"
	out, err := cmd.Output()
	if err != nil {
		return Resp{}, fmt.Errorf("child: %v", err)
	}
	var pr permResp
	line := out
	if i := strings.IndexByte(string(out), '\n'); i >= 0 {
		line = out[:i]
	}
	if err := json.Unmarshal(line, &pr); err != nil {
		return Resp{}, fmt.Errorf("child output %.200q: %v", out, err)
	}
	if pr.Err != "" {
		return Resp{}, fmt.Errorf("child: %s", pr.Err)
	}
	resp := Resp{Status: pr.Status, Header: pr.Header, Body: pr.Body}
	if pr.Panic != "" {
		resp.Panic = pr.Panic
	}
	return resp, nil
}

func permRequests() []PermCase {
	var l []PermCase
	paths := []string{"/w/f", "/w/new", "/ro/g", "/ro/new", "/secret", "/locked", "/locked/h", "/locked/new", "/mix", "/mix/sub/k", "/ro", "/w"}
	for _, p := range paths {
		for _, m := range []string{"GET", "HEAD", "DELETE", "MKCOL", "OPTIONS"} {
			l = append(l, PermCase{Req: vfs.Req{Method: m, Path: p}})
		}
		l = append(l, PermCase{Req: vfs.Req{Method: "PUT", Path: p, Body: "put-by-nobody"}},
			PermCase{Req: vfs.Req{Method: "PROPFIND", Path: p, Depth: "1"}},
			PermCase{Req: vfs.Req{Method: "PROPFIND", Path: p, Depth: "0"}})
	}
	srcs := []string{"/w/f", "/ro/g", "/secret", "/locked", "/mix", "/ro", "/w"}
	dsts := []string{"/w/new", "/ro/new", "/locked/new", "/w/f", "/ro/g", "/new", "/mix/sub/k", "/secret"}
	for _, m := range []string{"COPY", "MOVE"} {
		for _, a := range srcs {
			for _, b := range dsts {
				for _, ow := range []string{"", "F"} {
					l = append(l, PermCase{Req: vfs.Req{Method: m, Path: a, HasDest: true, Dest: b, Overwrite: ow}})
				}
			}
		}
	}
	return l
}

func evalPerm(p *permEnv, c PermCase) (Step, vev.Outcome, vev.Outcome, error) {
	p.fixture()
	before, err := Snapshot(p.root)
	if err != nil {
		return Step{}, vev.Outcome{}, vev.Outcome{}, err
	}
	resp, err := p.serve(c.Req)
	if err != nil {
		return Step{}, vev.Outcome{}, vev.Outcome{}, err
	}
	after, err := Snapshot(p.root)
	if err != nil {
		return Step{}, vev.Outcome{}, vev.Outcome{}, err
	}
	st := Step{Before: before, Req: c.Req, Resp: resp, After: after}
	if resp.Panic != nil {
		o := vev.Outcome{Sig: vev.Sig("perm", "panic", c.Req.Method), Msg: fmt.Sprintf("%s panicked: %v", c.Req, resp.Panic)}
		return st, o, o, nil
	}
	o02 := CheckC02(st)
	if !o02.OK() {
		o02.Sig = "perm|" + o02.Sig
	}
	o17 := CheckC17(st, p.secrets)
	if !o17.OK() {
		o17.Sig = "perm|" + o17.Sig
	}
	return st, o02, o17, nil
}

func TestPermModes(t *testing.T) {
	if vev.ReplayFile() != "" {
		t.Skip()
	}
	skip := func(why string) {
		for _, r := range []*vev.Rec{rec02, rec17} {
			r.Count("perm-modes/skipped-"+why, 1)
		}
		t.Logf("permission-denied family skipped: %s", why)
	}
	if os.Geteuid() != 0 {
		skip("not-root")
		return
	}
	p, err := newPermEnv()
	if err != nil {
		skip("no-scratch")
		return
	}
	defer func() {
		os.Chmod(filepath.Join(p.root, "locked"), 0o755)
		os.RemoveAll(p.base)
	}()
	// probe: the child must start, must not be root, and must reach the fixture
	p.fixture()
	if probe, err := p.serve(vfs.Req{Method: "GET", Path: "/w/f"}); err != nil || probe.Status != 200 {
		skip(fmt.Sprintf("child-cannot-serve (%v, status %d)", err, probe.Status))
		return
	}
	for i, c := range permRequests() {
		if !vev.MyShare(i) {
			continue
		}
		st, o02, o17, err := evalPerm(p, c)
		if err != nil {
			t.Fatalf("harness: %v", err)
		}
		key := "perm/" + c.Req.String()
		sample := func() any {
			return map[string]any{"request": c.Req.String(), "served_as_uid": 65534, "status": st.Resp.Status, "body": fmt.Sprintf("%.160s", st.Resp.Body)}
		}
		cls := fmt.Sprintf("perm-modes/%dxx", st.Resp.Status/100)
		rec02.Case(cls, st.Resp.Status >= 400, key, sample)
		rec17.Case(cls, st.Resp.Status >= 400 && len(st.Resp.Body) > 0, key, sample)
		if !o02.OK() && rec02.Active() && !rec02.Known(o02.Sig) {
			rec02.Violation(t, o02.Sig, "cfs-perm", c, "%s", o02.Msg)
		}
		if !o17.OK() && rec17.Active() && !rec17.Known(o17.Sig) {
			rec17.Violation(t, o17.Sig, "cfs-perm", c, "%s", o17.Msg)
		}
	}
	for _, r := range []*vev.Rec{rec02, rec17} {
		r.ExhaustiveSub("permission-denied family: every method on 12 paths of a fixture with writable, read-only, unreadable, untraversable and partly removable parts, COPY/MOVE over 7 sources x 8 destinations x Overwrite unset/F, each request served in a child process running as uid 65534")
	}
}
