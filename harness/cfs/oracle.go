package cfs

import (
	"fmt"
	"net/http"
	"os"
	"path/filepath"
	"sort"
	"strconv"
	"strings"

	"github.com/emersion/go-webdav/verifharness/vev"
	"github.com/emersion/go-webdav/verifharness/vfs"
)

// Step is one served request with the tree before and after it.
type Step struct {
	Before *vfs.Node
	Req    vfs.Req
	Resp   Resp
	After  *vfs.Node // nil = the served directory itself is gone
}

func condClass(v string) string {
	switch {
	case v == "":
		return "-"
	case v == "*":
		return "star"
	case v == vfs.CurTag:
		return "cur"
	case strings.HasPrefix(v, `"`) && strings.HasSuffix(v, `"`) && len(v) >= 2:
		return "other"
	}
	return "malformed"
}

// ClassOf is the abstract class of a (tree, request) pair; it is the first
// half of every deviation signature and the label in the evidence.
func ClassOf(t *vfs.Node, r vfs.Req) string {
	_, k := t.Lookup(vfs.Segs(r.Path))
	parts := []string{r.Method, "target=" + k.String()}
	switch r.Method {
	case "COPY", "MOVE":
		d := "none"
		rel := "-"
		if r.HasDest {
			if ds, ok := vfs.ParseDest(r.Dest); ok {
				_, dk := t.Lookup(ds)
				d = dk.String()
				s := vfs.Segs(r.Path)
				switch {
				case strings.Join(s, "/") == strings.Join(ds, "/"):
					rel = "same"
				case hasPrefix(s, ds):
					rel = "dest-in-src"
				case hasPrefix(ds, s):
					rel = "src-in-dest"
				default:
					rel = "disjoint"
				}
			} else {
				d = "invalid"
			}
		}
		parts = append(parts, "dest="+d, "rel="+rel, "ow="+dflt(r.Overwrite), "depth="+dflt(r.Depth))
	case "PROPFIND":
		parts = append(parts, "depth="+dflt(r.Depth))
	case "MKCOL":
		if r.ContentType != "" {
			parts = append(parts, "ct")
		}
	case "PUT", "DELETE":
		if r.IfMatch != "" || r.IfNoneMatch != "" {
			parts = append(parts, "im="+condClass(r.IfMatch), "inm="+condClass(r.IfNoneMatch))
		}
		if r.FailAfter != nil {
			parts = append(parts, "bodyfail")
		}
		if r.CancelAfter != nil {
			parts = append(parts, "cancel-mid-body")
		}
	}
	return strings.Join(parts, ",")
}

func dflt(s string) string {
	switch s {
	case "":
		return "-"
	case "0", "1", "infinity", "T", "F":
		return s
	}
	return "invalid"
}

func hasPrefix(a, b []string) bool {
	if len(a) > len(b) {
		return false
	}
	for i := range a {
		if a[i] != b[i] {
			return false
		}
	}
	return true
}

func treeOrGone(n *vfs.Node) string { return n.String() }

// CheckC02: model-free — a response >= 400 leaves the tree exactly as it was.
func CheckC02(st Step) vev.Outcome {
	if st.Resp.Panic != nil {
		return vev.Outcome{Sig: vev.Sig("panic", st.Req.Method), Msg: fmt.Sprintf("panic: %v", st.Resp.Panic)}
	}
	if st.Resp.Status < 400 {
		return vev.Outcome{}
	}
	if st.After != nil && st.Before.Equal(st.After) {
		return vev.Outcome{}
	}
	return vev.Outcome{Sig: vev.Sig(ClassOf(st.Before, st.Req), "status="+strconv.Itoa(st.Resp.Status), "tree-changed"),
		Msg: fmt.Sprintf("%s answered %d but the tree changed\n before %s\n after  %s", st.Req, st.Resp.Status, st.Before, treeOrGone(st.After))}
}

// CheckC17: no response discloses the host path of the served directory.
func CheckC17(st Step, secrets []string) vev.Outcome {
	scan := func(where, s string) vev.Outcome {
		for _, sec := range secrets {
			if sec != "" && strings.Contains(s, sec) {
				return vev.Outcome{Sig: vev.Sig(ClassOf(st.Before, st.Req), "status="+strconv.Itoa(st.Resp.Status), "discloses-in-"+where),
					Msg: fmt.Sprintf("%s answered %d and its %s contains the host path token %q: %.300q", st.Req, st.Resp.Status, where, sec, s)}
			}
		}
		return vev.Outcome{}
	}
	for k, vs := range st.Resp.Header {
		for _, v := range vs {
			if o := scan("header", k+": "+v); !o.OK() {
				return o
			}
		}
	}
	return scan("body", string(st.Resp.Body))
}

// CheckC01 compares response and resulting tree with the permitted outcome of
// the abstract model.
func CheckC01(st Step, srv *Server) vev.Outcome {
	cls := ClassOf(st.Before, st.Req)
	code := st.Resp.Status
	dev := func(kind, format string, a ...any) vev.Outcome {
		return vev.Outcome{Sig: vev.Sig(cls, "status="+strconv.Itoa(code), kind), Msg: fmt.Sprintf("%s on %s: ", st.Req, st.Before) + fmt.Sprintf(format, a...)}
	}
	if st.Resp.Panic != nil {
		return dev("panic", "panic: %v", st.Resp.Panic)
	}
	o := vfs.Apply(st.Before, st.Req)
	if code >= 400 || !o.MaySucceed() {
		// must be a permitted refusal
		if !o.RefusalPermits(code) {
			want := "success"
			if len(o.Refuse) > 0 || o.Any4xx {
				want = fmt.Sprintf("one of %v", o.Refuse)
				if len(o.Refuse) > 12 {
					want = "a failure status"
				}
				if o.Any4xx {
					want += " (any 4xx)"
				}
				want += " because: " + o.Why
			}
			if o.MaySucceed() {
				want += fmt.Sprintf(" or success %v", o.Success[0].Codes)
			}
			return dev("status", "answered %d (%.120q), the model wants %s", code, strings.TrimSpace(string(st.Resp.Body)), want)
		}
		if st.After == nil || !st.Before.Equal(st.After) {
			return dev("tree-changed-on-refusal", "refused with %d but the tree changed to %s", code, treeOrGone(st.After))
		}
		return vev.Outcome{}
	}
	// success: find the alternative
	var alt *vfs.Alt
	for i := range o.Success {
		for _, c := range o.Success[i].Codes {
			if c == code && (alt == nil || sameTree(o.Success[i].Tree, st.After)) {
				alt = &o.Success[i]
			}
		}
	}
	if alt == nil {
		return dev("status", "answered %d, the model wants one of %v", code, o.Success[0].Codes)
	}
	if !sameTree(alt.Tree, st.After) {
		return dev("tree", "answered %d; tree is %s, the model wants %s", code, treeOrGone(st.After), treeOrGone(alt.Tree))
	}
	switch st.Req.Method {
	case "GET", "HEAD":
		want := o.Target.Data
		if st.Req.Method == "HEAD" {
			want = ""
		}
		if string(st.Resp.Body) != want {
			return dev("body", "body is %.60q, stored content is %.60q", st.Resp.Body, want)
		}
		if cl := st.Resp.Header.Get("Content-Length"); cl != strconv.Itoa(len(o.Target.Data)) {
			return dev("content-length", "Content-Length %q, stored length %d", cl, len(o.Target.Data))
		}
		tag := st.Resp.Header.Get("ETag")
		if len(tag) < 2 || tag[0] != '"' || tag[len(tag)-1] != '"' {
			return dev("etag", "ETag header %q is not a quoted string", tag)
		}
		fi, err := os.Stat(filepath.Join(srv.Root, filepath.FromSlash(st.Req.Path)))
		if err == nil {
			if lm := st.Resp.Header.Get("Last-Modified"); lm != fi.ModTime().UTC().Format(http.TimeFormat) {
				return dev("last-modified", "Last-Modified %q, file mtime %s", lm, fi.ModTime().UTC().Format(http.TimeFormat))
			}
		}
	case "OPTIONS":
		dav := splitList(st.Resp.Header.Values("DAV"))
		if !dav["1"] {
			return dev("dav-header", "DAV header %v lacks class 1", st.Resp.Header.Values("DAV"))
		}
		allow := splitList(st.Resp.Header.Values("Allow"))
		var must, mustNot []string
		switch {
		case o.TargetKind == vfs.File:
			must = []string{"OPTIONS", "GET", "HEAD", "PUT", "DELETE", "PROPFIND", "COPY", "MOVE"}
			mustNot = []string{"MKCOL"}
		case o.TargetKind == vfs.Dir:
			must = []string{"OPTIONS", "DELETE", "PROPFIND", "COPY", "MOVE"}
			mustNot = []string{"GET", "HEAD", "PUT", "MKCOL"}
		case o.TargetKind == vfs.Missing:
			must = []string{"OPTIONS", "PUT", "MKCOL"}
		default:
			must = []string{"OPTIONS"}
		}
		for _, m := range must {
			if !allow[m] {
				return dev("allow-missing", "Allow %v lacks %s which the model accepts here", keys(allow), m)
			}
		}
		for _, m := range mustNot {
			if allow[m] {
				return dev("allow-extra", "Allow %v lists %s which the model refuses with 405 here", keys(allow), m)
			}
		}
	case "PROPFIND":
		reps, err := ParseMultiStatus(st.Resp.Body)
		if err != nil {
			return dev("multistatus-unreadable", "cannot read the multi-status: %v (%.200q)", err, st.Resp.Body)
		}
		got := make([]string, len(reps))
		for i, r := range reps {
			got[i] = r.Path
		}
		want := append([]string(nil), o.Scope...)
		sort.Strings(want)
		if strings.Join(got, "\x00") != strings.Join(want, "\x00") {
			return dev("propfind-scope", "reported %q, in scope %q", got, want)
		}
		if propfindReturnsValues(st.Req.Body) {
			for _, r := range reps {
				n, _ := st.Before.Lookup(vfs.Segs(r.Path))
				if !r.HasType || r.IsCollection != n.Dir {
					return dev("propfind-resourcetype", "%q reported as collection=%v (resourcetype present %v), stored dir=%v", r.Path, r.IsCollection, r.HasType, n.Dir)
				}
				if n.Dir {
					continue
				}
				if r.Length == nil || *r.Length != strconv.Itoa(len(n.Data)) {
					return dev("propfind-length", "%q getcontentlength %v, stored %d", r.Path, deref(r.Length), len(n.Data))
				}
				head, _ := srv.Do(vfs.Req{Method: "HEAD", Path: r.Path})
				if r.ETag == nil || *r.ETag != head.Header.Get("ETag") {
					return dev("propfind-etag", "%q getetag %v but HEAD says %q", r.Path, deref(r.ETag), head.Header.Get("ETag"))
				}
				if r.Modified == nil || *r.Modified != head.Header.Get("Last-Modified") {
					return dev("propfind-lastmodified", "%q getlastmodified %v but HEAD says %q", r.Path, deref(r.Modified), head.Header.Get("Last-Modified"))
				}
				// never predicted (it depends on the host's mime.types), but a type the server reports in a listing
				// is the type it serves the file with
				if r.Type != nil && *r.Type != head.Header.Get("Content-Type") {
					return dev("propfind-contenttype", "%q getcontenttype %v but HEAD says %q", r.Path, deref(r.Type), head.Header.Get("Content-Type"))
				}
			}
		}
	}
	return vev.Outcome{}
}

func propfindReturnsValues(body string) bool {
	return body == "" || strings.Contains(body, "allprop") || strings.Contains(body, "<D:prop>")
}

func sameTree(a, b *vfs.Node) bool {
	if a == nil || b == nil {
		return a == b
	}
	return a.Equal(b)
}

func deref(s *string) string {
	if s == nil {
		return "<absent>"
	}
	return fmt.Sprintf("%q", *s)
}

func splitList(vals []string) map[string]bool {
	m := map[string]bool{}
	for _, v := range vals {
		for _, f := range strings.Split(v, ",") {
			if f = strings.TrimSpace(f); f != "" {
				m[f] = true
			}
		}
	}
	return m
}

func keys(m map[string]bool) []string {
	var l []string
	for k := range m {
		l = append(l, k)
	}
	sort.Strings(l)
	return l
}
