// Package cfs: the file-server properties C01 (RFC 4918 resource-tree model),
// C02 (failed requests change nothing) and C17 (no host path disclosure) share
// this package: one exploration, three oracles, three evidence files.
package cfs

import (
	"sync/atomic"
	"bufio"
	"context"
	"encoding/json"
	"encoding/xml"
	"errors"
	"fmt"
	"io"
	"net/http"
	"net/http/httptest"
	"net/url"
	"os"
	"path"
	"path/filepath"
	"sort"
	"strings"

	webdav "github.com/emersion/go-webdav"
	"github.com/emersion/go-webdav/verifharness/vfs"
)

// ---------------------------------------------------------------------------
// tree <-> JSON (replay files)

type JNode struct {
	F *string           `json:"f,omitempty"`
	D map[string]*JNode `json:"d,omitempty"`
}

func ToJ(n *vfs.Node) *JNode {
	if n == nil {
		return nil
	}
	if !n.Dir {
		d := n.Data
		return &JNode{F: &d}
	}
	j := &JNode{D: map[string]*JNode{}}
	for k, v := range n.Kids {
		j.D[k] = ToJ(v)
	}
	return j
}

func FromJ(j *JNode) *vfs.Node {
	if j == nil {
		return nil
	}
	if j.F != nil {
		return vfs.NewFile(*j.F)
	}
	n := vfs.NewDir()
	for k, v := range j.D {
		n.Kids[k] = FromJ(v)
	}
	return n
}

// ---------------------------------------------------------------------------
// disk

// Snapshot reads the tree under dir (nil if dir itself is gone).
func Snapshot(dir string) (*vfs.Node, error) {
	fi, err := os.Lstat(dir)
	if err != nil {
		if os.IsNotExist(err) {
			return nil, nil
		}
		return nil, err
	}
	if fi.Mode()&os.ModeSymlink != 0 {
		// a symbolic link to a regular file is a file resource holding what the link refers to (the symlink
		// families place the targets outside the served directory); other links are not part of any generated tree
		target, _ := os.Readlink(dir)
		if fi, err = os.Stat(dir); os.IsNotExist(err) {
			// a link that leads nowhere (model-free families only): a leaf whose "content" names the link
			return vfs.NewFile("\x00dangling symbolic link to " + target), nil
		} else if err != nil || !fi.Mode().IsRegular() {
			return nil, fmt.Errorf("unexpected symlink %s", dir)
		}
	}
	if !fi.IsDir() {
		b, err := os.ReadFile(dir)
		if err != nil {
			return nil, err
		}
		return vfs.NewFile(string(b)), nil
	}
	ents, err := os.ReadDir(dir)
	if err != nil {
		return nil, err
	}
	n := vfs.NewDir()
	for _, e := range ents {
		c, err := Snapshot(filepath.Join(dir, e.Name()))
		if err != nil {
			return nil, err
		}
		if c != nil {
			n.Kids[e.Name()] = c
		}
	}
	return n, nil
}

// Linkify turns the regular file at root/rel into a symbolic link (absolute target) to a file of the same content
// and modification time kept in outside, a directory that is not served.
func Linkify(root, rel, outside string) error {
	if err := os.MkdirAll(outside, 0o755); err != nil {
		return err
	}
	src := filepath.Join(root, filepath.FromSlash(rel))
	dst := filepath.Join(outside, fmt.Sprintf("target-%d", linkCounter.Add(1)))
	if err := os.Rename(src, dst); err != nil {
		return err
	}
	return os.Symlink(dst, src)
}

var linkCounter atomic.Int64

// Sync makes the disk under dir equal to want, given that it currently holds have.
func Sync(dir string, have, want *vfs.Node) error {
	if have != nil && have.Equal(want) {
		return nil
	}
	if have != nil && (!have.Dir || !want.Dir) {
		if err := os.RemoveAll(dir); err != nil {
			return err
		}
		have = nil
	}
	if !want.Dir {
		return os.WriteFile(dir, []byte(want.Data), 0o644)
	}
	if have == nil {
		if err := os.MkdirAll(dir, 0o755); err != nil {
			return err
		}
		have = vfs.NewDir()
	}
	for k := range have.Kids {
		if _, ok := want.Kids[k]; !ok {
			if err := os.RemoveAll(filepath.Join(dir, k)); err != nil {
				return err
			}
		}
	}
	for k, w := range want.Kids {
		if err := Sync(filepath.Join(dir, k), have.Kids[k], w); err != nil {
			return err
		}
	}
	return nil
}

// ---------------------------------------------------------------------------
// serving

type Resp struct {
	Status int
	Header http.Header
	Body   []byte
	Panic  any
}

type failReader struct {
	data   []byte
	err    error
	off    int
	hookAt int // call hook once this many bytes were delivered (-1: never)
	hook   func()
}

func (f *failReader) Read(p []byte) (int, error) {
	if f.hook != nil && f.off >= f.hookAt {
		f.hook()
		f.hook = nil
	}
	if f.off >= len(f.data) {
		return 0, f.err
	}
	if f.hook != nil && f.off+len(p) > f.hookAt && f.hookAt > f.off {
		p = p[:f.hookAt-f.off]
	}
	n := copy(p, f.data[f.off:])
	f.off += n
	return n, nil
}
func (f *failReader) Close() error { return nil }

// EscapePath renders a decoded path as a request-target.
func EscapePath(p string) string { return (&url.URL{Path: p}).EscapedPath() }

// BuildRequest turns a model request into an *http.Request by parsing raw
// request text with net/http's own server-side parser.
func BuildRequest(r vfs.Req) (*http.Request, context.CancelFunc, error) {
	var b strings.Builder
	fmt.Fprintf(&b, "%s %s HTTP/1.1\r\nHost: dav.example\r\n", r.Method, EscapePath(r.Path))
	hdr := func(k, v string) {
		fmt.Fprintf(&b, "%s: %s\r\n", k, v)
	}
	if r.Depth != "" {
		hdr("Depth", r.Depth)
	}
	if r.Overwrite != "" {
		hdr("Overwrite", r.Overwrite)
	}
	if r.HasDest {
		hdr("Destination", r.Dest)
	}
	if r.ContentType != "" {
		hdr("Content-Type", r.ContentType)
	}
	if r.IfMatch != "" {
		hdr("If-Match", r.IfMatch)
	}
	if r.IfNoneMatch != "" {
		hdr("If-None-Match", r.IfNoneMatch)
	}
	if r.Chunked && len(r.Body) > 0 {
		b.WriteString("Transfer-Encoding: chunked\r\n\r\n")
		k := (len(r.Body) + 1) / 2
		for _, part := range []string{r.Body[:k], r.Body[k:]} {
			if part != "" {
				fmt.Fprintf(&b, "%x\r\n%s\r\n", len(part), part)
			}
		}
		b.WriteString("0\r\n\r\n")
	} else {
		fmt.Fprintf(&b, "Content-Length: %d\r\n\r\n%s", len(r.Body), r.Body)
	}
	req, err := http.ReadRequest(bufio.NewReader(strings.NewReader(b.String())))
	if err != nil {
		return nil, nil, err
	}
	cancel := func() {}
	if r.FailAfter != nil {
		var ferr error
		switch r.FailKind {
		case "unexpected-eof":
			ferr = io.ErrUnexpectedEOF
		case "canceled":
			ctx, c := context.WithCancel(req.Context())
			req = req.WithContext(ctx)
			c()
			ferr = context.Canceled
		default:
			ferr = errors.New("verif: injected body failure")
		}
		k := *r.FailAfter
		if k > len(r.Body) {
			k = len(r.Body)
		}
		req.Body = &failReader{data: []byte(r.Body[:k]), err: ferr, hookAt: -1}
	}
	if r.CancelAfter != nil {
		ctx, c := context.WithCancel(req.Context())
		req = req.WithContext(ctx)
		k := *r.CancelAfter
		if k > len(r.Body) {
			k = len(r.Body)
		}
		req.Body = &failReader{data: []byte(r.Body), err: io.EOF, hookAt: k, hook: c}
		cancel = c
	}
	return req, cancel, nil
}

func Serve(h http.Handler, req *http.Request) (resp Resp) {
	w := httptest.NewRecorder()
	func() {
		defer func() {
			if p := recover(); p != nil {
				resp.Panic = p
			}
		}()
		h.ServeHTTP(w, req)
	}()
	resp.Status = w.Code
	resp.Header = w.Header()
	resp.Body = w.Body.Bytes()
	return resp
}

type Server struct {
	Root string
	H    http.Handler
}

func NewServer(root string) *Server {
	return &Server{Root: root, H: &webdav.Handler{FileSystem: webdav.LocalFileSystem(root)}}
}

// CurrentTag asks the server itself for the entity tag of a file (HEAD).
func (s *Server) CurrentTag(p string) string {
	req, _, err := BuildRequest(vfs.Req{Method: "HEAD", Path: p})
	if err != nil {
		return ""
	}
	return Serve(s.H, req).Header.Get("ETag")
}

// Do resolves the $CUR placeholders and serves the request.
func (s *Server) Do(r vfs.Req) (Resp, error) {
	if r.IfMatch == vfs.CurTag || r.IfNoneMatch == vfs.CurTag {
		tag := s.CurrentTag(r.Path)
		if tag == "" {
			return Resp{}, fmt.Errorf("cannot resolve the current tag of %q", r.Path)
		}
		if r.IfMatch == vfs.CurTag {
			r.IfMatch = tag
		}
		if r.IfNoneMatch == vfs.CurTag {
			r.IfNoneMatch = tag
		}
	}
	req, cancel, err := BuildRequest(r)
	if err != nil {
		return Resp{}, err
	}
	defer cancel()
	return Serve(s.H, req), nil
}

// ---------------------------------------------------------------------------
// independent multi-status reader (harness structs, not go-webdav's)

type msProp struct {
	ResourceType *struct {
		Collection *struct{} `xml:"DAV: collection"`
	} `xml:"DAV: resourcetype"`
	Length   *string `xml:"DAV: getcontentlength"`
	ETag     *string `xml:"DAV: getetag"`
	Modified *string `xml:"DAV: getlastmodified"`
	Type     *string `xml:"DAV: getcontenttype"`
}

type msPropStat struct {
	Prop   msProp `xml:"DAV: prop"`
	Status string `xml:"DAV: status"`
}

type msResponse struct {
	Hrefs     []string     `xml:"DAV: href"`
	PropStats []msPropStat `xml:"DAV: propstat"`
	Status    string       `xml:"DAV: status"`
}

type multiStatus struct {
	XMLName   xml.Name     `xml:"DAV: multistatus"`
	Responses []msResponse `xml:"DAV: response"`
}

type Reported struct {
	Path         string // cleaned, decoded
	RawHref      string
	IsCollection bool
	HasType      bool
	Length       *string
	ETag         *string
	Modified     *string
	Type         *string // getcontenttype under 200, if reported
}

func ParseMultiStatus(body []byte) ([]Reported, error) {
	var ms multiStatus
	if err := xml.Unmarshal(body, &ms); err != nil {
		return nil, err
	}
	var out []Reported
	for _, r := range ms.Responses {
		if len(r.Hrefs) != 1 {
			return nil, fmt.Errorf("response with %d hrefs", len(r.Hrefs))
		}
		// an href is read the way it would be used when sent back as a
		// request-target: a leading "//" is part of the path, not an authority
		h := strings.TrimSpace(r.Hrefs[0])
		var u *url.URL
		var err error
		if strings.HasPrefix(h, "/") {
			u, err = url.ParseRequestURI(h)
		} else {
			u, err = url.Parse(h)
		}
		if err != nil {
			return nil, fmt.Errorf("href %q: %v", r.Hrefs[0], err)
		}
		if !strings.HasPrefix(u.Path, "/") {
			return nil, fmt.Errorf("href %q is not an absolute path", r.Hrefs[0])
		}
		rep := Reported{Path: path.Clean(u.Path), RawHref: r.Hrefs[0]}
		for _, ps := range r.PropStats {
			f := strings.Fields(ps.Status)
			if len(f) < 2 || f[1] != "200" {
				continue
			}
			if ps.Prop.ResourceType != nil {
				rep.HasType = true
				rep.IsCollection = ps.Prop.ResourceType.Collection != nil
			}
			if ps.Prop.Length != nil {
				rep.Length = ps.Prop.Length
			}
			if ps.Prop.ETag != nil {
				rep.ETag = ps.Prop.ETag
			}
			if ps.Prop.Modified != nil {
				rep.Modified = ps.Prop.Modified
			}
			if ps.Prop.Type != nil {
				rep.Type = ps.Prop.Type
			}
		}
		out = append(out, rep)
	}
	sort.SliceStable(out, func(i, j int) bool { return out[i].Path < out[j].Path })
	return out, nil
}

func mustJSON(v any) string {
	b, _ := json.Marshal(v)
	return string(b)
}
