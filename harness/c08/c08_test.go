// C08 — CalDAV queries cross the wire without loss, in RFC 4791 form.
package c08

import (
	"bufio"
	"context"
	"encoding/json"
	"fmt"
	"mime"
	"net/http"
	"net/http/httptest"
	"net/url"
	"reflect"
	"strings"
	"testing"
	"time"

	"github.com/emersion/go-webdav/caldav"
	"github.com/emersion/go-webdav/verifharness/vdav"
	"github.com/emersion/go-webdav/verifharness/vdbl"
	"github.com/emersion/go-webdav/verifharness/vev"
	"github.com/emersion/go-webdav/verifharness/vwire"
	"github.com/emersion/go-webdav/verifharness/vx"
	"pgregory.net/rapid"
)

var rec = vev.For("C08")

func TestMain(m *testing.M) {
	rec.SetRule("client->wire: rapid-generated CalendarQuery/CalendarMultiGet values (filter trees of any shape, is-not-defined at every level, negate-condition, texts with blanks and XML metacharacters, instants in arbitrary fixed zones with sub-second parts, nested component requests, expand, hrefs needing escaping) sent by caldav.Client to a capturing HTTP client; the captured body is read by the harness' strict XML reader and its order-strict RFC 4791 reader and must denote the same request. wire->backend: RFC-conformant documents written by the harness writer from generated values in random lexical form (prefixes, declaration placement, quoting, whitespace, comments, CDATA, character references; with timezone/collation/limit-recurrence-set noise) are served as REPORT by caldav.Handler over a recording backend, which must receive the request they denote. non-trivial = the value uses is-not-defined, negate, a parameter filter, a non-UTC time range, a nested component request, expand, or text needing escaping; distinct by canonical JSON")
	rec.Assume("is-not-defined excludes sibling elements, allprop/prop and allcomp/comp are exclusive, names are non-empty, range start < end (RFC 4791 DTD and section 9.9)", "strings are XML-representable", "instants are compared to the second; a zero instant means an absent bound")
	vev.Main(m)
}

type Case struct {
	Dir     string           `json:"dir"`  // client | server
	Kind    string           `json:"kind"` // query | multiget
	Query   vdav.CalQuery    `json:"query,omitempty"`
	Multi   vdav.CalMultiGet `json:"multi,omitempty"`
	Zone    int              `json:"zone,omitempty"` // client: the caller's zone offset (s)
	TZ      string           `json:"tz,omitempty"`   // client: the caller's zone is this real zone with DST rules (overrides Zone)
	NS      int              `json:"ns,omitempty"`   // client: sub-second part added to instants
	Path    string           `json:"path"`
	Prelude []int            `json:"prelude,omitempty"` // server: indices into preludes, requests served by the same handler first
	Lexical []int            `json:"lexical,omitempty"` // server: lexical choices of the writer
}

// ---------------------------------------------------------------------------
// mirror <-> public

func (c Case) tm(v *int64) time.Time {
	if v == nil {
		return time.Time{}
	}
	if c.TZ != "" {
		return time.Unix(*v, int64(c.NS)).In(vev.Zone(c.TZ))
	}
	return time.Unix(*v, int64(c.NS)).In(time.FixedZone("caller", c.Zone))
}

func toTM(t *vdav.TextMatch) *caldav.TextMatch {
	if t == nil {
		return nil
	}
	return &caldav.TextMatch{Text: t.Text, NegateCondition: t.Neg}
}

func (c Case) toFilter(f vdav.CompF) caldav.CompFilter {
	out := caldav.CompFilter{Name: f.Name, IsNotDefined: f.IND, Start: c.tm(f.Start), End: c.tm(f.End)}
	for _, p := range f.Props {
		o := caldav.PropFilter{Name: p.Name, IsNotDefined: p.IND, Start: c.tm(p.Start), End: c.tm(p.End), TextMatch: toTM(p.TM)}
		for _, q := range p.Params {
			o.ParamFilter = append(o.ParamFilter, caldav.ParamFilter{Name: q.Name, IsNotDefined: q.IND, TextMatch: toTM(q.TM)})
		}
		out.Props = append(out.Props, o)
	}
	for _, ch := range f.Comps {
		out.Comps = append(out.Comps, c.toFilter(ch))
	}
	return out
}

func toCompReq(r vdav.CompReq) caldav.CalendarCompRequest {
	out := caldav.CalendarCompRequest{Name: r.Name, AllProps: r.AllProps, Props: append([]string(nil), r.Props...), AllComps: r.AllComps}
	for _, ch := range r.Comps {
		out.Comps = append(out.Comps, toCompReq(ch))
	}
	return out
}

func (c Case) toPublicReq(d vdav.CalData) caldav.CalendarCompRequest {
	out := toCompReq(*d.Comp)
	if d.Expand != nil {
		out.Expand = &caldav.CalendarExpandRequest{Start: c.tm(&d.Expand[0]), End: c.tm(&d.Expand[1])}
	}
	return out
}

func unix(t time.Time) *int64 {
	if t.IsZero() {
		return nil
	}
	v := t.Unix()
	return &v
}

func fromTM(t *caldav.TextMatch) *vdav.TextMatch {
	if t == nil {
		return nil
	}
	return &vdav.TextMatch{Text: t.Text, Neg: t.NegateCondition}
}

func fromFilter(f caldav.CompFilter) vdav.CompF {
	out := vdav.CompF{Name: f.Name, IND: f.IsNotDefined, Start: unix(f.Start), End: unix(f.End)}
	for _, p := range f.Props {
		o := vdav.PropF{Name: p.Name, IND: p.IsNotDefined, Start: unix(p.Start), End: unix(p.End), TM: fromTM(p.TextMatch)}
		for _, q := range p.ParamFilter {
			o.Params = append(o.Params, vdav.ParamF{Name: q.Name, IND: q.IsNotDefined, TM: fromTM(q.TextMatch)})
		}
		out.Props = append(out.Props, o)
	}
	for _, ch := range f.Comps {
		out.Comps = append(out.Comps, fromFilter(ch))
	}
	return out
}

func fromCompReq(r caldav.CalendarCompRequest) vdav.CompReq {
	out := vdav.CompReq{Name: r.Name, AllProps: r.AllProps, Props: append([]string(nil), r.Props...), AllComps: r.AllComps}
	for _, ch := range r.Comps {
		out.Comps = append(out.Comps, fromCompReq(ch))
	}
	return out
}

// strip collation (noise the public type cannot express) for comparison
func stripNoise(f vdav.CompF) vdav.CompF {
	out := f
	out.Props = nil
	for _, p := range f.Props {
		q := p
		if p.TM != nil {
			tm := *p.TM
			tm.Collation = ""
			q.TM = &tm
		}
		q.Params = nil
		for _, pa := range p.Params {
			r := pa
			if pa.TM != nil {
				tm := *pa.TM
				tm.Collation = ""
				r.TM = &tm
			}
			q.Params = append(q.Params, r)
		}
		out.Props = append(out.Props, q)
	}
	out.Comps = nil
	for _, ch := range f.Comps {
		out.Comps = append(out.Comps, stripNoise(ch))
	}
	return out
}

func dev(kind, f string, a ...any) vev.Outcome {
	return vev.Outcome{Sig: vev.Sig(kind), Msg: fmt.Sprintf(f, a...)}
}

func eq(a, b any) bool { return mustJSON(a) == mustJSON(b) }

// firstDiff names the first feature that differs between two filters, for signatures
func filterDiff(want, got vdav.CompF) string {
	if want.Name != got.Name {
		return "comp-name"
	}
	if want.IND != got.IND {
		return "comp-is-not-defined"
	}
	if !eq(want.Start, got.Start) || !eq(want.End, got.End) {
		return "comp-time-range"
	}
	if len(want.Props) != len(got.Props) {
		return "prop-filter-count"
	}
	for i := range want.Props {
		w, g := want.Props[i], got.Props[i]
		switch {
		case w.Name != g.Name:
			return "prop-name"
		case w.IND != g.IND:
			return "prop-is-not-defined"
		case !eq(w.Start, g.Start) || !eq(w.End, g.End):
			return "prop-time-range"
		case (w.TM == nil) != (g.TM == nil):
			return "prop-text-match-presence"
		case w.TM != nil && w.TM.Text != g.TM.Text:
			return "prop-text"
		case w.TM != nil && w.TM.Neg != g.TM.Neg:
			return "prop-negate"
		case len(w.Params) != len(g.Params):
			return "param-filter-count"
		}
		for j := range w.Params {
			a, b := w.Params[j], g.Params[j]
			switch {
			case a.Name != b.Name:
				return "param-name"
			case a.IND != b.IND:
				return "param-is-not-defined"
			case (a.TM == nil) != (b.TM == nil):
				return "param-text-match-presence"
			case a.TM != nil && a.TM.Text != b.TM.Text:
				return "param-text"
			case a.TM != nil && a.TM.Neg != b.TM.Neg:
				return "param-negate"
			}
		}
	}
	if len(want.Comps) != len(got.Comps) {
		return "comp-filter-count"
	}
	for i := range want.Comps {
		if d := filterDiff(want.Comps[i], got.Comps[i]); d != "" {
			return d
		}
	}
	return ""
}

func reqDiff(want, got vdav.CompReq) string {
	switch {
	case want.Name != got.Name:
		return "comp-request-name"
	case want.AllProps != got.AllProps:
		return "allprop"
	case want.AllComps != got.AllComps:
		return "allcomp"
	case !reflect.DeepEqual(append([]string{}, want.Props...), append([]string{}, got.Props...)):
		return "prop-names"
	case len(want.Comps) != len(got.Comps):
		return "comp-request-count"
	}
	for i := range want.Comps {
		if d := reqDiff(want.Comps[i], got.Comps[i]); d != "" {
			return d
		}
	}
	return ""
}

// ---------------------------------------------------------------------------
// client -> wire

func evalClient(c Case) (vev.Outcome, error) {
	capt := &vwire.Capture{}
	cl, err := caldav.NewClient(capt, "http://dav.example/")
	if err != nil {
		return vev.Outcome{}, err
	}
	var data vdav.CalData
	if c.Kind == "query" {
		data = c.Query.Data
		q := &caldav.CalendarQuery{CompRequest: c.toPublicReq(data), CompFilter: c.toFilter(c.Query.Filter)}
		_, err = cl.QueryCalendar(context.Background(), c.Path, q)
	} else {
		data = c.Multi.Data
		mg := &caldav.CalendarMultiGet{Paths: append([]string(nil), c.Multi.Hrefs...), CompRequest: c.toPublicReq(data)}
		_, err = cl.MultiGetCalendar(context.Background(), c.Path, mg)
	}
	if err != nil {
		return dev("client|"+c.Kind+"|error", "client call failed: %v", err), nil
	}
	ex, ok := capt.Last()
	if !ok {
		return dev("client|"+c.Kind+"|no-request", "no request was sent"), nil
	}
	if ex.Method != "REPORT" {
		return dev("client|"+c.Kind+"|method", "method %q, want REPORT", ex.Method), nil
	}
	if ex.Header.Get("Depth") != "1" {
		return dev("client|"+c.Kind+"|depth", "Depth header %q, want 1", ex.Header.Get("Depth")), nil
	}
	if mt, _, _ := mime.ParseMediaType(ex.Header.Get("Content-Type")); mt != "application/xml" && mt != "text/xml" {
		return dev("client|"+c.Kind+"|content-type", "Content-Type %q is not XML", ex.Header.Get("Content-Type")), nil
	}
	if ex.Path != c.Path {
		return dev("client|"+c.Kind+"|url", "request path %q, want %q", ex.Path, c.Path), nil
	}
	root, err := vx.Parse(ex.Body)
	if err != nil {
		return dev("client|"+c.Kind+"|not-wellformed", "request body is not well-formed, namespace-correct XML: %v: %q", err, ex.Body), nil
	}
	var gotData vdav.CalData
	if c.Kind == "query" {
		got, err := vdav.ReadCalendarQuery(root)
		if err != nil {
			return dev("client|query|not-rfc4791", "request body is not an RFC 4791 calendar-query: %v: %q", err, ex.Body), nil
		}
		gotData = got.Data
		if d := filterDiff(c.Query.Filter, got.Filter); d != "" {
			return dev("client|query|filter|"+d, "filter sent as %s, caller asked for %s (body %q)", mustJSON(got.Filter), mustJSON(c.Query.Filter), ex.Body), nil
		}
	} else {
		got, err := vdav.ReadCalendarMultiGet(root, decodeHref)
		if err != nil {
			return dev("client|multiget|not-rfc4791", "request body is not an RFC 4791 calendar-multiget: %v: %q", err, ex.Body), nil
		}
		gotData = got.Data
		want := c.Multi.Hrefs
		if len(want) == 0 {
			want = []string{c.Path}
		}
		if !reflect.DeepEqual(got.Hrefs, want) {
			return dev("client|multiget|hrefs", "hrefs sent %q, caller asked for %q", got.Hrefs, want), nil
		}
	}
	if !gotData.Present || gotData.Comp == nil {
		return dev("client|"+c.Kind+"|calendar-data-missing", "no calendar-data/comp request in %q", ex.Body), nil
	}
	if d := reqDiff(*data.Comp, *gotData.Comp); d != "" {
		return dev("client|"+c.Kind+"|comp-request|"+d, "component request sent as %s, caller asked for %s", mustJSON(gotData.Comp), mustJSON(data.Comp)), nil
	}
	if !eq(data.Expand, gotData.Expand) {
		return dev("client|"+c.Kind+"|expand", "expand sent as %s, caller asked for %s (zone %+d s): %q", mustJSON(gotData.Expand), mustJSON(data.Expand), c.Zone, ex.Body), nil
	}
	return vev.Outcome{}, nil
}

func decodeHref(s string) (string, error) {
	u, err := url.Parse(strings.TrimSpace(s))
	if err != nil {
		return "", err
	}
	return u.Path, nil
}

// ---------------------------------------------------------------------------
// wire -> backend

type replayChooser struct {
	choices []int
	i       int
}

func (r *replayChooser) Pick(label string, n int) int {
	if r.i >= len(r.choices) {
		return 0
	}
	v := r.choices[r.i] % n
	r.i++
	return v
}

func hrefText(form int) func(string) string {
	return func(p string) string {
		esc := (&url.URL{Path: p}).EscapedPath()
		if form%3 == 1 {
			return "http://dav.example" + esc
		}
		return esc
	}
}

func expectedReq(d vdav.CalData) (vdav.CompReq, *[2]int64) {
	if !d.Present {
		return vdav.CompReq{}, nil
	}
	if d.Comp == nil {
		return vdav.CompReq{AllProps: true, AllComps: true}, d.Expand
	}
	return *d.Comp, d.Expand
}

func evalServer(c Case) (vev.Outcome, error) {
	var root *vx.Node
	if c.Kind == "query" {
		root = c.Query.Node()
	} else {
		form := 0
		if len(c.Lexical) > 0 {
			form = c.Lexical[0]
		}
		root = c.Multi.Node(hrefText(form))
	}
	body := vx.Write(root, &replayChooser{choices: c.Lexical}, true)
	if _, err := vx.Parse(body); err != nil {
		return vev.Outcome{}, fmt.Errorf("harness writer produced a bad document: %v: %q", err, body)
	}
	raw := fmt.Sprintf("REPORT %s HTTP/1.1\r\nHost: dav.example\r\nDepth: 1\r\nContent-Type: application/xml; charset=utf-8\r\nContent-Length: %d\r\n\r\n%s", (&url.URL{Path: c.Path}).EscapedPath(), len(body), body)
	req, err := http.ReadRequest(bufio.NewReader(strings.NewReader(raw)))
	if err != nil {
		return vev.Outcome{}, err
	}
	b := &vdbl.CalBackend{Principal: "/u/", HomeSet: "/u/cal/"}
	h := &caldav.Handler{Backend: b}
	// earlier requests served by the same handler (an accepted query with expansion and a partial retrieval, a refused
	// one, a multiget, something unparseable) must leave nothing behind for the request under test
	for _, k := range c.Prelude {
		doc := preludes[k%len(preludes)]
		praw := fmt.Sprintf("REPORT /u/cal/earlier/ HTTP/1.1\r\nHost: dav.example\r\nDepth: 1\r\nContent-Type: text/xml\r\nContent-Length: %d\r\n\r\n%s", len(doc), doc)
		if preq, err := http.ReadRequest(bufio.NewReader(strings.NewReader(praw))); err == nil {
			func() {
				defer func() { recover() }()
				h.ServeHTTP(httptest.NewRecorder(), preq)
			}()
		}
	}
	b.Reset()
	w := httptest.NewRecorder()
	var pan any
	func() {
		defer func() { pan = recover() }()
		h.ServeHTTP(w, req)
	}()
	if pan != nil {
		return dev("server|"+c.Kind+"|panic", "panic: %v on %q", pan, body), nil
	}
	if w.Code != 207 {
		return dev("server|"+c.Kind+fmt.Sprintf("|status-%d", w.Code), "conformant %s answered %d (%.200q): %q", c.Kind, w.Code, w.Body.String(), body), nil
	}
	if c.Kind == "query" {
		var got *caldav.CalendarQuery
		var gotPath string
		n := 0
		for _, call := range b.Log() {
			if call.Op == "QueryCalendarObjects" {
				got, gotPath = call.Query, call.Path
				n++
			}
		}
		if n != 1 || got == nil {
			return dev("server|query|no-backend-call", "backend saw %d QueryCalendarObjects calls for %q", n, body), nil
		}
		if gotPath != c.Path {
			return dev("server|query|path", "backend path %q, request path %q", gotPath, c.Path), nil
		}
		if d := filterDiff(stripNoise(c.Query.Filter), fromFilter(got.CompFilter)); d != "" {
			return dev("server|query|filter|"+d, "backend received filter %s, document denotes %s: %q", mustJSON(fromFilter(got.CompFilter)), mustJSON(stripNoise(c.Query.Filter)), body), nil
		}
		wantReq, wantExp := expectedReq(c.Query.Data)
		if !c.Query.Data.Present {
			// nothing requested: an empty request and "everything" are both accepted
			return vev.Outcome{}, nil
		}
		if d := reqDiff(wantReq, fromCompReq(got.CompRequest)); d != "" {
			return dev("server|query|comp-request|"+d, "backend received component request %s, document denotes %s: %q", mustJSON(fromCompReq(got.CompRequest)), mustJSON(wantReq), body), nil
		}
		if o := cmpExpand("query", wantExp, got.CompRequest.Expand, body); !o.OK() {
			return o, nil
		}
		return vev.Outcome{}, nil
	}
	var paths []string
	wantReq, wantExp := expectedReq(c.Multi.Data)
	for _, call := range b.Log() {
		if call.Op != "GetCalendarObject" {
			continue
		}
		paths = append(paths, call.Path)
		if !c.Multi.Data.Present {
			continue
		}
		if d := reqDiff(wantReq, fromCompReq(*call.CompReq)); d != "" {
			return dev("server|multiget|comp-request|"+d, "backend received component request %s, document denotes %s: %q", mustJSON(fromCompReq(*call.CompReq)), mustJSON(wantReq), body), nil
		}
		if o := cmpExpand("multiget", wantExp, call.CompReq.Expand, body); !o.OK() {
			return o, nil
		}
	}
	if !reflect.DeepEqual(paths, c.Multi.Hrefs) {
		return dev("server|multiget|hrefs", "backend was asked for %q, document lists %q: %q", paths, c.Multi.Hrefs, body), nil
	}
	return vev.Outcome{}, nil
}

func cmpExpand(kind string, want *[2]int64, got *caldav.CalendarExpandRequest, body []byte) vev.Outcome {
	if (want == nil) != (got == nil) {
		return dev("server|"+kind+"|expand-presence", "expand: document %v, backend %v: %q", want != nil, got != nil, body)
	}
	if want != nil && (got.Start.Unix() != want[0] || got.End.Unix() != want[1]) {
		return dev("server|"+kind+"|expand-range", "expand: document %v, backend %v..%v: %q", *want, got.Start, got.End, body)
	}
	return vev.Outcome{}
}

func evaluate(c Case) (vev.Outcome, error) {
	if c.Dir == "client" {
		return evalClient(c)
	}
	return evalServer(c)
}

// ---------------------------------------------------------------------------
// generators

var (
	compNames  = []string{"VCALENDAR", "VEVENT", "VTODO", "VALARM", "VJOURNAL", "VFREEBUSY", "X-COMP", "vevent", "Valarm"} // lower and mixed case: names cross unaltered
	propNames  = []string{"SUMMARY", "DTSTART", "ATTENDEE", "X-A", "UID", "DESCRIPTION", "X-É", "summary", "X-Apple-Thing"}
	paramNames = []string{"PARTSTAT", "CN", "X-P", "TZID", "cn", "Partstat"}
)

func genText() *rapid.Generator[string] {
	return rapid.OneOf(rapid.SampledFrom([]string{"", "a", "meeting", " lead", "trail ", "  ", "a<b", "a&b", `"q"`, "'", "a>b", "]]>", "é", "a\nb", "a\tb", "a\rb", "a\r\nb", "\r", "x y", "&amp;", "<!--", "mailto:a@b", "💥", `a\,b`, `a\\b`, `\n`, `\`, "%41", "%", "&#65;", "&#x41;", "&amp;amp;", "^n", "a;b", "a,b"}), rapid.StringMatching(`[a-zA-Z <>&"' é]{0,8}`))
}

func genTM(rt *rapid.T, noise bool) *vdav.TextMatch {
	tm := &vdav.TextMatch{Text: genText().Draw(rt, "text"), Neg: rapid.Bool().Draw(rt, "neg")}
	if noise && rapid.IntRange(0, 3).Draw(rt, "collation") == 0 {
		tm.Collation = rapid.SampledFrom([]string{"i;ascii-casemap", "i;octet"}).Draw(rt, "coll")
	}
	return tm
}

// curTZ: the real zone of the case being generated (rapid runs one case at a time); ranges then start and end near its
// offset changes, inside a repeated or next to a skipped wall-clock hour
var curTZ string

func genRange(rt *rapid.T, label string) (*int64, *int64) {
	a := rapid.Int64Range(-2e9, 4e9).Draw(rt, label+"-start")
	b := a + rapid.Int64Range(1, 1e8).Draw(rt, label+"-len")
	if curTZ != "" {
		if tr := vev.Transitions(curTZ); len(tr) > 0 {
			a = tr[rapid.IntRange(0, len(tr)-1).Draw(rt, label+"-tr")] + rapid.Int64Range(-7300, 3700).Draw(rt, label+"-d")
			b = a + rapid.Int64Range(1, 7300).Draw(rt, label+"-zlen")
		}
	}
	switch rapid.IntRange(0, 4).Draw(rt, label+"-kind") {
	case 0:
		return &a, nil
	case 1:
		return nil, &b
	}
	return &a, &b
}

func genParamF(rt *rapid.T, noise bool) vdav.ParamF {
	f := vdav.ParamF{Name: rapid.SampledFrom(paramNames).Draw(rt, "pname")}
	switch rapid.IntRange(0, 2).Draw(rt, "pkind") {
	case 0:
		f.IND = true
	case 1:
		f.TM = genTM(rt, noise)
	}
	return f
}

func genPropF(rt *rapid.T, noise bool) vdav.PropF {
	f := vdav.PropF{Name: rapid.SampledFrom(propNames).Draw(rt, "prname")}
	switch rapid.IntRange(0, 4).Draw(rt, "prkind") {
	case 0:
		f.IND = true
		return f
	case 1:
		f.Start, f.End = genRange(rt, "pr")
	case 2, 3:
		f.TM = genTM(rt, noise)
	}
	n := rapid.IntRange(0, 3).Draw(rt, "nparams")
	if n == 3 {
		n = 0
	}
	for i := 0; i < n; i++ {
		f.Params = append(f.Params, genParamF(rt, noise))
	}
	return f
}

func genCompF(rt *rapid.T, depth int, noise bool) vdav.CompF {
	f := vdav.CompF{Name: rapid.SampledFrom(compNames).Draw(rt, "cname")}
	if depth == 0 {
		f.Name = "VCALENDAR"
	}
	if rapid.IntRange(0, 5).Draw(rt, "cind") == 0 {
		f.IND = true
		return f
	}
	if depth > 0 && rapid.IntRange(0, 2).Draw(rt, "crange") == 0 {
		f.Start, f.End = genRange(rt, "c")
	}
	np := rapid.IntRange(0, 2).Draw(rt, "nprops")
	for i := 0; i < np; i++ {
		f.Props = append(f.Props, genPropF(rt, noise))
	}
	if depth < 3 {
		nc := rapid.IntRange(0, 2).Draw(rt, "ncomps")
		for i := 0; i < nc; i++ {
			f.Comps = append(f.Comps, genCompF(rt, depth+1, noise))
		}
	}
	return f
}

func genCompReq(rt *rapid.T, depth int) vdav.CompReq {
	r := vdav.CompReq{Name: rapid.SampledFrom(compNames).Draw(rt, "rname")}
	if depth == 0 {
		r.Name = "VCALENDAR"
	}
	if rapid.Bool().Draw(rt, "rallprop") {
		r.AllProps = true
	} else {
		n := rapid.IntRange(0, 3).Draw(rt, "rnprops")
		for i := 0; i < n; i++ {
			r.Props = append(r.Props, rapid.SampledFrom(propNames).Draw(rt, "rprop"))
		}
	}
	if rapid.IntRange(0, 2).Draw(rt, "rallcomp") == 0 {
		r.AllComps = true
	} else if depth < 2 {
		n := rapid.IntRange(0, 2).Draw(rt, "rncomps")
		for i := 0; i < n; i++ {
			r.Comps = append(r.Comps, genCompReq(rt, depth+1))
		}
	}
	return r
}

func genData(rt *rapid.T, client bool) vdav.CalData {
	d := vdav.CalData{Present: true}
	if client || rapid.IntRange(0, 3).Draw(rt, "hascomp") != 0 {
		c := genCompReq(rt, 0)
		d.Comp = &c
	}
	if !client && rapid.IntRange(0, 5).Draw(rt, "nodata") == 0 {
		return vdav.CalData{}
	}
	switch rapid.IntRange(0, 3).Draw(rt, "expand") {
	case 0:
		a, b := genRange(rt, "exp")
		if a != nil && b != nil {
			d.Expand = &[2]int64{*a, *b}
		}
	case 1:
		if !client {
			a, b := genRange(rt, "lrs")
			if a != nil && b != nil {
				d.LimitRecurrence = &[2]int64{*a, *b}
			}
		}
	}
	return d
}

func genPath(rt *rapid.T) string {
	segs := []string{"u", "cal", "work", "a b", "é", "x%20y", "q?#", "d+;e", `"'<&>`, "o.ics", "%41"}
	n := rapid.IntRange(1, 4).Draw(rt, "npath")
	p := ""
	for i := 0; i < n; i++ {
		p += "/" + rapid.SampledFrom(segs).Draw(rt, "seg")
	}
	if rapid.Bool().Draw(rt, "slash") {
		p += "/"
	}
	return p
}

func features(c Case) []string {
	var f []string
	add := func(s string) { f = append(f, s) }
	var walk func(x vdav.CompF)
	walk = func(x vdav.CompF) {
		if x.IND {
			add("is-not-defined")
		}
		if x.Start != nil || x.End != nil {
			add("time-range")
		}
		for _, p := range x.Props {
			if p.IND {
				add("is-not-defined")
			}
			if p.TM != nil && p.TM.Neg {
				add("negate")
			}
			if p.TM != nil && strings.ContainsAny(p.TM.Text, "<>&\"' \n\t") {
				add("text-escaping")
			}
			if len(p.Params) > 0 {
				add("param-filter")
			}
			if p.Start != nil || p.End != nil {
				add("time-range")
			}
		}
		for _, ch := range x.Comps {
			walk(ch)
		}
	}
	d := c.Multi.Data
	if c.Kind == "query" {
		walk(c.Query.Filter)
		d = c.Query.Data
	}
	if d.Expand != nil {
		add("expand")
	}
	if d.Comp != nil && len(d.Comp.Comps) > 0 {
		add("nested-comp-request")
	}
	if c.Zone != 0 || c.TZ != "" {
		add("non-utc-zone")
	}
	if c.TZ != "" {
		add("dst-zone")
	}
	return f
}

func run(t *testing.T, rt *rapid.T, c Case) {
	f := features(c)
	seen := map[string]bool{}
	for _, x := range f {
		if !seen[x] {
			rec.Count("feature/"+x, 1)
			seen[x] = true
		}
	}
	rec.Case(c.Dir+"/"+c.Kind, len(f) > 0, mustJSON(c), func() any { return c })
	o, err := evaluate(c)
	if err != nil {
		rt.Fatalf("harness: %v", err)
	}
	if o.OK() || rec.Known(o.Sig) {
		return
	}
	rec.Fail(rt, o.Sig, "c08", c, "%s", o.Msg)
}

func TestAReplay(t *testing.T) {
	vev.RunReplays(t, rec, func(kind string, raw json.RawMessage) (vev.Outcome, error) {
		var c Case
		if err := json.Unmarshal(raw, &c); err != nil {
			return vev.Outcome{}, err
		}
		return evaluate(c)
	})
}

func TestClientToWire(t *testing.T) {
	if vev.ReplayFile() != "" {
		t.Skip()
	}
	vev.Rapid(t, rec, 0, vev.N(3000, 150000), func(rt *rapid.T) {
		c := Case{Dir: "client", Path: genPath(rt)}
		c.Zone = rapid.SampledFrom([]int{0, 0, 3600, -3600, 19800, -34200, 50400, 1}).Draw(rt, "zone")
		curTZ = ""
		if rapid.IntRange(0, 3).Draw(rt, "realzone") == 0 {
			c.TZ = rapid.SampledFrom(vev.Zones).Draw(rt, "tz")
			curTZ = c.TZ
		}
		defer func() { curTZ = "" }()
		c.NS = rapid.SampledFrom([]int{0, 0, 1, 999999999}).Draw(rt, "ns")
		if rapid.IntRange(0, 3).Draw(rt, "kind") == 0 {
			c.Kind = "multiget"
			c.Multi.Data = genData(rt, true)
			n := rapid.IntRange(0, 4).Draw(rt, "nhrefs")
			for i := 0; i < n; i++ {
				c.Multi.Hrefs = append(c.Multi.Hrefs, genPath(rt))
			}
		} else {
			c.Kind = "query"
			c.Query.Data = genData(rt, true)
			c.Query.Filter = genCompF(rt, 0, false)
		}
		run(t, rt, c)
	})
}

var preludes = []string{
	`<C:calendar-query xmlns:C="urn:ietf:params:xml:ns:caldav" xmlns:D="DAV:"><D:prop><D:getetag/><C:calendar-data><C:expand start="20010101T000000Z" end="20010201T000000Z"/></C:calendar-data></D:prop><C:filter><C:comp-filter name="VCALENDAR"><C:comp-filter name="VEARLIER"><C:time-range start="20010101T000000Z"/><C:prop-filter name="EARLIER"><C:text-match negate-condition="yes">earlier</C:text-match></C:prop-filter></C:comp-filter></C:comp-filter></C:filter></C:calendar-query>`,
	`<C:calendar-query xmlns:C="urn:ietf:params:xml:ns:caldav" xmlns:D="DAV:"><D:prop><C:calendar-data><C:comp name="VCALENDAR"><C:prop name="EARLIER"/><C:comp name="VEARLIER"><C:allprop/></C:comp></C:comp></C:calendar-data></D:prop><C:filter><C:comp-filter name="VCALENDAR"><C:comp-filter name="VEARLIER"><C:is-not-defined/><C:prop-filter name="X"/></C:comp-filter></C:comp-filter></C:filter></C:calendar-query>`,
	`<C:calendar-multiget xmlns:C="urn:ietf:params:xml:ns:caldav" xmlns:D="DAV:"><D:prop><C:calendar-data><C:expand start="20010101T000000Z" end="20010201T000000Z"/><C:comp name="VCALENDAR"><C:allprop/></C:comp></C:calendar-data></D:prop><D:href>/u/cal/earlier/1.ics</D:href><D:href>/u/cal/earlier/2.ics</D:href></C:calendar-multiget>`,
	`<C:calendar-query xmlns:C="urn:ietf:params:xml:ns:caldav"><C:filter><C:comp-filter name="VCALENDAR"><C:comp-filter name="VEARLIER">`,
	`<C:calendar-query xmlns:C="urn:ietf:params:xml:ns:caldav" xmlns:D="DAV:"><D:allprop/><C:filter><C:comp-filter name="VCALENDAR"><C:prop-filter name="EARLIER"><C:time-range start="yesterday"/></C:prop-filter></C:comp-filter></C:filter></C:calendar-query>`,
}

func TestWireToBackend(t *testing.T) {
	if vev.ReplayFile() != "" {
		t.Skip()
	}
	vev.Rapid(t, rec, 1, vev.N(3000, 150000), func(rt *rapid.T) {
		c := Case{Dir: "server", Path: genPath(rt)}
		c.Lexical = rapid.SliceOfN(rapid.IntRange(0, 11), 40, 40).Draw(rt, "lexical")
		if rapid.Bool().Draw(rt, "prelude?") {
			c.Prelude = rapid.SliceOfN(rapid.IntRange(0, len(preludes)-1), 1, 3).Draw(rt, "prelude")
		}
		others := []string{"getetag", "getlastmodified", "getcontenttype", "displayname"}
		if rapid.IntRange(0, 3).Draw(rt, "kind") == 0 {
			c.Kind = "multiget"
			c.Multi.Data = genData(rt, false)
			n := rapid.IntRange(1, 4).Draw(rt, "nhrefs")
			for i := 0; i < n; i++ {
				c.Multi.Hrefs = append(c.Multi.Hrefs, genPath(rt))
			}
			c.Multi.OtherProps = rapid.SliceOfN(rapid.SampledFrom(others), 0, 3).Draw(rt, "others")
			if !c.Multi.Data.Present && len(c.Multi.OtherProps) == 0 {
				c.Multi.OtherProps = []string{"getetag"}
			}
		} else {
			c.Kind = "query"
			c.Query.Data = genData(rt, false)
			c.Query.Filter = genCompF(rt, 0, true)
			c.Query.OtherProps = rapid.SliceOfN(rapid.SampledFrom(others), 0, 3).Draw(rt, "others")
			if rapid.IntRange(0, 5).Draw(rt, "tz") == 0 {
				c.Query.Timezone = "BEGIN:VCALENDAR\r\nEND:VCALENDAR"
			}
		}
		run(t, rt, c)
	})
}

func mustJSON(v any) string {
	b, _ := json.Marshal(v)
	return string(b)
}
