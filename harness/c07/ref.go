// Package c07: CardDAV filter evaluation, limit and projection (RFC 6352 §10.5).
//
// ref.go is the reference evaluator.  It is written from the property
// statement, works on harness-side mirror types only and imports nothing from
// go-webdav.
package c07

import "strings"

type TM struct {
	Text string `json:"text"`
	Neg  bool   `json:"neg,omitempty"`
	Type string `json:"type,omitempty"`
}

type Param struct {
	Name string `json:"name"`
	IND  bool   `json:"ind,omitempty"`
	TM   *TM    `json:"tm,omitempty"`
}

type PF struct {
	Name   string  `json:"name"`
	Test   string  `json:"test,omitempty"`
	IND    bool    `json:"ind,omitempty"`
	TMs    []TM    `json:"tms,omitempty"`
	Params []Param `json:"params,omitempty"`
}

type Q struct {
	Nil     bool     `json:"nil,omitempty"`
	Test    string   `json:"test,omitempty"`
	PFs     []PF     `json:"pfs,omitempty"`
	Limit   int      `json:"limit,omitempty"`
	Props   []string `json:"props,omitempty"`
	AllProp bool     `json:"allprop,omitempty"`
}

type Fld struct {
	Name  string `json:"n"`
	Value string `json:"v"`
}

type Card struct {
	Path   string `json:"path"`
	ETag   string `json:"etag,omitempty"`
	Fields []Fld  `json:"fields"`
	Pref   []int  `json:"pref,omitempty"` // indices of fields that carry PREF=1 (the reference ignores parameters)
}

func (c Card) values(name string) []string {
	var l []string
	for _, f := range c.Fields {
		if f.Name == name {
			l = append(l, f.Value)
		}
	}
	return l
}

// Set of permitted outcomes.
type Set uint8

const (
	T Set = 1 << iota
	F
	Err
)

func (s Set) Has(x Set) bool { return s&x != 0 }
func (s Set) Single() bool   { return s == T || s == F || s == Err }
func (s Set) String() string {
	var l []string
	if s.Has(T) {
		l = append(l, "true")
	}
	if s.Has(F) {
		l = append(l, "false")
	}
	if s.Has(Err) {
		l = append(l, "error")
	}
	return "{" + strings.Join(l, ",") + "}"
}

func fromBool(b bool) Set {
	if b {
		return T
	}
	return F
}

func anyOf(l []Set) Set {
	var r Set
	allF := true
	for _, s := range l {
		if s.Has(T) {
			r |= T
		}
		if s.Has(Err) {
			r |= Err
		}
		if !s.Has(F) {
			allF = false
		}
	}
	if allF {
		r |= F
	}
	return r
}

func allOf(l []Set) Set {
	var r Set
	allT := true
	for _, s := range l {
		if s.Has(F) {
			r |= F
		}
		if s.Has(Err) {
			r |= Err
		}
		if !s.Has(T) {
			allT = false
		}
	}
	if allT {
		r |= T
	}
	return r
}

func validTest(t string) bool { return t == "" || t == "anyof" || t == "allof" }
func validType(t string) bool {
	switch t {
	case "", "equals", "contains", "starts-with", "ends-with":
		return true
	}
	return false
}

func combine(test string, l []Set, queryLevel bool) Set {
	switch test {
	case "", "anyof":
		return anyOf(l)
	case "allof":
		return allOf(l)
	}
	// unknown test: must be reported, never guessed.  Where anyof and allof
	// agree the verdict does not depend on the test, so a lazy implementation
	// that never consults it is tolerated below the query level.
	if queryLevel {
		return Err
	}
	a, b := anyOf(l), allOf(l)
	if a == b {
		return a | Err
	}
	return Err
}

func evalTM(tm TM, value string) Set {
	if !validType(tm.Type) {
		return Err
	}
	// The statement does not name a collation.  RFC 6352 section 10.5.4 makes i;unicode-casemap (case-insensitive)
	// the default, the library compares octets; both readings are accepted, so a text match whose verdict depends
	// on letter case alone decides nothing (it comes out as {T,F}).
	r := evalTMWith(tm, value, func(s string) string { return s })
	r |= evalTMWith(tm, value, strings.ToLower)
	r |= evalTMWith(tm, value, strings.ToUpper)
	return r
}

func evalTMWith(tm TM, value string, norm func(string) string) Set {
	v, t := norm(value), norm(tm.Text)
	var ok bool
	switch tm.Type {
	case "equals":
		ok = v == t
	case "", "contains":
		ok = strings.Contains(v, t)
	case "starts-with":
		ok = strings.HasPrefix(v, t)
	case "ends-with":
		ok = strings.HasSuffix(v, t)
	}
	if tm.Neg {
		ok = !ok
	}
	return fromBool(ok)
}

func evalPFInstance(pf PF, value string) Set {
	if len(pf.TMs) == 0 {
		return T // present, nothing else asked (the test is irrelevant)
	}
	l := make([]Set, len(pf.TMs))
	for i, tm := range pf.TMs {
		l[i] = evalTM(tm, value)
	}
	return combine(pf.Test, l, false)
}

func evalPF(pf PF, c Card) Set {
	vals := c.values(pf.Name)
	if len(vals) == 0 {
		return fromBool(pf.IND)
	}
	if pf.IND {
		return F
	}
	// several instances: two readings are tolerated and nothing else - "the first instance decides" (the library)
	// and "some instance satisfies the filter" (RFC 6352 section 10.5.1).  Picking another single instance - the
	// last, the preferred one - is neither (tightened after seeded change C07-s7; the union of all per-instance
	// verdicts used to be accepted).
	r := evalPFInstance(pf, vals[0])
	some := F
	for _, v := range vals {
		x := evalPFInstance(pf, v)
		if x.Has(T) {
			some = T
		}
		r |= x & Err
	}
	r |= some
	if len(pf.Params) > 0 {
		// parameter filters are outside the statement: don't care
		r |= T | F
	}
	return r
}

func hasInvalidEnum(q Q) bool {
	if !validTest(q.Test) {
		return true
	}
	for _, pf := range q.PFs {
		if !validTest(pf.Test) {
			return true
		}
		for _, tm := range pf.TMs {
			if !validType(tm.Type) {
				return true
			}
		}
		for _, p := range pf.Params {
			if p.TM != nil && !validType(p.TM.Type) {
				return true
			}
		}
	}
	return false
}

// RefMatch returns the set of outcomes the statement permits for Match.
func RefMatch(q Q, c Card) Set {
	if q.Nil {
		return T
	}
	l := make([]Set, len(q.PFs))
	for i, pf := range q.PFs {
		l[i] = evalPF(pf, c)
	}
	r := combine(q.Test, l, true)
	if hasInvalidEnum(q) {
		r |= Err // an implementation may validate the whole query eagerly
	}
	return r
}

// RefFilter returns (indices of selected cards, wantErr, decided).  decided is
// false when some card's verdict is not a singleton (then nothing is asserted).
func RefFilter(q Q, cards []Card) (sel []int, wantErr bool, decided bool) {
	if q.Nil {
		for i := range cards {
			sel = append(sel, i)
		}
		return sel, false, true
	}
	for i, c := range cards {
		if q.Limit > 0 && len(sel) >= q.Limit {
			break
		}
		r := RefMatch(q, c)
		if !r.Single() {
			return nil, false, false
		}
		switch r {
		case Err:
			return nil, true, true
		case T:
			sel = append(sel, i)
		}
	}
	return sel, false, true
}

// Project returns the fields the statement keeps for a selected card.  vCard property names are case-insensitive
// (RFC 6350 section 3.3) while go-vcard keys a card by the upper-case spelling, and the statement does not say which
// of the two a requested name that is not upper case selects: fold chooses the reading (false: the name as given,
// true: its upper-case spelling); callers accept either result.
func Project(q Q, c Card, fold bool) []Fld {
	if q.Nil || q.AllProp || len(q.Props) == 0 {
		return c.Fields
	}
	want := map[string]bool{"VERSION": true}
	for _, p := range q.Props {
		if fold {
			p = strings.ToUpper(p)
		}
		want[p] = true
	}
	var l []Fld
	for _, f := range c.Fields {
		if want[f.Name] {
			l = append(l, f)
		}
	}
	return l
}
