package c07

import (
	"encoding/json"
	"fmt"
	"reflect"
	"sort"
	"strings"
	"testing"
	"time"

	"github.com/emersion/go-vcard"
	"github.com/emersion/go-webdav/carddav"
	"github.com/emersion/go-webdav/verifharness/vev"
	"pgregory.net/rapid"
)

var rec = vev.For("C07")

func TestMain(m *testing.M) {
	rec.SetRule("(vCard list, query) pairs: complete products of outer test x inner test x match type x negate x is-not-defined x presence x texts on a small alphabet (one filter with 0-2 text matches; two filters with 0-1), limits -1..len+1 with matches at start/middle/end, projections over all subsets of a 4-property card, plus rapid-generated larger cards/queries; non-trivial = a text match is evaluated against a present property, or the limit cuts the result, or a projection removes a property; distinct by canonical JSON of the case")
	rec.Assume("property names are upper case in cards and filters (go-vcard keys); requested names of a projection also come in lower and mixed case, where either reading of the name is accepted", "cards are non-empty (VERSION and FN present) when a projection is requested", "verdicts that depend on parameter filters or on which instance of a repeated property is examined are don't-care (counted as either)")
	vev.Main(m)
}

type Case struct {
	Mode  string `json:"mode"` // match | filter
	Q     Q      `json:"q"`
	Cards []Card `json:"cards"`
}

func toQuery(q Q) *carddav.AddressBookQuery {
	if q.Nil {
		return nil
	}
	out := &carddav.AddressBookQuery{FilterTest: carddav.FilterTest(q.Test), Limit: q.Limit}
	out.DataRequest.AllProp = q.AllProp
	out.DataRequest.Props = append([]string(nil), q.Props...)
	for _, pf := range q.PFs {
		o := carddav.PropFilter{Name: pf.Name, Test: carddav.FilterTest(pf.Test), IsNotDefined: pf.IND}
		for _, tm := range pf.TMs {
			o.TextMatches = append(o.TextMatches, carddav.TextMatch{Text: tm.Text, NegateCondition: tm.Neg, MatchType: carddav.MatchType(tm.Type)})
		}
		for _, p := range pf.Params {
			op := carddav.ParamFilter{Name: p.Name, IsNotDefined: p.IND}
			if p.TM != nil {
				op.TextMatch = &carddav.TextMatch{Text: p.TM.Text, NegateCondition: p.TM.Neg, MatchType: carddav.MatchType(p.TM.Type)}
			}
			o.Params = append(o.Params, op)
		}
		out.PropFilters = append(out.PropFilters, o)
	}
	return out
}

var baseTime = time.Date(2020, 1, 2, 3, 4, 5, 0, time.UTC)

func toObject(c Card, i int) carddav.AddressObject {
	card := vcard.Card{}
	for k, f := range c.Fields {
		fld := &vcard.Field{Value: f.Value}
		for _, pi := range c.Pref {
			if pi == k {
				fld.Params = vcard.Params{"PREF": {"1"}}
			}
		}
		card.Add(f.Name, fld)
	}
	return carddav.AddressObject{Path: c.Path, ETag: c.ETag, ModTime: baseTime.Add(time.Duration(i) * time.Hour), ContentLength: int64(10 + i), Card: card}
}

func flat(card vcard.Card) []Fld {
	var l []Fld
	for k, fs := range card {
		for _, f := range fs {
			if f == nil {
				l = append(l, Fld{Name: k, Value: "<nil>"})
				continue
			}
			l = append(l, Fld{Name: k, Value: f.Value})
		}
	}
	sort.SliceStable(l, func(i, j int) bool { return l[i].Name < l[j].Name })
	return l
}

func sorted(l []Fld) []Fld {
	l = append([]Fld(nil), l...)
	sort.SliceStable(l, func(i, j int) bool { return l[i].Name < l[j].Name })
	return l
}

func queryClass(q Q) string {
	if q.Nil {
		return "nil"
	}
	if hasInvalidEnum(q) {
		return "invalid-enum"
	}
	return "valid"
}

func evaluate(c Case) (o vev.Outcome) {
	defer func() {
		if p := recover(); p != nil {
			o = vev.Outcome{Sig: vev.Sig("panic", c.Mode), Msg: fmt.Sprintf("panic: %v", p)}
		}
	}()
	q := toQuery(c.Q)
	qCopy := toQuery(c.Q)
	objs := make([]carddav.AddressObject, len(c.Cards))
	objsCopy := make([]carddav.AddressObject, len(c.Cards))
	for i, cd := range c.Cards {
		objs[i] = toObject(cd, i)
		objsCopy[i] = toObject(cd, i)
	}
	unchanged := func() vev.Outcome {
		if !reflect.DeepEqual(q, qCopy) {
			return vev.Outcome{Sig: vev.Sig("query-modified", c.Mode), Msg: fmt.Sprintf("query modified by the call: %+v vs %+v", q, qCopy)}
		}
		if !reflect.DeepEqual(objs, objsCopy) {
			return vev.Outcome{Sig: vev.Sig("objects-modified", c.Mode), Msg: "input objects modified by the call"}
		}
		return vev.Outcome{}
	}
	switch c.Mode {
	case "match":
		want := RefMatch(c.Q, c.Cards[0])
		got, err := carddav.Match(q, &objs[0])
		var g Set
		switch {
		case err != nil:
			g = Err
		case got:
			g = T
		default:
			g = F
		}
		if err != nil && got {
			return vev.Outcome{Sig: vev.Sig("true-with-error"), Msg: "Match returned true together with an error"}
		}
		if !want.Has(g) {
			return vev.Outcome{Sig: vev.Sig("match", queryClass(c.Q), "got="+g.String(), "want="+want.String()), Msg: fmt.Sprintf("Match(%s) = %s (err %v), permitted %s", mustJSON(c), g, err, want)}
		}
		return unchanged()
	case "filter":
		sel, wantErr, decided := RefFilter(c.Q, c.Cards)
		out, err := carddav.Filter(q, objs)
		if !decided {
			return unchanged()
		}
		if wantErr {
			if err == nil {
				return vev.Outcome{Sig: vev.Sig("filter", "missing-error"), Msg: fmt.Sprintf("Filter(%s) returned no error for an invalid enumeration", mustJSON(c))}
			}
			return unchanged()
		}
		if err != nil {
			return vev.Outcome{Sig: vev.Sig("filter", "unexpected-error"), Msg: fmt.Sprintf("Filter(%s) returned error %v", mustJSON(c), err)}
		}
		if len(out) != len(sel) {
			return vev.Outcome{Sig: vev.Sig("filter", "selection", cmp(len(out), len(sel))), Msg: fmt.Sprintf("Filter(%s) returned %d objects %v, want the %d at indices %v", mustJSON(c), len(out), paths(out), len(sel), sel)}
		}
		for k, idx := range sel {
			in := objsCopy[idx]
			if out[k].Path != in.Path {
				return vev.Outcome{Sig: vev.Sig("filter", "order-or-identity"), Msg: fmt.Sprintf("Filter(%s): result %d is %q, want %q (indices %v)", mustJSON(c), k, out[k].Path, in.Path, sel)}
			}
			if out[k].ETag != in.ETag || !out[k].ModTime.Equal(in.ModTime) {
				return vev.Outcome{Sig: vev.Sig("filter", "metadata"), Msg: fmt.Sprintf("Filter(%s): result %d lost tag/date: %q %v vs %q %v", mustJSON(c), k, out[k].ETag, out[k].ModTime, in.ETag, in.ModTime)}
			}
			wantF := sorted(Project(c.Q, c.Cards[idx], false))
			gotF := flat(out[k].Card)
			if wantU := sorted(Project(c.Q, c.Cards[idx], true)); !reflect.DeepEqual(wantF, wantU) {
				rec.Count("projection:name-not-upper-case(either reading)", 1)
				if reflect.DeepEqual(wantU, gotF) {
					wantF = wantU
				}
			}
			if !reflect.DeepEqual(wantF, gotF) && !(len(wantF) == 0 && len(gotF) == 0) {
				return vev.Outcome{Sig: vev.Sig("filter", "projection"), Msg: fmt.Sprintf("Filter(%s): result %d has fields %v, want %v", mustJSON(c), k, gotF, wantF)}
			}
		}
		return unchanged()
	}
	return vev.Outcome{Sig: "bad-case", Msg: "unknown mode " + c.Mode}
}

func cmp(a, b int) string {
	if a < b {
		return "too-few"
	}
	return "too-many"
}

func paths(l []carddav.AddressObject) []string {
	var p []string
	for _, o := range l {
		p = append(p, o.Path)
	}
	return p
}

func mustJSON(v any) string {
	b, _ := json.Marshal(v)
	return string(b)
}

func nontrivial(c Case) bool {
	if c.Q.Nil {
		return false
	}
	for _, cd := range c.Cards {
		for _, pf := range c.Q.PFs {
			if len(pf.TMs) > 0 && !pf.IND && len(cd.values(pf.Name)) > 0 {
				return true
			}
		}
	}
	if c.Mode == "filter" {
		sel, _, decided := RefFilter(c.Q, c.Cards)
		if decided {
			full, _, _ := RefFilter(Q{Test: c.Q.Test, PFs: c.Q.PFs}, c.Cards)
			if len(full) > len(sel) {
				return true
			}
			for _, i := range sel {
				if len(Project(c.Q, c.Cards[i], false)) < len(c.Cards[i].Fields) {
					return true
				}
			}
		}
	}
	return false
}

func run(t *testing.T, rt *rapid.T, c Case, class string) {
	key := mustJSON(c)
	rec.Case(class, nontrivial(c), key, func() any { return c })
	if c.Mode == "match" {
		if r := RefMatch(c.Q, c.Cards[0]); !r.Single() {
			rec.Count("either-or-error-tolerated", 1)
		}
	}
	o := evaluate(c)
	if o.OK() || rec.Known(o.Sig) {
		return
	}
	if rt != nil {
		rec.Fail(rt, o.Sig, "c07", c, "%s", o.Msg)
	} else {
		rec.Violation(t, o.Sig, "c07", c, "%s", o.Msg)
	}
}

func TestReplay(t *testing.T) {
	vev.RunReplays(t, rec, func(kind string, raw json.RawMessage) (vev.Outcome, error) {
		var c Case
		if err := json.Unmarshal(raw, &c); err != nil {
			return vev.Outcome{}, err
		}
		if c.Mode == "match" && len(c.Cards) == 0 {
			return vev.Outcome{}, fmt.Errorf("match case without card")
		}
		return evaluate(c), nil
	})
}

var (
	tests = []string{"", "anyof", "allof", "oneof"}
	types = []string{"", "equals", "contains", "starts-with", "ends-with", "regex"}
)

func card1(vals ...string) Card {
	c := Card{Path: "/c", ETag: "e", Fields: []Fld{{"VERSION", "4.0"}, {"FN", "x"}}}
	for _, v := range vals {
		c.Fields = append(c.Fields, Fld{Name: "EMAIL", Value: v})
	}
	return c
}

// Engine E1: one property filter, everything about it enumerated.
func TestEnumerateOneFilter(t *testing.T) {
	if vev.ReplayFile() != "" {
		t.Skip()
	}
	texts := []string{"", "a", "ab"}
	var tms []TM
	for _, ty := range types {
		for _, neg := range []bool{false, true} {
			for _, tx := range texts {
				tms = append(tms, TM{Text: tx, Neg: neg, Type: ty})
			}
		}
	}
	var lists [][]TM
	lists = append(lists, nil)
	for _, a := range tms {
		lists = append(lists, []TM{a})
	}
	for _, a := range tms {
		for _, b := range tms {
			lists = append(lists, []TM{a, b})
		}
	}
	cards := []Card{card1(), card1("a"), card1("ab"), card1("ba")}
	idx := 0
	for _, outer := range tests {
		for _, inner := range tests {
			for _, ind := range []bool{false, true} {
				for _, l := range lists {
					for ci, cd := range cards {
						idx++
						if !vev.MyShare(idx) {
							continue
						}
						c := Case{Mode: "match", Q: Q{Test: outer, PFs: []PF{{Name: "EMAIL", Test: inner, IND: ind, TMs: l}}}, Cards: []Card{cd}}
						run(t, nil, c, fmt.Sprintf("E1/card%d", ci))
					}
				}
			}
		}
	}
	rec.ExhaustiveSub("one prop-filter: outer test(4) x inner test(4) x is-not-defined(2) x text-match lists of length 0-2 over match type(6) x negate(2) x text{'',a,ab} x property {absent,a,ab,ba}")
}

// Engine E1b: values and match texts that look like escapes of the vCard, XML and URL notations (after C07-s16).  The
// property value is compared as it is: the decoder has already undone the notation, nothing is undone twice.
var metaTexts = []string{`\`, `\\`, `,`, `\,`, `;`, `\;`, "\n", `\n`, `\N`, `n`, `a\,b`, `a,b`, `a\\b`, `a\b`, `a;b`, `a\;b`, "a\nb", `a\nb`, `"`, `:`, `^n`, `^'`, `a^nb`, `%41`, `A`, `&amp;`, `&`, `&lt;`, `<`}

func TestMetaCharacters(t *testing.T) {
	if vev.ReplayFile() != "" {
		t.Skip()
	}
	idx := 0
	for _, val := range metaTexts {
		for _, tx := range metaTexts {
			for _, ty := range types[:5] {
				for _, neg := range []bool{false, true} {
					idx++
					if !vev.MyShare(idx) {
						continue
					}
					c := Case{Mode: "match", Q: Q{PFs: []PF{{Name: "EMAIL", TMs: []TM{{Text: tx, Neg: neg, Type: ty}}}}}, Cards: []Card{card1(val)}}
					run(t, nil, c, "E1b/meta")
				}
			}
		}
	}
	rec.ExhaustiveSub(fmt.Sprintf("one text-match: %d escape-looking values x the same %d texts x match type(5) x negate(2)", len(metaTexts), len(metaTexts)))
}

// Engine E2: two property filters, restricted text matches, all outer tests.
func TestEnumerateTwoFilters(t *testing.T) {
	if vev.ReplayFile() != "" {
		t.Skip()
	}
	opts := [][]TM{nil, {{Text: "a"}}, {{Text: "ab", Neg: true, Type: "equals"}}, {{Text: "a", Type: "regex"}}, {{Text: "b", Type: "ends-with"}, {Text: "a", Type: "starts-with"}}}
	var pfs []PF
	for _, name := range []string{"EMAIL", "TEL"} {
		for _, ind := range []bool{false, true} {
			for _, inner := range []string{"", "allof", "oneof"} {
				for _, l := range opts {
					pfs = append(pfs, PF{Name: name, Test: inner, IND: ind, TMs: l})
				}
			}
		}
	}
	cards := []Card{card1(), card1("a"), card1("ab"), card1("ba", "ab")}
	idx := 0
	for _, outer := range tests {
		for _, p1 := range pfs {
			for _, p2 := range pfs {
				for ci, cd := range cards {
					idx++
					if !vev.MyShare(idx) {
						continue
					}
					c := Case{Mode: "match", Q: Q{Test: outer, PFs: []PF{p1, p2}}, Cards: []Card{cd}}
					run(t, nil, c, fmt.Sprintf("E2/card%d", ci))
				}
			}
		}
		// zero filters
		c := Case{Mode: "match", Q: Q{Test: outer}, Cards: []Card{cards[1]}}
		run(t, nil, c, "E2/zero-filters")
	}
	rec.ExhaustiveSub("two prop-filters over {EMAIL,TEL} x is-not-defined x inner test{'',allof,invalid} x 5 text-match lists, all outer tests, 4 cards (one with a repeated property)")
}

// Engine E3: limits and projections.
func TestEnumerateLimitProjection(t *testing.T) {
	if vev.ReplayFile() != "" {
		t.Skip()
	}
	// lists of 0..5 cards where bit i of mask says whether card i matches
	idx := 0
	for n := 0; n <= 5; n++ {
		for mask := 0; mask < 1<<n; mask++ {
			var cards []Card
			for i := 0; i < n; i++ {
				v := "zz"
				if mask&(1<<i) != 0 {
					v = "hit"
				}
				cards = append(cards, Card{Path: fmt.Sprintf("/c/%d", i), ETag: fmt.Sprintf("e%d", i), Fields: []Fld{{"VERSION", "3.0"}, {"FN", "n"}, {"EMAIL", v}, {"TEL", "1"}}})
			}
			for limit := -1; limit <= n+1; limit++ {
				for _, test := range []string{"", "allof"} {
					idx++
					if !vev.MyShare(idx) {
						continue
					}
					c := Case{Mode: "filter", Q: Q{Test: test, Limit: limit, PFs: []PF{{Name: "EMAIL", TMs: []TM{{Text: "hit", Type: "equals"}}}}}, Cards: cards}
					run(t, nil, c, "E3/limit")
				}
			}
		}
	}
	// projections: every subset of {FN, EMAIL, TEL, NOTE(absent), VERSION} x AllProp, on cards with/without VERSION
	names := []string{"FN", "EMAIL", "TEL", "NOTE", "VERSION"}
	for mask := 0; mask < 1<<len(names); mask++ {
		var props []string
		for i, n := range names {
			if mask&(1<<i) != 0 {
				props = append(props, n)
			}
		}
		for _, all := range []bool{false, true} {
			for _, withVersion := range []bool{true, false} {
				for _, nilq := range []bool{false, true} {
					idx++
					if !vev.MyShare(idx) {
						continue
					}
					fields := []Fld{{"FN", "n"}, {"EMAIL", "a@b"}, {"EMAIL", "c@d"}, {"TEL", "1"}}
					if withVersion {
						fields = append([]Fld{{"VERSION", "4.0"}}, fields...)
					}
					cards := []Card{{Path: "/c/0", ETag: "e0", Fields: fields}, {Path: "/c/1", ETag: "e1", Fields: []Fld{{"VERSION", "3.0"}, {"FN", "other"}}}}
					c := Case{Mode: "filter", Q: Q{Nil: nilq, Test: "anyof", Props: props, AllProp: all, PFs: []PF{{Name: "FN"}}}, Cards: cards}
					run(t, nil, c, "E3/projection")
					// the same request with the names spelled in lower and in mixed case (after C07-s12): which
					// properties such a name selects is open, that the caller's query stays as it was is not
					for _, sp := range []func(string) string{strings.ToLower, func(s string) string { return s[:1] + strings.ToLower(s[1:]) }} {
						var alt []string
						for _, n := range props {
							alt = append(alt, sp(n))
						}
						c.Q.Props = alt
						run(t, nil, c, "E3/projection-case")
					}
				}
			}
		}
	}
	rec.ExhaustiveSub("limits -1..n+1 over every match pattern of lists of 0-5 cards; projections over every subset of 5 property names x all-properties x VERSION present/absent x nil query")
}

// Engine E3c: a repeated property whose later instance is marked as the preferred one (PREF=1, TYPE=pref): the
// statement knows no preference; the reference accepts "first instance" and "some instance" and nothing else.
func TestPreferredInstances(t *testing.T) {
	if vev.ReplayFile() != "" {
		t.Skip()
	}
	k := 0
	for _, vals := range [][2]string{{"a", "b"}, {"b", "a"}, {"ab", "a"}, {"a", "ab"}} {
		for _, pref := range [][]int{nil, {2}, {3}} {
			card := Card{Path: "/c/p", ETag: "e", Fields: []Fld{{"VERSION", "4.0"}, {"FN", "n"}, {"EMAIL", vals[0]}, {"EMAIL", vals[1]}}, Pref: pref}
			for _, ty := range []string{"equals", "contains", "starts-with", "ends-with"} {
				for _, neg := range []bool{false, true} {
					for _, tx := range []string{"a", "b", "ab"} {
						k++
						if !vev.MyShare(k) {
							continue
						}
						c := Case{Mode: "match", Q: Q{PFs: []PF{{Name: "EMAIL", TMs: []TM{{Text: tx, Neg: neg, Type: ty}}}}}, Cards: []Card{card}}
						run(t, nil, c, "E3c/preferred")
					}
				}
			}
		}
	}
}

// Engine E3b: lists far beyond any plausible preallocation or batch size.
func TestLargeLists(t *testing.T) {
	if vev.ReplayFile() != "" {
		t.Skip()
	}
	for _, n := range []int{255, 256, 257, 600} {
		var cards []Card
		for i := 0; i < n; i++ {
			v := "match"
			if i%3 == 2 {
				v = "other"
			}
			cards = append(cards, Card{Path: fmt.Sprintf("/c/%d", i), ETag: fmt.Sprintf("e%d", i), Fields: []Fld{{"VERSION", "4.0"}, {"FN", "n"}, {"EMAIL", v}}})
		}
		for _, lim := range []int{-1, 0, 1, 255, 256, 257, 300, n, n + 1, 1 << 20} {
			c := Case{Mode: "filter", Q: Q{Limit: lim, PFs: []PF{{Name: "EMAIL", TMs: []TM{{Text: "match", Type: "equals"}}}}}, Cards: cards}
			run(t, nil, c, "E3b/large")
		}
	}
}

// Engine E4: random larger cards and queries.
func TestRandom(t *testing.T) {
	if vev.ReplayFile() != "" {
		t.Skip()
	}
	names := []string{"EMAIL", "TEL", "FN", "NOTE", "X-A"}
	values := rapid.OneOf(rapid.SampledFrom([]string{"", "a", "ab", "ba", "abc", "A", "a b", "é", "ab\nc"}), rapid.StringMatching(`[abAB ]{0,5}`), rapid.SampledFrom(metaTexts), rapid.StringMatching(`[ab\\,;n]{0,4}`))
	// invalid enumeration values are near-misses of the valid ones (case, blanks,
	// separators), since "guessing" is most plausible for those
	nearMiss := func(valid []string) *rapid.Generator[string] {
		return rapid.Custom(func(rt *rapid.T) string {
			v := rapid.SampledFrom(valid).Draw(rt, "base")
			switch rapid.IntRange(0, 7).Draw(rt, "how") {
			case 0:
				return strings.ToUpper(v)
			case 1:
				return strings.ToUpper(v[:1]) + v[1:]
			case 2:
				return v + " "
			case 3:
				return " " + v
			case 4:
				return strings.ReplaceAll(v, "-", "_")
			case 5:
				return strings.ReplaceAll(v, "-", "")
			case 6:
				return v[:len(v)-1]
			default:
				return v + "s"
			}
		})
	}
	testGen := rapid.OneOf(rapid.SampledFrom([]string{"", "anyof", "allof"}), rapid.SampledFrom([]string{"", "anyof", "allof"}), nearMiss([]string{"anyof", "allof"}), rapid.SampledFrom([]string{"oneof", "noneof", "and", "or"}))
	typeGen := rapid.OneOf(rapid.SampledFrom([]string{"", "equals", "contains", "starts-with", "ends-with"}), rapid.SampledFrom([]string{"", "equals", "contains", "starts-with", "ends-with"}), nearMiss([]string{"equals", "contains", "starts-with", "ends-with"}), rapid.SampledFrom([]string{"regex", "is"}))
	tmGen := rapid.Custom(func(rt *rapid.T) TM {
		return TM{Text: values.Draw(rt, "text"), Neg: rapid.Bool().Draw(rt, "neg"), Type: typeGen.Draw(rt, "type")}
	})
	pfGen := rapid.Custom(func(rt *rapid.T) PF {
		pf := PF{Name: rapid.SampledFrom(names).Draw(rt, "name"), Test: testGen.Draw(rt, "test")}
		if rapid.IntRange(0, 4).Draw(rt, "ind") == 0 {
			pf.IND = true
			return pf
		}
		pf.TMs = rapid.SliceOfN(tmGen, 0, 3).Draw(rt, "tms")
		if rapid.IntRange(0, 14).Draw(rt, "params") == 0 {
			pf.Params = []Param{{Name: "TYPE", TM: &TM{Text: "home"}}}
		}
		return pf
	})
	cardGen := func(i int) *rapid.Generator[Card] {
		return rapid.Custom(func(rt *rapid.T) Card {
			c := Card{Path: fmt.Sprintf("/ab/%d.vcf", i), ETag: fmt.Sprintf("t%d", i), Fields: []Fld{{"VERSION", "4.0"}, {"FN", values.Draw(rt, "fn")}}}
			n := rapid.IntRange(0, 4).Draw(rt, "nf")
			for k := 0; k < n; k++ {
				c.Fields = append(c.Fields, Fld{Name: rapid.SampledFrom(names[:2]).Draw(rt, "fname"), Value: values.Draw(rt, "fval")})
			}
			if len(c.Fields) > 3 && rapid.IntRange(0, 3).Draw(rt, "pref?") == 0 {
				// a later instance marked as the preferred one
				c.Pref = []int{rapid.IntRange(3, len(c.Fields)-1).Draw(rt, "pref")}
			}
			if rapid.Bool().Draw(rt, "xa") {
				c.Fields = append(c.Fields, Fld{Name: "X-A", Value: values.Draw(rt, "xav")})
			}
			return c
		})
	}
	vev.Rapid(t, rec, 0, vev.N(6000, 600000), func(rt *rapid.T) {
		var c Case
		c.Q.Test = testGen.Draw(rt, "qtest")
		c.Q.PFs = rapid.SliceOfN(pfGen, 0, 3).Draw(rt, "pfs")
		if rapid.Bool().Draw(rt, "isFilter") {
			c.Mode = "filter"
			n := rapid.IntRange(0, 6).Draw(rt, "ncards")
			for i := 0; i < n; i++ {
				c.Cards = append(c.Cards, cardGen(i).Draw(rt, "card"))
			}
			c.Q.Limit = rapid.IntRange(-1, n+1).Draw(rt, "limit")
			if rapid.Bool().Draw(rt, "project") {
				c.Q.Props = rapid.SliceOfN(rapid.SampledFrom(append([]string{"VERSION", "UID", "email", "Fn", "tEL", "version", "x-a"}, names...)), 0, 4).Draw(rt, "props")
				c.Q.AllProp = rapid.IntRange(0, 3).Draw(rt, "allprop") == 0
			}
			if rapid.IntRange(0, 19).Draw(rt, "nilq") == 0 {
				c.Q = Q{Nil: true}
			}
		} else {
			c.Mode = "match"
			c.Cards = []Card{cardGen(0).Draw(rt, "card")}
		}
		run(t, rt, c, "E4/"+c.Mode+"/"+queryClass(c.Q))
	})
}

var _ = strings.Contains
