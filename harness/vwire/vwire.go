// Package vwire is a wire-faithful in-process HTTP adapter: the client's
// request is serialised with Request.Write, parsed by net/http's server-side
// parser, served by the handler on a recorder, and the response is serialised
// and parsed back with http.ReadResponse.  Wrapped in a real http.Client so
// redirects are followed by the real client logic.
package vwire

import (
	"bufio"
	"bytes"
	"fmt"
	"io"
	"net/http"
	"net/http/httptest"
	"sync"
)

type Exchange struct {
	Method   string
	Target   string // request-target as on the wire
	Path     string // decoded path the handler saw
	Header   http.Header
	Body     []byte
	Status   int
	RespHdr  http.Header
	RespBody []byte
}

type RT struct {
	H    http.Handler
	mu   sync.Mutex
	Log  []Exchange
	Keep bool // record exchanges
	// Tamper, when set, may rewrite the parsed server-side request before it is served.
	Tamper func(*http.Request)
}

func (rt *RT) RoundTrip(req *http.Request) (*http.Response, error) {
	var wire bytes.Buffer
	if err := req.Write(&wire); err != nil {
		return nil, fmt.Errorf("vwire: cannot serialise request: %w", err)
	}
	sreq, err := http.ReadRequest(bufio.NewReader(&wire))
	if err != nil {
		return nil, fmt.Errorf("vwire: server-side parser refused the request: %w", err)
	}
	sreq = sreq.WithContext(req.Context())
	body, _ := io.ReadAll(sreq.Body)
	sreq.Body = io.NopCloser(bytes.NewReader(body))
	sreq.RemoteAddr = "192.0.2.1:1234"
	if rt.Tamper != nil {
		rt.Tamper(sreq)
	}
	rec := httptest.NewRecorder()
	var pan any
	func() {
		defer func() { pan = recover() }()
		rt.H.ServeHTTP(rec, sreq)
	}()
	if pan != nil {
		return nil, fmt.Errorf("vwire: handler panicked: %v", pan)
	}
	res := rec.Result()
	rb, _ := io.ReadAll(res.Body)
	if rt.Keep {
		rt.mu.Lock()
		rt.Log = append(rt.Log, Exchange{Method: sreq.Method, Target: sreq.RequestURI, Path: sreq.URL.Path, Header: sreq.Header.Clone(), Body: body,
			Status: res.StatusCode, RespHdr: res.Header.Clone(), RespBody: rb})
		rt.mu.Unlock()
	}
	// serialise the response and parse it back
	var rw bytes.Buffer
	fmt.Fprintf(&rw, "HTTP/1.1 %03d %s\r\n", res.StatusCode, http.StatusText(res.StatusCode))
	hdr := res.Header.Clone()
	hdr.Del("Content-Length")
	hdr.Write(&rw)
	if req.Method == "HEAD" || res.StatusCode == 204 || res.StatusCode == 304 || res.StatusCode/100 == 1 {
		if cl := res.Header.Get("Content-Length"); cl != "" && req.Method == "HEAD" {
			fmt.Fprintf(&rw, "Content-Length: %s\r\n", cl)
		}
		rw.WriteString("\r\n")
	} else {
		fmt.Fprintf(&rw, "Content-Length: %d\r\n\r\n", len(rb))
		rw.Write(rb)
	}
	return http.ReadResponse(bufio.NewReader(&rw), req)
}

// Client returns a real http.Client on top of the adapter.
func Client(h http.Handler) (*http.Client, *RT) {
	rt := &RT{H: h, Keep: true}
	return &http.Client{Transport: rt}, rt
}

func (rt *RT) Exchanges() []Exchange {
	rt.mu.Lock()
	defer rt.mu.Unlock()
	return append([]Exchange(nil), rt.Log...)
}

// Capture is an HTTPClient double that records the request and answers with a
// canned response (for client→wire checks).
type Capture struct {
	mu     sync.Mutex
	Reqs   []Exchange
	Status int
	Header http.Header
	Body   string
}

func (c *Capture) Do(req *http.Request) (*http.Response, error) {
	var body []byte
	if req.Body != nil {
		body, _ = io.ReadAll(req.Body)
		req.Body.Close()
	}
	c.mu.Lock()
	c.Reqs = append(c.Reqs, Exchange{Method: req.Method, Target: req.URL.RequestURI(), Path: req.URL.Path, Header: req.Header.Clone(), Body: body})
	c.mu.Unlock()
	status := c.Status
	if status == 0 {
		status = 207
	}
	h := c.Header
	if h == nil {
		h = http.Header{"Content-Type": {"application/xml; charset=utf-8"}}
	}
	b := c.Body
	if b == "" && status == 207 {
		b = `<?xml version="1.0" encoding="utf-8"?><D:multistatus xmlns:D="DAV:"></D:multistatus>`
	}
	return &http.Response{StatusCode: status, Status: fmt.Sprintf("%d %s", status, http.StatusText(status)), Proto: "HTTP/1.1", ProtoMajor: 1, ProtoMinor: 1,
		Header: h.Clone(), Body: io.NopCloser(bytes.NewReader([]byte(b))), ContentLength: int64(len(b)), Request: req}, nil
}

func (c *Capture) Last() (Exchange, bool) {
	c.mu.Lock()
	defer c.mu.Unlock()
	if len(c.Reqs) == 0 {
		return Exchange{}, false
	}
	return c.Reqs[len(c.Reqs)-1], true
}
