// C15 — raw XML values preserve the element tree they captured.
package c15

import (
	"bytes"
	"encoding/json"
	"encoding/xml"
	"fmt"
	"io"
	"reflect"
	"strings"
	"testing"

	"github.com/emersion/go-webdav/internal"
	"github.com/emersion/go-webdav/verifharness/vev"
	"github.com/emersion/go-webdav/verifharness/vx"
	"pgregory.net/rapid"
)

var rec = vev.For("C15")

func TestMain(m *testing.M) {
	rec.SetRule("well-formed documents: a wrapper of 0-2 levels (own default and prefixed bindings) around target elements generated lexically (depth <= 5 and, in a tenth of the documents, chains of depth 9-41; fan-out mostly <= 4, occasionally up to 16; default and prefixed namespaces, redeclaration, undeclaration xmlns='', prefixed/unprefixed attributes, xml:lang, mixed content, CDATA, entities and numeric references incl. &#xD;, comments, PIs). O1 capture with xml.Unmarshal into RawXMLValue, xml.Marshal, re-read with encoding/xml and compare namespace-expanded trees with the harness' strict reading of the target in its original context; O2 same through TokenReader->EncodeToken; O3 token stream finite, balanced, then io.EOF forever; O4 typed Decode via Prop.Get(..).Decode equals direct decoding. non-trivial = the target uses a binding made outside itself, or redeclares/undeclares one, or has a prefixed attribute; distinct by document")
	rec.Assume("in the typed-decoding part, prefix names never coincide with an attribute local name of the decoded struct (encoding/xml matches unqualified attr fields by local name only, namespace declarations included - a stdlib quirk that direct decoding has and a raw value need not reproduce)", "re-reading is done with encoding/xml and namespace declarations are ignored in the comparison, as the statement's observation point says", "namespace names that coincide with an in-scope prefix are generated as a labelled minority")
	vev.Main(m)
}

type Case struct {
	Doc   string `json:"doc"`
	Depth int    `json:"wrapper_depth"` // 0: the root is the target; 1, 2: targets are children at that depth
	Mode  string `json:"mode"`          // tree | typed
	// Reuse (wrapper depth 0 only): the value that captures the document already holds an earlier capture of another
	// document; it must hold the tree it captured last (after C15-s16)
	Reuse bool `json:"reuse,omitempty"`
}

const warmDoc = `<w:warm xmlns:w="urn:warm" w:k="v"><w:kid/>earlier<other xmlns="urn:warm2"/></w:warm>`

// ---------------------------------------------------------------------------
// lexical generator

type gen struct {
	rt        *rapid.T
	features  map[string]bool
	bareNames bool
}

var uris = []string{"DAV:", "urn:x", "urn:y", "http://example.org/ns", "urn:ietf:params:xml:ns:caldav"}
var prefixes = []string{"a", "b", "D", "x", "C"}
var locals = []string{"e", "prop", "item", "href", "n-1", "_u", "É"}

func (g *gen) pick(label string, n int) int { return rapid.IntRange(0, n-1).Draw(g.rt, label) }

func (g *gen) text() string {
	parts := []string{"t", "a b", " ", "\n  ", "&lt;", "&amp;", "&gt;x", "&quot;", "&apos;", "&#65;", "&#xD;", "&#x10FFFF;", "é", "<![CDATA[c<d&e]]>", "<![CDATA[]]>", "]]&gt;", "\t"}
	n := g.pick("ntext", 3) + 1
	var b strings.Builder
	for i := 0; i < n; i++ {
		b.WriteString(parts[g.pick("textpart", len(parts))])
	}
	return b.String()
}

func (g *gen) attrValue() string {
	parts := []string{"v", "a b", "&lt;", "&amp;", "&quot;", "&apos;", "&#65;", "&#9;", "&#10;", "é", "'", "x=y", ""}
	n := g.pick("nval", 3)
	var b strings.Builder
	for i := 0; i < n; i++ {
		b.WriteString(parts[g.pick("valpart", len(parts))])
	}
	return strings.ReplaceAll(b.String(), `"`, "&quot;")
}

// element writes one element; scope maps prefix -> uri ("" = default).
func (g *gen) element(b *strings.Builder, scope map[string]string, depth int, forceName string) {
	inner := map[string]string{}
	for k, v := range scope {
		inner[k] = v
	}
	var decls []string
	nd := g.pick("ndecl", 4)
	if nd > 2 {
		nd = 0
	}
	for i := 0; i < nd; i++ {
		p := ""
		if g.pick("declprefixed", 3) != 0 {
			p = prefixes[g.pick("declprefix", len(prefixes))]
		}
		u := uris[g.pick("decluri", len(uris))]
		if g.bareNames && g.pick("bare", 4) == 0 {
			u = prefixes[g.pick("bareuri", len(prefixes))] // namespace name equal to a prefix word
			g.features["bare-ns-name"] = true
		}
		if p == "" && g.pick("undeclare", 4) == 0 && scope[""] != "" {
			u = ""
			g.features["undeclare"] = true
		}
		dup := false
		for _, d := range decls {
			if strings.HasPrefix(d, declName(p)+"=") {
				dup = true
			}
		}
		if dup {
			continue
		}
		if old, ok := scope[p]; ok && old != u {
			g.features["redeclare"] = true
		}
		inner[p] = u
		decls = append(decls, fmt.Sprintf(`%s="%s"`, declName(p), u))
	}
	// element name
	var inScope []string
	for p := range inner {
		inScope = append(inScope, p)
	}
	sortStrings(inScope)
	name := locals[g.pick("local", len(locals))]
	if forceName != "" {
		name = forceName
	} else if len(inScope) > 0 && g.pick("elprefixed", 2) == 1 {
		p := inScope[g.pick("elprefix", len(inScope))]
		if p != "" {
			name = p + ":" + name
			if _, own := declared(decls, p); !own {
				g.features["outer-binding"] = true
			}
		}
	}
	if !strings.Contains(name, ":") && inner[""] != "" {
		if _, own := declared(decls, ""); !own {
			g.features["outer-binding"] = true
		}
	}
	// attributes
	var attrs []string
	seen := map[string]bool{}
	na := g.pick("nattr", 4)
	for i := 0; i < na; i++ {
		// "xmlns" and "xml" as the local part of a prefixed attribute are ordinary attributes (after C15-s17); without a
		// prefix "xmlns" would be a declaration, so there it is replaced
		local := []string{"a", "b", "id", "name", "lang", "xmlns", "xml"}[g.pick("alocal", 7)]
		space, q := "", local
		prefixed := false
		switch g.pick("akind", 4) {
		case 0:
			if len(inScope) > 0 {
				p := inScope[g.pick("aprefix", len(inScope))]
				if p != "" {
					space, q = inner[p], p+":"+local
					prefixed = true
					g.features["prefixed-attr"] = true
				}
			}
		case 1:
			if g.pick("xmllang", 3) == 0 {
				space, q = "xml", "xml:lang"
			}
		}
		if !prefixed && q != "xml:lang" && (local == "xmlns" || local == "xml") {
			local, q = "a", "a"
		}
		key := space + "\x00" + local
		if q == "xml:lang" {
			key = "xml\x00lang"
		}
		if seen[key] {
			continue
		}
		seen[key] = true
		attrs = append(attrs, fmt.Sprintf(`%s="%s"`, q, g.attrValue()))
	}
	all := append(decls, attrs...)
	if len(all) > 1 && g.pick("shuffle", 2) == 1 {
		all[0], all[len(all)-1] = all[len(all)-1], all[0]
	}
	b.WriteString("<" + name)
	for _, a := range all {
		b.WriteString(" " + a)
	}
	nk := 0
	chain := depth > 5 // deep mode: one child carries the chain on, its siblings stay leaves
	if depth > 0 {
		nk = g.pick("nkids", 5)
		if g.pick("wide", 12) == 0 {
			nk = 5 + g.pick("nkids-wide", 12)
		}
		if chain {
			nk = 1 + g.pick("nkids-chain", 3)
		}
	}
	if nk == 0 && g.pick("selfclose", 2) == 0 {
		b.WriteString("/>")
		return
	}
	b.WriteString(">")
	carried := false
	for i := 0; i < nk; i++ {
		kind := g.pick("kidkind", 8)
		if chain && !carried && (i == nk-1 || kind < 4 && g.pick("carrynow", 2) == 0) {
			kind = 4
		}
		switch kind {
		case 0, 1:
			b.WriteString(g.text())
		case 2:
			b.WriteString("<!--" + []string{"", " c ", "x-y", "a&b<c"}[g.pick("comment", 4)] + "-->")
		case 3:
			b.WriteString("<?" + []string{"pi data", "php echo 1;", "t"}[g.pick("pi", 3)] + "?>")
		default:
			d := depth - 1
			if chain && carried {
				d = 0
			}
			carried = true
			g.element(b, inner, d, "")
		}
	}
	b.WriteString("</" + name + ">")
}

func declares(n *vx.Node, prefix string) bool {
	for _, d := range n.Decls {
		if d.Prefix == prefix {
			return true
		}
	}
	return false
}

func declName(p string) string {
	if p == "" {
		return "xmlns"
	}
	return "xmlns:" + p
}

func declared(decls []string, p string) (string, bool) {
	for _, d := range decls {
		if strings.HasPrefix(d, declName(p)+"=") {
			return d, true
		}
	}
	return "", false
}

func sortStrings(l []string) {
	for i := 1; i < len(l); i++ {
		for j := i; j > 0 && l[j] < l[j-1]; j-- {
			l[j], l[j-1] = l[j-1], l[j]
		}
	}
}

func genDoc(rt *rapid.T, bare bool) (Case, map[string]bool) {
	g := &gen{rt: rt, features: map[string]bool{}, bareNames: bare}
	c := Case{Mode: "tree", Depth: g.pick("wrapdepth", 3)}
	var b strings.Builder
	if g.pick("xmldecl", 3) == 0 {
		b.WriteString(`<?xml version="1.0" encoding="UTF-8"?>` + "\n")
	}
	scope := map[string]string{}
	open := func(level int) {
		name := []string{"w", "D:wrap", "outer"}[g.pick("wname", 3)]
		b.WriteString("<" + name)
		if strings.HasPrefix(name, "D:") || g.pick("wdeclD", 2) == 0 {
			b.WriteString(` xmlns:D="DAV:"`)
			scope["D"] = "DAV:"
		}
		if g.pick("wdefault", 2) == 0 {
			u := uris[g.pick("wdefuri", len(uris))]
			b.WriteString(fmt.Sprintf(` xmlns="%s"`, u))
			scope[""] = u
		}
		if g.pick("wprefix", 2) == 0 {
			p, u := prefixes[g.pick("wp", len(prefixes))], uris[g.pick("wu", len(uris))]
			if p != "D" || scope["D"] == "" {
				b.WriteString(fmt.Sprintf(` xmlns:%s="%s"`, p, u))
				scope[p] = u
			}
		}
		b.WriteString(">")
		closers = append([]string{"</" + name + ">"}, closers...)
	}
	closers = nil
	for l := 0; l < c.Depth; l++ {
		open(l)
	}
	nt := 1
	if c.Depth > 0 {
		nt = g.pick("ntargets", 3) + 1
	}
	for i := 0; i < nt; i++ {
		d := 4
		if g.pick("deep", 10) == 0 {
			d = []int{8, 9, 12, 17, 24, 33, 40}[g.pick("deepdepth", 7)]
			g.features["deep"] = true
		}
		g.element(&b, scope, d, "")
		if c.Depth > 0 && g.pick("between", 3) == 0 {
			b.WriteString("\n ")
		}
	}
	for _, cl := range closers {
		b.WriteString(cl)
	}
	c.Doc = b.String()
	return c, g.features
}

var closers []string

// ---------------------------------------------------------------------------
// oracles

type l1 struct {
	XMLName xml.Name
	Raw     []internal.RawXMLValue `xml:",any"`
}

type l2 struct {
	XMLName xml.Name
	Inner   l1 `xml:",any"`
}

func dev(kind, f string, a ...any) vev.Outcome {
	return vev.Outcome{Sig: vev.Sig(kind), Msg: fmt.Sprintf(f, a...)}
}

// targets returns the strict reading of the target elements in context.
func targets(root *vx.Node, depth int) []*vx.Node {
	switch depth {
	case 0:
		return []*vx.Node{root}
	case 1:
		return root.Elems()
	default:
		kids := root.Elems()
		if len(kids) == 0 {
			return nil
		}
		return kids[0].Elems()
	}
}

func capture(c Case) ([]internal.RawXMLValue, error) {
	switch c.Depth {
	case 0:
		var raw internal.RawXMLValue
		if c.Reuse {
			if err := xml.Unmarshal([]byte(warmDoc), &raw); err != nil {
				return nil, err
			}
			// used once, as a caller would before decoding into it again
			if _, err := xml.Marshal(&raw); err != nil {
				return nil, err
			}
		}
		err := xml.Unmarshal([]byte(c.Doc), &raw)
		return []internal.RawXMLValue{raw}, err
	case 1:
		var w l1
		err := xml.Unmarshal([]byte(c.Doc), &w)
		return w.Raw, err
	default:
		var w l2
		err := xml.Unmarshal([]byte(c.Doc), &w)
		return w.Inner.Raw, err
	}
}

func evaluateTree(c Case) (o vev.Outcome, err error) {
	defer func() {
		if p := recover(); p != nil {
			o = dev("panic", "panic: %v on %q", p, c.Doc)
		}
	}()
	strict, perr := vx.Parse([]byte(c.Doc))
	if perr != nil {
		return o, fmt.Errorf("generator produced a document the strict reader refuses: %v: %q", perr, c.Doc)
	}
	want := targets(strict, c.Depth)
	if c.Depth == 2 && len(strict.Elems()) > 1 {
		// l2 captures the children of the *last* matching child with ,any; keep it simple: first child only when unique
		return vev.Outcome{}, nil
	}
	raws, cerr := capture(c)
	if cerr != nil {
		return dev("capture-error", "xml.Unmarshal into RawXMLValue failed: %v on %q", cerr, c.Doc), nil
	}
	if len(raws) != len(want) {
		return dev("capture-count", "captured %d raw values, the document has %d target elements: %q", len(raws), len(want), c.Doc), nil
	}
	opts := vx.CmpOpts{}
	for i := range raws {
		// O1: Marshal, re-read with encoding/xml
		out, merr := xml.Marshal(&raws[i])
		if merr != nil {
			return dev("marshal-error", "xml.Marshal of the captured value failed: %v (doc %q)", merr, c.Doc), nil
		}
		got, rerr := vx.FromStd(out)
		if rerr != nil {
			return dev("marshal-unreadable", "re-marshalled value %q cannot be read by encoding/xml: %v (doc %q)", out, rerr, c.Doc), nil
		}
		if d := vx.Diff(want[i], got, opts); d != "" {
			return dev("marshal-differs", "target %d of %q re-marshalled as %q denotes another tree: %s", i, c.Doc, out, d), nil
		}
		// as a member of a Prop container
		pb, merr := xml.Marshal(&internal.Prop{Raw: []internal.RawXMLValue{raws[i]}})
		if merr != nil {
			return dev("prop-marshal-error", "xml.Marshal of Prop{Raw} failed: %v", merr), nil
		}
		pt, rerr := vx.FromStd(pb)
		if rerr != nil || len(pt.Elems()) != 1 {
			return dev("prop-marshal-unreadable", "Prop{Raw} marshalled as %q: %v", pb, rerr), nil
		}
		if d := vx.Diff(want[i], pt.Elems()[0], opts); d != "" {
			kind := "prop-marshal-differs"
			if want[i].Name.Space == "" && !declares(want[i], "") {
				// the target is in no namespace because its original context had
				// no default namespace; the DAV: container gives it one
				kind = "prop-member|no-namespace-target-inherits-container-default"
			}
			return dev(kind, "target %d of %q inside Prop marshalled as %q: %s", i, c.Doc, pb, d), nil
		}
		// O2: TokenReader -> EncodeToken
		var buf bytes.Buffer
		enc := xml.NewEncoder(&buf)
		tr := raws[i].TokenReader()
		ntok, depth, maxTok := 0, 0, 10*len(c.Doc)+10
		for {
			tok, terr := tr.Token()
			if terr == io.EOF {
				break
			}
			if terr != nil {
				return dev("tokenreader-error", "TokenReader returned %v (doc %q)", terr, c.Doc), nil
			}
			ntok++
			if ntok > maxTok {
				return dev("tokenreader-endless", "TokenReader produced more than %d tokens for %q", maxTok, c.Doc), nil
			}
			switch tok.(type) {
			case xml.StartElement:
				depth++
			case xml.EndElement:
				depth--
				if depth < 0 {
					return dev("tokenreader-unbalanced", "more end than start elements (doc %q)", c.Doc), nil
				}
			}
			if eerr := enc.EncodeToken(tok); eerr != nil {
				return dev("tokenreader-encode-error", "EncodeToken(%#v) failed: %v (doc %q)", tok, eerr, c.Doc), nil
			}
		}
		// O3: balanced, then EOF forever
		if depth != 0 {
			return dev("tokenreader-unbalanced", "token stream ends with %d open elements (doc %q)", depth, c.Doc), nil
		}
		for k := 0; k < 3; k++ {
			if tok, terr := tr.Token(); terr != io.EOF || tok != nil {
				return dev("tokenreader-after-eof", "Token() after the end returned %v, %v", tok, terr), nil
			}
		}
		enc.Flush()
		got2, rerr := vx.FromStd(buf.Bytes())
		if rerr != nil {
			return dev("tokenreader-unreadable", "token stream encoded as %q cannot be read: %v (doc %q)", buf.Bytes(), rerr, c.Doc), nil
		}
		if d := vx.Diff(want[i], got2, opts); d != "" {
			return dev("tokenreader-differs", "target %d of %q streamed as %q denotes another tree: %s", i, c.Doc, buf.Bytes(), d), nil
		}
		// the token stream read directly as a tree
		got3, rerr := vx.FromTokens(raws[i].TokenReader())
		if rerr != nil {
			return dev("tokenreader-illnested", "token stream is not well nested: %v (doc %q)", rerr, c.Doc), nil
		}
		if d := vx.Diff(want[i], got3, opts); d != "" {
			return dev("tokenstream-differs", "target %d of %q: token stream denotes another tree: %s", i, c.Doc, d), nil
		}
		// capturing again must not be affected by the first use (no aliasing)
		out2, _ := xml.Marshal(&raws[i])
		if !bytes.Equal(out, out2) {
			return dev("marshal-not-repeatable", "second Marshal differs: %q vs %q", out, out2), nil
		}
	}
	return vev.Outcome{}, nil
}

// ---------------------------------------------------------------------------
// O4: typed decoding through a raw value equals direct decoding

type kid struct {
	XMLName xml.Name `xml:"urn:probe kid"`
	ID      string   `xml:"id,attr"`
	Text    string   `xml:",chardata"`
}

type anyEl struct {
	XMLName xml.Name
	Attrs   []xml.Attr `xml:",any,attr"`
	Inner   string     `xml:",innerxml"`
}

type probe struct {
	XMLName xml.Name `xml:"urn:probe p"`
	A       string   `xml:"plain,attr"`
	NSAttr  string   `xml:"urn:x qual,attr"`
	Lang    string   `xml:"http://www.w3.org/XML/1998/namespace lang,attr"`
	Text    string   `xml:",chardata"`
	Kids    []kid    `xml:"urn:probe kid"`
	Hrefs   []string `xml:"DAV: href"`
	Comment string   `xml:",comment"`
}

type typedProbe struct {
	name string
	mk   func() any
	ns   string
	el   string
}

var typed = []typedProbe{
	{"probe", func() any { return &probe{} }, "urn:probe", "p"},
	{"getetag", func() any { return &internal.GetETag{} }, "DAV:", "getetag"},
	{"getcontentlength", func() any { return &internal.GetContentLength{} }, "DAV:", "getcontentlength"},
	{"getcontenttype", func() any { return &internal.GetContentType{} }, "DAV:", "getcontenttype"},
	{"getlastmodified", func() any { return &internal.GetLastModified{} }, "DAV:", "getlastmodified"},
	{"displayname", func() any { return &internal.DisplayName{} }, "DAV:", "displayname"},
	{"current-user-principal", func() any { return &internal.CurrentUserPrincipal{} }, "DAV:", "current-user-principal"},
	{"location", func() any { return &internal.Location{} }, "DAV:", "location"},
}

func clean(v any) any {
	// compare through a second marshal-free view: XMLName and exported scalar fields via JSON
	b, _ := json.Marshal(v)
	var m any
	json.Unmarshal(b, &m)
	return m
}

func evaluateTyped(c Case) (o vev.Outcome, err error) {
	defer func() {
		if p := recover(); p != nil {
			o = dev("typed|panic", "panic: %v on %q", p, c.Doc)
		}
	}()
	strict, perr := vx.Parse([]byte(c.Doc))
	if perr != nil {
		return o, fmt.Errorf("generator produced a document the strict reader refuses: %v: %q", perr, c.Doc)
	}
	var prop internal.Prop
	if uerr := xml.Unmarshal([]byte(c.Doc), &prop); uerr != nil {
		return dev("typed|prop-unmarshal", "cannot unmarshal %q into Prop: %v", c.Doc, uerr), nil
	}
	for _, tp := range typed {
		els := strict.Elems(tp.ns, tp.el)
		if len(els) != 1 {
			continue
		}
		// direct decoding from the original document: a wrapper struct selecting the element
		direct := tp.mk()
		wrap := reflect.New(reflect.StructOf([]reflect.StructField{
			{Name: "XMLName", Type: reflect.TypeOf(xml.Name{}), Tag: `xml:"DAV: prop"`},
			{Name: "V", Type: reflect.TypeOf(direct), Tag: reflect.StructTag(fmt.Sprintf(`xml:"%s %s"`, tp.ns, tp.el))},
		}))
		derr := xml.Unmarshal([]byte(c.Doc), wrap.Interface())
		dv := wrap.Elem().Field(1).Interface()
		via := tp.mk()
		raw := prop.Get(xml.Name{Space: tp.ns, Local: tp.el})
		if raw == nil {
			return dev("typed|get-nil", "Prop.Get({%s}%s) found nothing in %q", tp.ns, tp.el, c.Doc), nil
		}
		verr := raw.Decode(via)
		if (derr != nil) != (verr != nil) {
			return dev("typed|error-mismatch|"+tp.name, "%q: direct decoding error %v, Decode via raw value error %v", c.Doc, derr, verr), nil
		}
		if derr != nil {
			continue
		}
		if !reflect.DeepEqual(clean(dv), clean(via)) {
			return dev("typed|value-mismatch|"+tp.name, "%q: direct decoding gives %s, Decode via raw value gives %s", c.Doc, mustJSON(dv), mustJSON(via)), nil
		}
		// Prop.Decode goes the same way
		via2 := tp.mk()
		if perr := prop.Decode(via2); perr != nil || !reflect.DeepEqual(clean(dv), clean(via2)) {
			return dev("typed|prop-decode|"+tp.name, "%q: Prop.Decode gives %s, %v; direct %s", c.Doc, mustJSON(via2), perr, mustJSON(dv)), nil
		}
	}
	return vev.Outcome{}, nil
}

func genTyped(rt *rapid.T) Case {
	// a DAV:prop document with one typed element in random lexical form
	tp := rapid.SampledFrom(typed).Draw(rt, "typed")
	var body *vx.Node
	txt := rapid.SampledFrom([]string{"", "42", "text/plain", `"abc"`, "Mon, 02 Jan 2006 15:04:05 GMT", " x ", "a<b&c", "-5", "é", `"a\"b"`, "99999999999999999999"}).Draw(rt, "text")
	switch tp.name {
	case "probe":
		body = vx.El("urn:probe", "p")
		if rapid.Bool().Draw(rt, "pa") {
			body.With("", "plain", rapid.SampledFrom([]string{"", "v", "a b", "<&>\"'"}).Draw(rt, "pav"))
		}
		if rapid.Bool().Draw(rt, "pb") {
			body.With("urn:x", "qual", "nsattr")
		}
		if rapid.Bool().Draw(rt, "pl") {
			body.With("http://www.w3.org/XML/1998/namespace", "lang", "en")
		}
		if rapid.Bool().Draw(rt, "pother") {
			body.With("urn:y", "plain", "other-ns-plain")
		}
		n := rapid.IntRange(0, 4).Draw(rt, "pk")
		for i := 0; i < n; i++ {
			switch rapid.IntRange(0, 4).Draw(rt, "pkk") {
			case 0:
				body.Add(vx.T(txt))
			case 1:
				body.Add(vx.El("urn:probe", "kid", vx.T(txt)).With("", "id", fmt.Sprint(i)))
			case 2:
				body.Add(vx.El("DAV:", "href", vx.T("/p/"+txt)))
			case 3:
				body.Add(&vx.Node{Kind: vx.Comment, Text: " c "})
			default:
				body.Add(vx.El("urn:other", "kid", vx.T("ignored")))
			}
		}
	case "current-user-principal":
		body = vx.El("DAV:", tp.el)
		if rapid.Bool().Draw(rt, "cuph") {
			body.Add(vx.El("DAV:", "href", vx.T("/u/"+txt)))
		} else {
			body.Add(vx.El("DAV:", "unauthenticated"))
		}
	case "location":
		body = vx.El("DAV:", tp.el, vx.El("DAV:", "href", vx.T("/l/"+rapid.SampledFrom([]string{"a", "a%20b", "é", "%zz"}).Draw(rt, "loc"))))
	default:
		body = vx.El(tp.ns, tp.el)
		if txt != "" {
			body.Add(vx.T(txt))
		}
	}
	root := vx.El("DAV:", "prop", body)
	if rapid.Bool().Draw(rt, "sibling") {
		root.Children = append([]*vx.Node{vx.El("urn:other", "first", vx.T("x"))}, root.Children...)
	}
	if rapid.Bool().Draw(rt, "decoy") {
		// same local name in another namespace, before the real element
		root.Children = append([]*vx.Node{vx.El("urn:decoy", tp.el, vx.T("decoy"))}, root.Children...)
	}
	doc := vx.Write(root, chooser{rt}, false)
	return Case{Doc: string(doc), Mode: "typed"}
}

type chooser struct{ rt *rapid.T }

func (c chooser) Pick(label string, n int) int { return rapid.IntRange(0, n-1).Draw(c.rt, label) }

// ---------------------------------------------------------------------------

func evaluate(c Case) (vev.Outcome, error) {
	if c.Mode == "typed" {
		return evaluateTyped(c)
	}
	return evaluateTree(c)
}

func TestAReplay(t *testing.T) {
	vev.RunReplays(t, rec, func(kind string, raw json.RawMessage) (vev.Outcome, error) {
		var c Case
		if err := json.Unmarshal(raw, &c); err != nil {
			return vev.Outcome{}, err
		}
		return evaluate(c)
	})
}

func runCase(t *testing.T, rt *rapid.T, c Case, class string, nontrivial bool) {
	rec.Case(class, nontrivial, c.Doc, func() any { return c })
	o, err := evaluate(c)
	if err != nil {
		rt.Fatalf("harness: %v", err)
	}
	if o.OK() || rec.Known(o.Sig) {
		return
	}
	rec.Fail(rt, o.Sig, "c15", c, "%s", o.Msg)
}

func TestTrees(t *testing.T) {
	if vev.ReplayFile() != "" {
		t.Skip()
	}
	vev.Rapid(t, rec, 0, vev.N(5000, 250000), func(rt *rapid.T) {
		c, f := genDoc(rt, false)
		for k := range f {
			rec.Count("feature/"+k, 1)
		}
		if c.Depth == 0 && rapid.IntRange(0, 2).Draw(rt, "reuse") == 0 {
			c.Reuse = true
			rec.Count("feature/second-capture-into-a-used-value", 1)
		}
		runCase(t, rt, c, fmt.Sprintf("tree/wrap%d", c.Depth), f["outer-binding"] || f["redeclare"] || f["undeclare"] || f["prefixed-attr"])
	})
}

// very wide and wide-and-deep values: counters that are meant to bound the depth must not count siblings
// (added after seeded change C15-s7: a group-member-set with 10000 hrefs is a legitimate value)
func TestWide(t *testing.T) {
	if vev.ReplayFile() != "" {
		t.Skip()
	}
	var docs []string
	for _, n := range []int{9999, 10000, 10001, 25000} {
		docs = append(docs, `<D:group-member-set xmlns:D="DAV:">`+strings.Repeat(`<D:href>/p/u</D:href>`, n)+`</D:group-member-set>`)
	}
	// 60 levels, each entered through its 200th child
	var b strings.Builder
	for l := 0; l < 60; l++ {
		b.WriteString(`<l xmlns="urn:wide">` + strings.Repeat(`<s/>`, 199))
	}
	b.WriteString(`<leaf xmlns="urn:wide">x</leaf>`)
	for l := 0; l < 60; l++ {
		b.WriteString(`</l>`)
	}
	docs = append(docs, b.String())
	for i, d := range docs {
		if !vev.MyShare(i) {
			continue
		}
		c := Case{Mode: "tree", Depth: 0, Doc: d}
		rec.Case("wide", true, d, func() any { return map[string]any{"mode": "tree", "doc": fmt.Sprintf("%.120s... (%d bytes)", d, len(d))} })
		o, err := evaluate(c)
		if err != nil {
			t.Fatalf("harness: %v", err)
		}
		if !o.OK() && !rec.Known(o.Sig) {
			rec.Violation(t, o.Sig, "c15", c, "%s", o.Msg)
		}
	}
}

func TestTreesBareNamespaceNames(t *testing.T) {
	if vev.ReplayFile() != "" {
		t.Skip()
	}
	vev.Rapid(t, rec, 1, vev.N(800, 60000), func(rt *rapid.T) {
		c, f := genDoc(rt, true)
		runCase(t, rt, c, "tree-bare-ns-names", f["bare-ns-name"])
	})
}

func TestTyped(t *testing.T) {
	if vev.ReplayFile() != "" {
		t.Skip()
	}
	vev.Rapid(t, rec, 2, vev.N(4000, 300000), func(rt *rapid.T) {
		c := genTyped(rt)
		runCase(t, rt, c, "typed", true)
	})
}

func mustJSON(v any) string {
	b, _ := json.Marshal(v)
	return string(b)
}

// FuzzRaw: coverage-guided (thorough tier).  Any document the harness' strict
// reader accepts must round-trip through RawXMLValue (oracles O1-O3).
func FuzzRaw(f *testing.F) {
	for _, s := range []string{`<a/>`, `<D:prop xmlns:D="DAV:"><D:getetag>"x"</D:getetag></D:prop>`, `<a xmlns="urn:x"><b xmlns=""><c/></b></a>`,
		`<p:a xmlns:p="urn:x" p:b="1" xml:lang="en"><!-- c --><?pi d?><![CDATA[x<y]]>&amp;&#xD;</p:a>`, `<a xmlns:p="urn:x"><p:b xmlns:p="urn:y"><p:c/></p:b></a>`, `<D:e xmlns:D="DAV:" xmlns="urn:x"><f/></D:e>`} {
		f.Add([]byte(s))
	}
	f.Fuzz(func(t *testing.T, data []byte) {
		if len(data) > 4096 {
			t.Skip()
		}
		if _, err := vx.Parse(data); err != nil {
			t.Skip()
		}
		o, err := evaluateTree(Case{Doc: string(data), Depth: 0, Mode: "tree"})
		if err != nil {
			t.Skip()
		}
		if !o.OK() && !rec.Known(o.Sig) {
			t.Fatalf("%s: %s", o.Sig, o.Msg)
		}
	})
}
