// C11 — PROPFIND answers account for every property and respect Depth.
package c11

import (
	"reflect"
	"bufio"
	"encoding/json"
	"fmt"
	"net/http"
	"os"
	"path"
	"path/filepath"
	"sort"
	"strings"
	"testing"
	"time"

	"github.com/emersion/go-ical"
	"github.com/emersion/go-vcard"
	webdav "github.com/emersion/go-webdav"
	"github.com/emersion/go-webdav/caldav"
	"github.com/emersion/go-webdav/carddav"
	"github.com/emersion/go-webdav/verifharness/cfs"
	"github.com/emersion/go-webdav/verifharness/vdav"
	"github.com/emersion/go-webdav/verifharness/vdbl"
	"github.com/emersion/go-webdav/verifharness/vev"
	"github.com/emersion/go-webdav/verifharness/vx"
	"pgregory.net/rapid"
)

var rec = vev.For("C11")

func TestMain(m *testing.M) {
	rec.SetRule("servers: webdav.Handler over an in-memory tree, caldav.Handler and carddav.Handler over recording backends with 0-4 collections x 0-4 members and varied metadata, webdav.ServePrincipal; request form {prop with a generated name set mixing supported, unsupported, foreign-namespace and repeated names in random order; propname; allprop; empty body; propfind with none of the three} x Depth {unset,0,1,infinity} x target at every hierarchy level. Oracle without a property table: 207 + strict well-formedness + RFC 4918 multi-status structure; per resource the names listed by a propname request define what it has - a prop request must account for every distinct requested name exactly once (200 if listed, else 404 and empty), propname elements are empty, allprop/empty body return exactly the listed names; a lower bound from the backend data keeps the relation from being vacuous; the hrefs must be exactly the resources the Depth puts in scope, each once; what a listing reports for a member (names, statuses, content) equals what the same request addressed to the member with Depth 0 reports; none-of-three gets 400. non-trivial = a prop request with >= 1 supported and >= 1 unsupported name at a level with >= 1 member and Depth != 0, or an allprop/propname request with >= 2 resources in scope; distinct by canonical JSON")
	rec.Assume("backends do not fail; property values are not compared here (C05/C10 do that)", "at the CalDAV/CardDAV root only the number of responses (one) is checked: the server answers for the root with the principal's href and exposes no membership there")
	vev.Main(m)
}

type Obj struct {
	Name   string `json:"name"`
	ETag   string `json:"etag,omitempty"`
	MTime  int64  `json:"mtime,omitempty"`
	Length int64  `json:"length,omitempty"`
	IsDir  bool   `json:"dir,omitempty"`
	Kids   []Obj  `json:"kids,omitempty"` // webdav only
	MIME   string `json:"mime,omitempty"`
}

type Coll struct {
	Name    string   `json:"name"`
	Display string   `json:"display,omitempty"`
	Desc    string   `json:"desc,omitempty"`
	MaxSize int64    `json:"max,omitempty"`
	Comps   []string `json:"comps,omitempty"`
	Objs    []Obj    `json:"objs,omitempty"`
}

type PName struct {
	Space string `json:"ns"`
	Local string `json:"local"`
	// Fill makes the naming element of the request non-empty (what REPORT-style clients do with calendar-data and
	// address-data, and what a sloppy client may do with any name): 1 = text, 2 = a child element, 3 = both
	Fill int `json:"fill,omitempty"`
}

type Case struct {
	Server  string  `json:"server"` // webdav | caldav | carddav | principal
	Colls   []Coll  `json:"colls,omitempty"`
	Tree    []Obj   `json:"tree,omitempty"` // webdav
	// Local: 0 = the tree is served from the in-memory FileSystem double; 1 = materialised in a temporary directory and
	// served by webdav.LocalFileSystem; 2 = likewise, and every collection without members is a symbolic link to an
	// (empty) directory outside the served one (after C11-s17)
	Local int `json:"local,omitempty"`
	Target  string  `json:"target"`         // request path
	Form    string  `json:"form"`           // prop | propname | allprop | empty | none
	Names   []PName `json:"names,omitempty"`
	Depth   string  `json:"depth,omitempty"`
	Lexical []int   `json:"lexical,omitempty"`
	Alt     bool    `json:"alt_names,omitempty"` // principal /dav/ada/, home set /dav/ada/dav/
	Chunked bool    `json:"chunked,omitempty"`   // request bodies are sent without a declared length (Transfer-Encoding: chunked)
}

// chunkedBodies: set by evaluate for the case at hand (one case is evaluated at a time)
var chunkedBodies bool

// the hierarchy below the mount prefix "/dav": two spellings - names that share no letter with the prefix, and names
// made only of the prefix's own letters (a prefix removed as a character set eats exactly those; after C11-s12)
var (
	principal = "/dav/u/"
	home      = "/dav/u/h/"
)

func setLayout(alt bool) {
	if alt {
		principal, home = "/dav/ada/", "/dav/ada/dav/"
	} else {
		principal, home = "/dav/u/", "/dav/u/h/"
	}
}

func collPath(c Coll) string       { return home + c.Name + "/" }
func objPath(c Coll, o Obj) string { return home + c.Name + "/" + o.Name }

func event(uid string) *ical.Calendar {
	cal := ical.NewCalendar()
	cal.Props.SetText(ical.PropVersion, "2.0")
	cal.Props.SetText(ical.PropProductID, "-//verif//EN")
	ev := ical.NewEvent()
	ev.Props.SetText(ical.PropUID, uid)
	ev.Props.SetDateTime(ical.PropDateTimeStamp, time.Unix(0, 0).UTC())
	ev.Props.SetDateTime(ical.PropDateTimeStart, time.Unix(0, 0).UTC())
	cal.Children = append(cal.Children, ev.Component)
	return cal
}

func mt(v int64) time.Time {
	if v == 0 {
		return time.Time{}
	}
	return time.Unix(v, 0)
}

type resource struct {
	path  string
	lower []vx.Name // names the resource must have (from the backend data)
}

type world struct {
	h http.Handler
	// perturb changes the backend's data in place (tags, dates, lengths, display names); fresh makes a new handler
	// over the same backend: relation (6), a handler that has answered before answers like one that has not
	perturb func()
	fresh   func() http.Handler
	cleanup func()
	// all resources by level
	scope func(target, depth string) (res []resource, countOnly bool, known bool)
}

func dn(local string) vx.Name { return vx.Name{Space: vdav.NSDAV, Local: local} }

func build(c Case) *world {
	w := &world{}
	switch c.Server {
	case "caldav", "carddav":
		type entry struct {
			r     resource
			level int
			coll  string
		}
		var colls, objs []entry
		calB := &vdbl.CalBackend{Principal: principal, HomeSet: home, Objects: map[string][]caldav.CalendarObject{}}
		cardB := &vdbl.CardBackend{Principal: principal, HomeSet: home, Objects: map[string][]carddav.AddressObject{}}
		for _, cl := range c.Colls {
			p := collPath(cl)
			lower := []vx.Name{dn("resourcetype")}
			if cl.Display != "" {
				lower = append(lower, dn("displayname"))
			}
			colls = append(colls, entry{r: resource{p, lower}, level: 3})
			calB.Calendars = append(calB.Calendars, caldav.Calendar{Path: p, Name: cl.Display, Description: cl.Desc, MaxResourceSize: cl.MaxSize, SupportedComponentSet: cl.Comps})
			cardB.Books = append(cardB.Books, carddav.AddressBook{Path: p, Name: cl.Display, Description: cl.Desc, MaxResourceSize: cl.MaxSize})
			for _, o := range cl.Objs {
				op := objPath(cl, o)
				lo := []vx.Name{dn("resourcetype"), dn("getcontenttype")}
				if o.ETag != "" {
					lo = append(lo, dn("getetag"))
				}
				if o.MTime != 0 {
					lo = append(lo, dn("getlastmodified"))
				}
				if o.Length > 0 {
					lo = append(lo, dn("getcontentlength"))
				}
				objs = append(objs, entry{r: resource{op, lo}, level: 4, coll: p})
				calB.Objects[p] = append(calB.Objects[p], caldav.CalendarObject{Path: op, ETag: o.ETag, ModTime: mt(o.MTime), ContentLength: o.Length, Data: event("u-" + o.Name)})
				card := vcard.Card{}
				card.SetValue(vcard.FieldVersion, "4.0")
				card.SetValue(vcard.FieldFormattedName, o.Name)
				cardB.Objects[p] = append(cardB.Objects[p], carddav.AddressObject{Path: op, ETag: o.ETag, ModTime: mt(o.MTime), ContentLength: o.Length, Card: card})
			}
		}
		if c.Server == "caldav" {
			w.h = &caldav.Handler{Backend: calB, Prefix: "/dav"}
			w.fresh = func() http.Handler { return &caldav.Handler{Backend: calB, Prefix: "/dav"} }
		} else {
			w.h = &carddav.Handler{Backend: cardB, Prefix: "/dav/"}
			w.fresh = func() http.Handler { return &carddav.Handler{Backend: cardB, Prefix: "/dav/"} }
		}
		w.perturb = func() {
			for i := range calB.Calendars {
				calB.Calendars[i].Name += "*"
				calB.Calendars[i].Description = "changed " + calB.Calendars[i].Description
				cardB.Books[i].Name += "*"
				cardB.Books[i].Description = "changed " + cardB.Books[i].Description
			}
			for p := range calB.Objects {
				for i := range calB.Objects[p] {
					o := &calB.Objects[p][i]
					o.ETag, o.ModTime, o.ContentLength = "p"+o.ETag, mt(1600000000+int64(i)), o.ContentLength+7
					a := &cardB.Objects[p][i]
					a.ETag, a.ModTime, a.ContentLength = "p"+a.ETag, mt(1600000000+int64(i)), a.ContentLength+7
				}
			}
		}
		rt := []vx.Name{dn("resourcetype")}
		w.scope = func(target, depth string) ([]resource, bool, bool) {
			deep := depth == "" || depth == "infinity"
			var res []resource
			switch {
			case target == "/dav" || target == "/dav/":
				return []resource{{path: principal, lower: rt}}, true, true
			case target == principal:
				res = append(res, resource{principal, rt})
				if depth != "0" {
					res = append(res, resource{home, rt})
				}
				if deep {
					for _, e := range colls {
						res = append(res, e.r)
						for _, o := range objs {
							if o.coll == e.r.path {
								res = append(res, o.r)
							}
						}
					}
				}
				return res, false, true
			case target == home:
				res = append(res, resource{home, rt})
				if depth != "0" {
					for _, e := range colls {
						res = append(res, e.r)
						if deep {
							for _, o := range objs {
								if o.coll == e.r.path {
									res = append(res, o.r)
								}
							}
						}
					}
				}
				return res, false, true
			}
			for _, e := range colls {
				if e.r.path == target {
					res = append(res, e.r)
					if depth != "0" {
						for _, o := range objs {
							if o.coll == target {
								res = append(res, o.r)
							}
						}
					}
					return res, false, true
				}
			}
			for _, o := range objs {
				if o.r.path == target {
					return []resource{o.r}, false, true
				}
			}
			return nil, false, false
		}
	case "webdav":
		fs := vdbl.NewMemFS()
		fs.Add(webdav.FileInfo{Path: "/", IsDir: true}, nil)
		var add func(prefix string, l []Obj)
		add = func(prefix string, l []Obj) {
			for _, o := range l {
				p := prefix + o.Name
				fs.Add(webdav.FileInfo{Path: p, IsDir: o.IsDir, Size: o.Length, ETag: o.ETag, ModTime: mt(o.MTime), MIMEType: o.MIME}, nil)
				if o.IsDir {
					add(p+"/", o.Kids)
				}
			}
		}
		add("/", c.Tree)
		w.h = &webdav.Handler{FileSystem: fs}
		w.fresh = func() http.Handler { return &webdav.Handler{FileSystem: fs} }
		w.perturb = func() {
			for _, f := range fs.Files {
				if !f.Info.IsDir {
					f.Info.Size, f.Info.ETag, f.Info.ModTime, f.Info.MIMEType = f.Info.Size+7, "p"+f.Info.ETag, mt(1600000000), "application/x-changed"
				}
			}
		}
		if c.Local > 0 {
			// the in-memory double stays the model of names, kinds and scope; the answers come from the real directory
			base, err := os.MkdirTemp("", "c11local")
			if err != nil {
				panic(err)
			}
			w.cleanup = func() { os.RemoveAll(base) }
			root, outside := filepath.Join(base, "root"), filepath.Join(base, "outside")
			os.MkdirAll(root, 0o755)
			os.MkdirAll(outside, 0o755)
			n := 0
			var mk func(dir string, l []Obj)
			mk = func(dir string, l []Obj) {
				for _, o := range l {
					p := filepath.Join(dir, o.Name)
					switch {
					case o.IsDir && len(o.Kids) == 0 && c.Local == 2:
						n++
						t := filepath.Join(outside, fmt.Sprintf("t%d", n))
						os.MkdirAll(t, 0o755)
						if err := os.Symlink(t, p); err != nil {
							panic(err)
						}
					case o.IsDir:
						os.MkdirAll(p, 0o755)
						mk(p, o.Kids)
					default:
						if err := os.WriteFile(p, []byte("x"), 0o644); err != nil {
							panic(err)
						}
						os.Truncate(p, o.Length%4096)
						if o.MTime != 0 {
							os.Chtimes(p, mt(o.MTime), mt(o.MTime))
						}
					}
				}
			}
			mk(root, c.Tree)
			lfs := webdav.LocalFileSystem(root)
			w.h = &webdav.Handler{FileSystem: lfs}
			w.fresh = func() http.Handler { return &webdav.Handler{FileSystem: webdav.LocalFileSystem(root)} }
			w.perturb = func() {
				for k, f := range fs.Files {
					if !f.Info.IsDir {
						p := filepath.Join(root, filepath.FromSlash(k))
						os.WriteFile(p, []byte("changed content"), 0o644)
						os.Chtimes(p, mt(1600000000), mt(1600000000))
					}
				}
			}
		}
		w.scope = func(target, depth string) ([]resource, bool, bool) {
			f := fs.Files[target]
			if f == nil {
				return nil, false, false
			}
			var paths []string
			if f.Info.IsDir && depth != "0" {
				paths = fs.Members(target, depth == "" || depth == "infinity")
			} else {
				paths = []string{target}
			}
			var res []resource
			for _, p := range paths {
				fi := fs.Files[p].Info
				lo := []vx.Name{dn("resourcetype")}
				if !fi.IsDir {
					lo = append(lo, dn("getcontentlength"))
					if fi.ETag != "" {
						lo = append(lo, dn("getetag"))
					}
					if !fi.ModTime.IsZero() {
						lo = append(lo, dn("getlastmodified"))
					}
					if fi.MIMEType != "" && c.Local == 0 {
						lo = append(lo, dn("getcontenttype"))
					}
				}
				res = append(res, resource{p, lo})
			}
			return res, false, true
		}
	case "principal":
		opts := &webdav.ServePrincipalOptions{CurrentUserPrincipalPath: principal,
			HomeSets:     []webdav.BackendSuppliedHomeSet{caldav.NewCalendarHomeSet("/dav/u/cal/"), carddav.NewAddressBookHomeSet("/dav/u/card/")},
			Capabilities: []webdav.Capability{caldav.CapabilityCalendar, carddav.CapabilityAddressBook}}
		w.h = http.HandlerFunc(func(rw http.ResponseWriter, r *http.Request) { webdav.ServePrincipal(rw, r, opts) })
		w.scope = func(target, depth string) ([]resource, bool, bool) {
			return []resource{{target, []vx.Name{dn("resourcetype"), dn("current-user-principal"),
				{Space: vdav.NSCal, Local: "calendar-home-set"}, {Space: vdav.NSCard, Local: "addressbook-home-set"}}}}, false, true
		}
	}
	return w
}

type replayChooser struct {
	choices []int
	i       int
}

func (r *replayChooser) Pick(label string, n int) int {
	if r.i >= len(r.choices) {
		return 0
	}
	v := r.choices[r.i] % n
	r.i++
	return v
}

func body(c Case, form string, names []PName) (string, string) {
	var root *vx.Node
	switch form {
	case "empty":
		return "", ""
	case "propname":
		root = vx.El(vdav.NSDAV, "propfind", vx.El(vdav.NSDAV, "propname"))
	case "allprop":
		root = vx.El(vdav.NSDAV, "propfind", vx.El(vdav.NSDAV, "allprop"))
	case "allprop+include":
		inc := vx.El(vdav.NSDAV, "include")
		for _, n := range names {
			inc.Add(vx.El(n.Space, n.Local))
		}
		root = vx.El(vdav.NSDAV, "propfind", vx.El(vdav.NSDAV, "allprop"), inc)
	case "none":
		root = vx.El(vdav.NSDAV, "propfind")
		if len(c.Lexical) > 0 && c.Lexical[0]%2 == 1 {
			root.Add(vx.El(vdav.NSDAV, "include", vx.El(vdav.NSDAV, "getetag")))
		}
	default:
		p := vx.El(vdav.NSDAV, "prop")
		for _, n := range names {
			e := vx.El(n.Space, n.Local)
			if n.Fill&1 != 0 {
				e.Add(vx.T("requested"))
			}
			if n.Fill&2 != 0 {
				e.Add(vx.El(n.Space, "part").With("", "name", "VERSION"))
			}
			p.Add(e)
		}
		root = vx.El(vdav.NSDAV, "propfind", p)
	}
	return string(vx.Write(root, &replayChooser{choices: c.Lexical}, true)), "application/xml; charset=utf-8"
}

func serve(w *world, target, depth, b, ct string) cfs.Resp {
	var raw strings.Builder
	fmt.Fprintf(&raw, "PROPFIND %s HTTP/1.1\r\nHost: dav.example\r\n", cfs.EscapePath(target))
	if depth != "" {
		fmt.Fprintf(&raw, "Depth: %s\r\n", depth)
	}
	if ct != "" {
		fmt.Fprintf(&raw, "Content-Type: %s\r\n", ct)
	}
	if chunkedBodies && len(b) > 0 {
		k := (len(b) + 1) / 2
		fmt.Fprintf(&raw, "Transfer-Encoding: chunked\r\n\r\n%x\r\n%s\r\n", k, b[:k])
		if k < len(b) {
			fmt.Fprintf(&raw, "%x\r\n%s\r\n", len(b)-k, b[k:])
		}
		raw.WriteString("0\r\n\r\n")
	} else {
		fmt.Fprintf(&raw, "Content-Length: %d\r\n\r\n%s", len(b), b)
	}
	req, err := http.ReadRequest(bufio.NewReader(strings.NewReader(raw.String())))
	if err != nil {
		panic(err)
	}
	return cfs.Serve(w.h, req)
}

func dev(kind, f string, a ...any) vev.Outcome {
	return vev.Outcome{Sig: vev.Sig(kind), Msg: fmt.Sprintf(f, a...)}
}

type found struct {
	code  int
	empty bool
	canon string // canonical serialisation of the element (name, attributes, content)
}

// read parses and structurally validates a 207 answer; returns per-href the
// elements found (name -> occurrences).
// cleanHrefs is set while a case served by LocalFileSystem is evaluated: hrefs are compared after dot-segment and
// trailing-slash removal (the statement fixes which resources answer, not how their hrefs are spelled)
var cleanHrefs bool

func read(resp cfs.Resp, cls string) (map[string]map[vx.Name][]found, []string, vev.Outcome) {
	got, order, o := readRaw(resp, cls)
	if cleanHrefs && o.OK() {
		g2 := map[string]map[vx.Name][]found{}
		for k, v := range got {
			g2[path.Clean(k)] = v
		}
		got = g2
		for i := range order {
			order[i] = path.Clean(order[i])
		}
	}
	return got, order, o
}

func readRaw(resp cfs.Resp, cls string) (map[string]map[vx.Name][]found, []string, vev.Outcome) {
	if resp.Panic != nil {
		return nil, nil, dev(cls+"|panic", "panic: %v", resp.Panic)
	}
	if resp.Status != 207 {
		return nil, nil, dev(cls+fmt.Sprintf("|status-%d", resp.Status), "answered %d (%.200q)", resp.Status, resp.Body)
	}
	root, err := vx.Parse(resp.Body)
	if err != nil {
		return nil, nil, dev(cls+"|not-wellformed", "body is not well-formed, namespace-correct XML: %v: %.400q", err, resp.Body)
	}
	ms, err := vdav.ReadMultiStatus(root)
	if err != nil {
		return nil, nil, dev(cls+"|not-rfc4918-multistatus", "%v: %.400q", err, resp.Body)
	}
	out := map[string]map[vx.Name][]found{}
	var order []string
	for _, r := range ms.Responses {
		if len(r.Hrefs) != 1 {
			return nil, nil, dev(cls+"|href-count", "a response carries %d hrefs: %q", len(r.Hrefs), r.Hrefs)
		}
		p, err := vdav.HrefPath(r.Hrefs[0])
		if err != nil {
			return nil, nil, dev(cls+"|href-unparseable", "href %q: %v", r.Hrefs[0], err)
		}
		if _, dup := out[p]; dup {
			return nil, nil, dev(cls+"|resource-twice", "resource %q appears in two responses", p)
		}
		out[p] = map[vx.Name][]found{}
		order = append(order, p)
		seenCode := map[int]bool{}
		for _, ps := range r.PropStats {
			if seenCode[ps.Code] {
				// allowed by the RFC, but then still counted per element
			}
			seenCode[ps.Code] = true
			for _, el := range ps.Props {
				out[p][el.Name] = append(out[p][el.Name], found{ps.Code, len(el.Children) == 0, string(vx.Write(el, vx.Fixed(0), false))})
			}
		}
	}
	return out, order, vev.Outcome{}
}

func evaluate(c Case) (vev.Outcome, error) {
	setLayout(c.Alt)
	chunkedBodies = c.Chunked
	cleanHrefs = c.Local > 0
	defer func() { chunkedBodies, cleanHrefs = false, false }()
	w := build(c)
	if w.cleanup != nil {
		defer w.cleanup()
	}
	scope, countOnly, known := w.scope(c.Target, c.Depth)
	if !known {
		return vev.Outcome{}, fmt.Errorf("target %q is not a resource of the layout", c.Target)
	}
	cls := c.Server + "|" + c.Form
	b, ct := body(c, c.Form, c.Names)
	resp := serve(w, c.Target, c.Depth, b, ct)
	if c.Form == "none" {
		if resp.Panic != nil {
			return dev(cls+"|panic", "panic: %v", resp.Panic), nil
		}
		if len(scope) > 0 && resp.Status != 400 {
			return dev(cls+"|not-400", "a propfind naming none of prop/propname/allprop answered %d: %q", resp.Status, b), nil
		}
		return vev.Outcome{}, nil
	}
	got, order, o := read(resp, cls)
	if !o.OK() {
		return o, nil
	}
	if c.Local > 0 {
		// the statement fixes which resources answer, not how LocalFileSystem spells their hrefs (it names its root
		// "/."): both sides are compared after dot-segment and trailing-slash removal; two responses for one resource
		// still show as a repeated entry
		for i := range scope {
			scope[i].path = path.Clean(scope[i].path)
		}
	}
	// (3) scope
	if countOnly {
		if len(order) != len(scope) {
			return dev(cls+"|root-response-count", "PROPFIND %q at the root gave %d responses", c.Target, len(order)), nil
		}
	} else {
		var want, have []string
		for _, r := range scope {
			want = append(want, r.path)
		}
		have = append(have, order...)
		sort.Strings(want)
		sort.Strings(have)
		if strings.Join(want, "\x00") != strings.Join(have, "\x00") {
			return dev(cls+"|scope|depth="+dflt(c.Depth), "PROPFIND %q Depth %q reported %q, in scope are %q", c.Target, c.Depth, have, want), nil
		}
	}
	// (5) metamorphic, added after seeded change C11-s6: what a listing says about a member is what the member says
	// about itself - the same request addressed to the member with Depth 0 must account for the same names under
	// the same statuses with the same content (a table reused across members, or a value leaking from the previous
	// member, is consistent with propname and invisible to relation (2))
	if !countOnly && c.Depth != "0" && len(order) > 1 {
		checked := 0
		for _, path := range order {
			if path == order[0] && len(order) > 6 {
				continue
			}
			if checked >= 6 {
				break
			}
			checked++
			single, sorder, o := read(serve(w, path, "0", b, ct), cls+"|depth0-of-member")
			if !o.OK() {
				return o, nil
			}
			if len(sorder) != 1 || sorder[0] != path {
				return dev(cls+"|depth0-of-member|scope", "PROPFIND %q Depth 0 answered for %q", path, sorder), nil
			}
			A, B := got[path], single[path]
			for n, occ := range A {
				if len(occ) != 1 || len(B[n]) != 1 {
					continue // repetitions are relation (2)'s business
				}
				if occ[0].code != B[n][0].code || occ[0].canon != B[n][0].canon {
					return dev(cls+"|listing-differs-from-depth0|"+n.Local, "in the Depth %q listing of %q member %q has %s as [%d] %s, asked directly (Depth 0) it has [%d] %s", c.Depth, c.Target, path, n, occ[0].code, occ[0].canon, B[n][0].code, B[n][0].canon), nil
				}
			}
			for n := range B {
				if _, ok := A[n]; !ok {
					return dev(cls+"|listing-differs-from-depth0|"+n.Local, "member %q has %s when asked directly but not in the Depth %q listing of %q", path, n, c.Depth, c.Target), nil
				}
			}
			for n := range A {
				if _, ok := B[n]; !ok {
					return dev(cls+"|listing-differs-from-depth0|"+n.Local, "member %q has %s in the Depth %q listing of %q but not when asked directly", path, n, c.Depth, c.Target), nil
				}
			}
		}
	}
	// (2) accounting against what propname lists
	pb, pct := body(c, "propname", nil)
	presp := serve(w, c.Target, c.Depth, pb, pct)
	listed, _, o := read(presp, c.Server+"|propname")
	if !o.OK() {
		return o, nil
	}
	for _, r := range scope {
		path := r.path
		if countOnly {
			path = order[0]
		}
		P := listed[path]
		if P == nil {
			return dev(c.Server+"|propname|resource-missing", "propname answer lacks %q", path), nil
		}
		for n, occ := range P {
			if len(occ) != 1 || occ[0].code != 200 || !occ[0].empty {
				return dev(c.Server+"|propname|not-empty-once-200", "propname lists %s for %q as %+v (want once, empty, under 200)", n, path, occ), nil
			}
		}
		for _, n := range r.lower {
			if _, ok := P[n]; !ok {
				return dev(c.Server+"|propname|lower-bound|"+n.Local, "%q has %s according to the backend, but propname does not list it (%v)", path, n, names(P)), nil
			}
		}
		G := got[path]
		switch c.Form {
		case "propname":
			// same request: consistency only
		case "allprop", "empty", "allprop+include":
			for n := range P {
				occ := G[n]
				if len(occ) != 1 || occ[0].code != 200 {
					return dev(cls+"|missing-or-not-200", "%s of %q is listed by propname but %s returns it as %+v", n, path, c.Form, occ), nil
				}
			}
			included := map[vx.Name]bool{}
			if c.Form == "allprop+include" {
				for _, n := range c.Names {
					included[vx.Name{Space: n.Space, Local: n.Local}] = true
				}
			}
			for n, occ := range G {
				if _, ok := P[n]; !ok {
					if included[n] && n.Space != "" && len(occ) == 1 && occ[0].code == 404 {
						continue // a name of the include list the resource lacks may be accounted for under 404
					}
					if included[n] && n.Space == "" {
						continue // no-namespace names: known finding KF-C11-1 territory, not this form's business
					}
					return dev(cls+"|unlisted-name", "%s returns %s for %q which propname does not list", c.Form, n, path), nil
				}
			}
		case "prop":
			req := map[vx.Name]bool{}
			for _, n := range c.Names {
				req[vx.Name{Space: n.Space, Local: n.Local}] = true
			}
			for n := range req {
				occ := G[n]
				kind := ""
				switch {
				case len(occ) == 0:
					kind = "unaccounted"
				case len(occ) > 1:
					kind = "accounted-twice"
				case P[n] != nil && occ[0].code != 200:
					kind = "has-it-but-not-200"
				case P[n] == nil && occ[0].code != 404:
					kind = "lacks-it-but-not-404"
				case P[n] == nil && !occ[0].empty:
					kind = "404-not-empty"
				}
				if kind != "" {
					if n.Space == "" {
						kind = "no-namespace-name|" + kind
					}
					return dev(cls+"|"+kind, "property %s requested for %q (listed by propname: %v) is answered as %+v; request names %v", n, path, P[n] != nil, occ, c.Names), nil
				}
			}
			for n := range G {
				if !req[n] {
					kind := "unrequested-name"
					for rn := range req {
						if rn.Space == "" && rn.Local == n.Local {
							kind = "no-namespace-name|unrequested-name"
						}
					}
					return dev(cls+"|"+kind, "answer for %q contains %s which was not requested (%v)", path, n, c.Names), nil
				}
			}
		}
	}
	// (6) statelessness: after the backend's data has changed under the same paths, the handler that answered above
	// answers the same request exactly like a handler made just now over the same backend (nothing remembered from
	// earlier answers: per-handler caches keyed by path, by request body, ...)
	if w.perturb != nil {
		w.perturb()
		usedResp := serve(w, c.Target, c.Depth, b, ct)
		w2 := *w
		w2.h = w.fresh()
		freshResp := serve(&w2, c.Target, c.Depth, b, ct)
		if usedResp.Panic != nil || freshResp.Panic != nil {
			return dev(cls+"|panic", "panic after the backend changed: %v / %v", usedResp.Panic, freshResp.Panic), nil
		}
		if usedResp.Status != freshResp.Status {
			return dev(cls+"|stateful-handler|status", "after the backend's data changed the used handler answers %d, a fresh one %d", usedResp.Status, freshResp.Status), nil
		}
		if usedResp.Status == 207 {
			g1, o1, e1 := read(usedResp, cls)
			g2, o2, e2 := read(freshResp, cls)
			if e1.OK() && e2.OK() && (!reflect.DeepEqual(o1, o2) || !reflect.DeepEqual(g1, g2)) {
				return dev(cls+"|stateful-handler|content", "after the backend's data changed the used handler answers\n%.600s\na fresh handler over the same backend\n%.600s", usedResp.Body, freshResp.Body), nil
			}
		}
	}
	return vev.Outcome{}, nil
}

func names(m map[vx.Name][]found) []string {
	var l []string
	for n := range m {
		l = append(l, n.String())
	}
	sort.Strings(l)
	return l
}

func dflt(s string) string {
	if s == "" {
		return "unset"
	}
	return s
}

// ---------------------------------------------------------------------------

var namePool = []PName{
	{vdav.NSDAV, "resourcetype", 0}, {vdav.NSDAV, "displayname", 0}, {vdav.NSDAV, "getetag", 0}, {vdav.NSDAV, "getcontentlength", 0}, {vdav.NSDAV, "getcontenttype", 0}, {vdav.NSDAV, "getlastmodified", 0}, {vdav.NSDAV, "current-user-principal", 0},
	{vdav.NSCal, "calendar-home-set", 0}, {vdav.NSCal, "calendar-description", 0}, {vdav.NSCal, "supported-calendar-data", 0}, {vdav.NSCal, "supported-calendar-component-set", 0}, {vdav.NSCal, "max-resource-size", 0}, {vdav.NSCal, "calendar-data", 0},
	{vdav.NSCard, "addressbook-home-set", 0}, {vdav.NSCard, "addressbook-description", 0}, {vdav.NSCard, "supported-address-data", 0}, {vdav.NSCard, "max-resource-size", 0}, {vdav.NSCard, "address-data", 0},
	{vdav.NSDAV, "owner", 0}, {vdav.NSDAV, "quota-used-bytes", 0}, {vdav.NSDAV, "foo", 0}, {"urn:x", "bar", 0}, {"http://example.org/ns", "baz", 0}, {"urn:x", "getetag", 0}, {vdav.NSCal, "getetag", 0}, {"", "plain", 0},
}

func genObj(rt *rapid.T, i int) Obj {
	o := Obj{Name: fmt.Sprintf("%s%d", rapid.SampledFrom([]string{"o", "a b", "é", "x%20y"}).Draw(rt, "oname"), i)}
	if rapid.Bool().Draw(rt, "hasetag") {
		o.ETag = rapid.SampledFrom([]string{"e1", `q"uote`, "é"}).Draw(rt, "etag")
	}
	if rapid.Bool().Draw(rt, "hasmtime") {
		o.MTime = rapid.Int64Range(1, 2e9).Draw(rt, "mtime")
	}
	if rapid.Bool().Draw(rt, "haslen") {
		o.Length = rapid.Int64Range(1, 1e6).Draw(rt, "len")
	}
	return o
}

func genColls(rt *rapid.T) []Coll {
	n := rapid.IntRange(0, 4).Draw(rt, "ncolls")
	var l []Coll
	for i := 0; i < n; i++ {
		c := Coll{Name: fmt.Sprintf("%s%d", rapid.SampledFrom([]string{"c", "work", "a b", "é"}).Draw(rt, "cname"), i)}
		if rapid.Bool().Draw(rt, "hasdisplay") {
			c.Display = rapid.SampledFrom([]string{"Work", "a<b&c", "é"}).Draw(rt, "display")
		}
		if rapid.Bool().Draw(rt, "hasdesc") {
			c.Desc = "desc"
		}
		if rapid.Bool().Draw(rt, "hasmax") {
			c.MaxSize = 1000
		}
		if rapid.Bool().Draw(rt, "hascomps") {
			c.Comps = []string{"VEVENT", "VTODO"}
		}
		m := rapid.IntRange(0, 4).Draw(rt, "nobjs")
		for j := 0; j < m; j++ {
			c.Objs = append(c.Objs, genObj(rt, j))
		}
		l = append(l, c)
	}
	return l
}

func genTree(rt *rapid.T, depth int) []Obj {
	n := rapid.IntRange(0, 3).Draw(rt, "nkids")
	var l []Obj
	for i := 0; i < n; i++ {
		o := genObj(rt, i)
		o.MIME = rapid.SampledFrom([]string{"", "text/plain"}).Draw(rt, "mime")
		if depth > 0 && rapid.IntRange(0, 2).Draw(rt, "isdir") == 0 {
			o.IsDir = true
			o.Name = fmt.Sprintf("d%d", i)
			o.Kids = genTree(rt, depth-1)
		}
		l = append(l, o)
	}
	return l
}

func targets(c Case) []string {
	switch c.Server {
	case "principal":
		return []string{principal, "/anything/else"}
	case "webdav":
		l := []string{"/"}
		var walk func(prefix string, objs []Obj)
		walk = func(prefix string, objs []Obj) {
			for _, o := range objs {
				l = append(l, prefix+o.Name)
				if o.IsDir {
					walk(prefix+o.Name+"/", o.Kids)
				}
			}
		}
		walk("/", c.Tree)
		return l
	}
	l := []string{"/dav/", "/dav", principal, home}
	for _, cl := range c.Colls {
		l = append(l, collPath(cl))
		for _, o := range cl.Objs {
			l = append(l, objPath(cl, o))
		}
	}
	return l
}

func nontrivial(c Case, w *world) bool {
	scope, _, _ := w.scope(c.Target, c.Depth)
	switch c.Form {
	case "prop":
		if c.Depth == "0" || len(scope) < 2 {
			return false
		}
		sup, unsup := false, false
		for _, n := range c.Names {
			if n.Space == vdav.NSDAV && (n.Local == "resourcetype" || n.Local == "getcontenttype" || n.Local == "current-user-principal") {
				sup = true
			}
			if n.Local == "foo" || n.Local == "bar" || n.Local == "baz" || n.Local == "owner" {
				unsup = true
			}
		}
		return sup && unsup
	case "allprop", "propname", "empty":
		return len(scope) >= 2
	}
	return false
}

func run(t *testing.T, rt *rapid.T, c Case) {
	w := build(c)
	nt := nontrivial(c, w)
	if w.cleanup != nil {
		w.cleanup()
	}
	srv := c.Server
	if c.Local > 0 {
		srv = fmt.Sprintf("webdav-local%d", c.Local)
	}
	rec.Case(srv+"/"+c.Form+"/depth="+dflt(c.Depth), nt, mustJSON(c), func() any { return c })
	o, err := evaluate(c)
	if err != nil {
		rt.Fatalf("harness: %v", err)
	}
	if o.OK() || rec.Known(o.Sig) {
		return
	}
	rec.Fail(rt, o.Sig, "c11", c, "%s", o.Msg)
}

func TestAReplay(t *testing.T) {
	vev.RunReplays(t, rec, func(kind string, raw json.RawMessage) (vev.Outcome, error) {
		var c Case
		if err := json.Unmarshal(raw, &c); err != nil {
			return vev.Outcome{}, err
		}
		return evaluate(c)
	})
}

// distinct names whose namespace and local part concatenate to the same text, or that differ from a known property
// only in where the namespace ends (after C11-s18): each is a property of its own
var twinPool = [][2]PName{
	{{"urn:x:a", "bc", 0}, {"urn:x:ab", "c", 0}},
	{{"urn:x", "bar", 0}, {"urn:", "xbar", 0}},
	{{vdav.NSDAV, "getetag", 0}, {vdav.NSDAV + "get", "etag", 0}},
	{{vdav.NSDAV, "resourcetype", 0}, {vdav.NSDAV + "resource", "type", 0}},
	{{vdav.NSCal, "calendar-description", 0}, {vdav.NSCal + "calendar-", "description", 0}},
	{{vdav.NSCard, "addressbook-description", 0}, {vdav.NSCard + "addressbook-", "description", 0}},
	{{"urn:x", "foo", 0}, {"urn:x ", "foo", 0}},
	{{"urn:x", "bar", 0}, {"URN:X", "bar", 0}},
}

func TestPropfind(t *testing.T) {
	if vev.ReplayFile() != "" {
		t.Skip()
	}
	vev.Rapid(t, rec, 0, vev.N(8000, 300000), func(rt *rapid.T) {
		c := Case{Server: rapid.SampledFrom([]string{"webdav", "caldav", "caldav", "carddav", "carddav", "principal"}).Draw(rt, "server")}
		switch c.Server {
		case "webdav":
			c.Tree = genTree(rt, 2)
			c.Local = rapid.SampledFrom([]int{0, 0, 1, 2, 2}).Draw(rt, "local")
		case "caldav", "carddav":
			c.Colls = genColls(rt)
		}
		c.Alt = rapid.IntRange(0, 2).Draw(rt, "altnames") == 0
		setLayout(c.Alt)
		c.Target = rapid.SampledFrom(targets(c)).Draw(rt, "target")
		c.Form = rapid.SampledFrom([]string{"prop", "prop", "prop", "propname", "allprop", "allprop+include", "empty", "none"}).Draw(rt, "form")
		c.Depth = rapid.SampledFrom([]string{"", "0", "1", "infinity"}).Draw(rt, "depth")
		c.Lexical = rapid.SliceOfN(rapid.IntRange(0, 11), 24, 24).Draw(rt, "lexical")
		c.Chunked = rapid.IntRange(0, 3).Draw(rt, "chunked") == 0
		if c.Form == "prop" || c.Form == "allprop+include" {
			n := rapid.IntRange(0, 8).Draw(rt, "nnames")
			for i := 0; i < n; i++ {
				pn := rapid.SampledFrom(namePool).Draw(rt, "name")
				if rapid.IntRange(0, 5).Draw(rt, "fill?") == 0 {
					pn.Fill = rapid.IntRange(1, 3).Draw(rt, "fill")
				}
				c.Names = append(c.Names, pn)
			}
			if rapid.IntRange(0, 4).Draw(rt, "twins?") == 0 {
				tw := rapid.SampledFrom(twinPool).Draw(rt, "twins")
				if rapid.Bool().Draw(rt, "twins-swapped") {
					tw[0], tw[1] = tw[1], tw[0]
				}
				at := rapid.IntRange(0, len(c.Names)).Draw(rt, "twins-at")
				c.Names = append(c.Names[:at:at], append([]PName{tw[0]}, append(append([]PName{}, c.Names[at:]...), tw[1])...)...)
			}
		}
		run(t, rt, c)
	})
}

func mustJSON(v any) string {
	b, _ := json.Marshal(v)
	return string(b)
}
