package vdav

import (
	"fmt"
	"strconv"
	"strings"

	"github.com/emersion/go-webdav/verifharness/vx"
)

// ---------------------------------------------------------------------------
// mirror types (CardDAV, RFC 6352 section 10)

type CardTM struct {
	Text      string `json:"text"`
	Neg       bool   `json:"neg,omitempty"`
	NegAttr   string `json:"neg_attr,omitempty"`  // raw attribute value when set explicitly (may be invalid)
	Type      string `json:"type,omitempty"`      // "" = absent (contains)
	Collation string `json:"collation,omitempty"` // noise
}

type CardParamF struct {
	Name string  `json:"name"`
	IND  bool    `json:"ind,omitempty"`
	TM   *CardTM `json:"tm,omitempty"`
}

type CardPropF struct {
	Name   string       `json:"name"`
	Test   string       `json:"test,omitempty"` // "" = absent (anyof)
	IND    bool         `json:"ind,omitempty"`
	TMs    []CardTM     `json:"tms,omitempty"`
	Params []CardParamF `json:"params,omitempty"`
}

type AddrData struct {
	Present bool     `json:"present,omitempty"`
	AllProp bool     `json:"allprop,omitempty"`
	Props   []string `json:"props,omitempty"`
}

type CardQuery struct {
	Data       AddrData    `json:"data"`
	OtherProps []string    `json:"other_props,omitempty"`
	Test       string      `json:"test,omitempty"`
	PFs        []CardPropF `json:"pfs,omitempty"`
	Limit      *string     `json:"limit,omitempty"` // nresults text
}

type CardMultiGet struct {
	Data       AddrData `json:"data"`
	OtherProps []string `json:"other_props,omitempty"`
	Hrefs      []string `json:"hrefs"`
}

func card(local string, kids ...*vx.Node) *vx.Node { return vx.El(NSCard, local, kids...) }

func (t CardTM) node() *vx.Node {
	n := card("text-match")
	if t.Text != "" {
		n.Add(vx.T(t.Text))
	}
	if t.Collation != "" {
		n.With("", "collation", t.Collation)
	}
	switch {
	case t.NegAttr != "":
		n.With("", "negate-condition", t.NegAttr)
	case t.Neg:
		n.With("", "negate-condition", "yes")
	}
	if t.Type != "" {
		n.With("", "match-type", t.Type)
	}
	return n
}

func (f CardParamF) node() *vx.Node {
	n := card("param-filter").With("", "name", f.Name)
	if f.IND {
		n.Add(card("is-not-defined"))
	} else if f.TM != nil {
		n.Add(f.TM.node())
	}
	return n
}

func (f CardPropF) node() *vx.Node {
	n := card("prop-filter").With("", "name", f.Name)
	if f.Test != "" {
		n.With("", "test", f.Test)
	}
	if f.IND {
		return n.Add(card("is-not-defined"))
	}
	for _, t := range f.TMs {
		n.Add(t.node())
	}
	for _, p := range f.Params {
		n.Add(p.node())
	}
	return n
}

func (d AddrData) propNode(other []string) *vx.Node {
	if !d.Present && len(other) == 0 {
		return nil
	}
	p := dav("prop")
	for i, o := range other {
		if i%2 == 0 {
			p.Add(dav(o))
		}
	}
	if d.Present {
		ad := card("address-data")
		if d.AllProp {
			ad.Add(card("allprop"))
		}
		for _, name := range d.Props {
			ad.Add(card("prop").With("", "name", name))
		}
		p.Add(ad)
	}
	for i, o := range other {
		if i%2 == 1 {
			p.Add(dav(o))
		}
	}
	return p
}

func (q CardQuery) Node() *vx.Node {
	n := card("addressbook-query")
	if p := q.Data.propNode(q.OtherProps); p != nil {
		n.Add(p)
	}
	f := card("filter")
	if q.Test != "" {
		f.With("", "test", q.Test)
	}
	for _, pf := range q.PFs {
		f.Add(pf.node())
	}
	n.Add(f)
	if q.Limit != nil {
		n.Add(card("limit", card("nresults", vx.T(*q.Limit))))
	}
	return n
}

func (m CardMultiGet) Node(hrefText func(string) string) *vx.Node {
	n := card("addressbook-multiget")
	if p := m.Data.propNode(m.OtherProps); p != nil {
		n.Add(p)
	}
	for _, h := range m.Hrefs {
		n.Add(dav("href", vx.T(hrefText(h))))
	}
	return n
}

// ---------------------------------------------------------------------------
// reader

func validTest(s string) bool { return s == "anyof" || s == "allof" }
func validMatchType(s string) bool {
	return s == "equals" || s == "contains" || s == "starts-with" || s == "ends-with"
}

func readCardTM(n *vx.Node) (CardTM, error) {
	var t CardTM
	if err := attrsOnly(n, "collation", "negate-condition", "match-type"); err != nil {
		return t, err
	}
	if len(n.Elems()) != 0 {
		return t, fmt.Errorf("text-match has child elements")
	}
	t.Text = n.TextContent()
	t.Collation, _ = n.Attr("", "collation")
	if v, ok := n.Attr("", "negate-condition"); ok {
		switch v {
		case "yes":
			t.Neg = true
		case "no":
		default:
			return t, fmt.Errorf("negate-condition=%q", v)
		}
	}
	if v, ok := n.Attr("", "match-type"); ok {
		if !validMatchType(v) {
			return t, fmt.Errorf("match-type=%q", v)
		}
		t.Type = v
	}
	return t, nil
}

func readCardParamF(n *vx.Node) (CardParamF, error) {
	var f CardParamF
	if err := attrsOnly(n, "name"); err != nil {
		return f, err
	}
	name, ok := n.Attr("", "name")
	if !ok {
		return f, fmt.Errorf("param-filter without name")
	}
	f.Name = name
	kids := n.Elems()
	switch {
	case len(kids) == 0:
	case len(kids) == 1 && is(kids[0], NSCard, "is-not-defined"):
		f.IND = true
	case len(kids) == 1 && is(kids[0], NSCard, "text-match"):
		tm, err := readCardTM(kids[0])
		if err != nil {
			return f, err
		}
		f.TM = &tm
	default:
		return f, fmt.Errorf("param-filter content not (is-not-defined | text-match)?")
	}
	return f, nil
}

func readCardPropF(n *vx.Node) (CardPropF, error) {
	var f CardPropF
	if err := attrsOnly(n, "name", "test"); err != nil {
		return f, err
	}
	name, ok := n.Attr("", "name")
	if !ok {
		return f, fmt.Errorf("prop-filter without name")
	}
	f.Name = name
	if v, ok := n.Attr("", "test"); ok {
		if !validTest(v) {
			return f, fmt.Errorf("prop-filter test=%q", v)
		}
		f.Test = v
	}
	if err := noText(n); err != nil {
		return f, err
	}
	kids := n.Elems()
	if len(kids) == 1 && is(kids[0], NSCard, "is-not-defined") {
		f.IND = true
		return f, nil
	}
	if err := order(n, NSCard, "text-match*", "param-filter*"); err != nil {
		return f, err
	}
	for _, k := range kids {
		if k.Name.Local == "text-match" {
			tm, err := readCardTM(k)
			if err != nil {
				return f, err
			}
			f.TMs = append(f.TMs, tm)
		} else {
			p, err := readCardParamF(k)
			if err != nil {
				return f, err
			}
			f.Params = append(f.Params, p)
		}
	}
	return f, nil
}

func readAddrProp(p *vx.Node) (AddrData, []string, error) {
	var d AddrData
	var other []string
	for _, k := range p.Elems() {
		if is(k, NSCard, "address-data") {
			if d.Present {
				return d, nil, fmt.Errorf("two address-data elements")
			}
			d.Present = true
			if err := attrsOnly(k, "content-type", "version"); err != nil {
				return d, nil, err
			}
			for _, c := range k.Elems() {
				switch {
				case is(c, NSCard, "allprop") && !d.AllProp && len(d.Props) == 0:
					d.AllProp = true
				case is(c, NSCard, "prop") && !d.AllProp:
					if err := attrsOnly(c, "name", "novalue"); err != nil {
						return d, nil, err
					}
					name, ok := c.Attr("", "name")
					if !ok {
						return d, nil, fmt.Errorf("prop without name")
					}
					d.Props = append(d.Props, name)
				default:
					return d, nil, fmt.Errorf("address-data: unexpected child <%s> (DTD: allprop | prop*)", c.Name)
				}
			}
			continue
		}
		if k.Name.Space == NSDAV {
			other = append(other, k.Name.Local)
		} else {
			other = append(other, k.Name.String())
		}
	}
	return d, other, nil
}

func addrSelection(kids []*vx.Node) (AddrData, []string, int, error) {
	if len(kids) > 0 && is(kids[0], NSDAV, "prop") {
		d, o, err := readAddrProp(kids[0])
		return d, o, 1, err
	}
	if len(kids) > 0 && (is(kids[0], NSDAV, "allprop") || is(kids[0], NSDAV, "propname")) {
		return AddrData{}, []string{"<" + kids[0].Name.Local + ">"}, 1, nil
	}
	return AddrData{}, nil, 0, nil
}

func ReadAddressbookQuery(root *vx.Node) (CardQuery, error) {
	var q CardQuery
	if !is(root, NSCard, "addressbook-query") {
		return q, fmt.Errorf("root is %s, not {%s}addressbook-query", root.Name, NSCard)
	}
	kids := root.Elems()
	d, o, i, err := addrSelection(kids)
	if err != nil {
		return q, err
	}
	q.Data, q.OtherProps = d, o
	if i >= len(kids) || !is(kids[i], NSCard, "filter") {
		return q, fmt.Errorf("addressbook-query: expected filter at child %d", i)
	}
	f := kids[i]
	if err := attrsOnly(f, "test"); err != nil {
		return q, err
	}
	if v, ok := f.Attr("", "test"); ok {
		if !validTest(v) {
			return q, fmt.Errorf("filter test=%q", v)
		}
		q.Test = v
	}
	for _, k := range f.Elems() {
		if !is(k, NSCard, "prop-filter") {
			return q, fmt.Errorf("filter: unexpected child <%s>", k.Name)
		}
		pf, err := readCardPropF(k)
		if err != nil {
			return q, err
		}
		q.PFs = append(q.PFs, pf)
	}
	i++
	if i < len(kids) && is(kids[i], NSCard, "limit") {
		lk := kids[i].Elems()
		if len(lk) != 1 || !is(lk[0], NSCard, "nresults") {
			return q, fmt.Errorf("limit must hold exactly one nresults")
		}
		txt := strings.TrimSpace(lk[0].TextContent())
		if _, err := strconv.ParseUint(txt, 10, 64); err != nil {
			return q, fmt.Errorf("nresults %q", txt)
		}
		q.Limit = &txt
		i++
	}
	if i != len(kids) {
		return q, fmt.Errorf("addressbook-query: unexpected or misplaced child <%s>", kids[i].Name)
	}
	return q, nil
}

func ReadAddressbookMultiGet(root *vx.Node, decodeHref func(string) (string, error)) (CardMultiGet, error) {
	var m CardMultiGet
	if !is(root, NSCard, "addressbook-multiget") {
		return m, fmt.Errorf("root is %s, not {%s}addressbook-multiget", root.Name, NSCard)
	}
	kids := root.Elems()
	d, o, i, err := addrSelection(kids)
	if err != nil {
		return m, err
	}
	m.Data, m.OtherProps = d, o
	if i >= len(kids) {
		return m, fmt.Errorf("addressbook-multiget without href")
	}
	for ; i < len(kids); i++ {
		if !is(kids[i], NSDAV, "href") {
			return m, fmt.Errorf("addressbook-multiget: unexpected or misplaced child <%s> (DTD: selection first, then href+)", kids[i].Name)
		}
		h, err := decodeHref(kids[i].TextContent())
		if err != nil {
			return m, err
		}
		m.Hrefs = append(m.Hrefs, h)
	}
	return m, nil
}
