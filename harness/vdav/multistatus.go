package vdav

import (
	"fmt"
	"net/url"
	"regexp"
	"strconv"
	"strings"

	"github.com/emersion/go-webdav/verifharness/vx"
)

// ---------------------------------------------------------------------------
// multi-status (RFC 4918 section 14, RFC 6578 sync-token)

type PropStat struct {
	Code  int        `json:"code"`
	Text  string     `json:"text,omitempty"` // full status text when non-standard
	Props []*vx.Node `json:"-"`
	Error *vx.Node   `json:"-"`
	Desc  string     `json:"desc,omitempty"`
}

type Response struct {
	Hrefs     []string   `json:"hrefs"` // raw href texts
	PropStats []PropStat `json:"propstats,omitempty"`
	Status    *int       `json:"status,omitempty"`
	Error     *vx.Node   `json:"-"`
	Desc      string     `json:"desc,omitempty"`
	Location  string     `json:"location,omitempty"`
}

type MultiStatus struct {
	Responses []Response `json:"responses"`
	Desc      string     `json:"desc,omitempty"`
	SyncToken string     `json:"sync_token,omitempty"`
}

var statusRe = regexp.MustCompile(`^HTTP/[0-9]\.[0-9] ([0-9]{3}) (.*)$`)

func parseStatus(s string) (int, error) {
	// exact: the reason phrase may be empty (RFC 7230 section 3.1.2), the SP in front of it may not be missing
	m := statusRe.FindStringSubmatch(s)
	if m == nil {
		return 0, fmt.Errorf("status %q is not 'HTTP-version SP 3DIGIT SP reason'", s)
	}
	return strconv.Atoi(m[1])
}

// HrefPath decodes an href text to a path (absolute-URI and absolute-path forms).
func HrefPath(h string) (string, error) {
	u, err := url.Parse(strings.TrimSpace(h))
	if err != nil {
		return "", err
	}
	return u.Path, nil
}

func ReadMultiStatus(root *vx.Node) (MultiStatus, error) {
	var ms MultiStatus
	if !is(root, NSDAV, "multistatus") {
		return ms, fmt.Errorf("root is %s, not {DAV:}multistatus", root.Name)
	}
	stage := 0
	for _, k := range root.Elems() {
		switch {
		case is(k, NSDAV, "response") && stage == 0:
			r, err := readResponse(k)
			if err != nil {
				return ms, err
			}
			ms.Responses = append(ms.Responses, r)
		case is(k, NSDAV, "responsedescription") && stage <= 1:
			stage = 2
			ms.Desc = k.TextContent()
		case is(k, NSDAV, "sync-token"):
			stage = 2
			ms.SyncToken = k.TextContent()
		default:
			return ms, fmt.Errorf("multistatus: unexpected or misplaced child <%s>", k.Name)
		}
	}
	return ms, nil
}

func readResponse(n *vx.Node) (Response, error) {
	var r Response
	kids := n.Elems()
	i := 0
	for ; i < len(kids) && is(kids[i], NSDAV, "href"); i++ {
		if len(kids[i].Elems()) != 0 {
			return r, fmt.Errorf("href with child elements")
		}
		r.Hrefs = append(r.Hrefs, kids[i].TextContent())
	}
	if len(r.Hrefs) == 0 {
		return r, fmt.Errorf("response without href")
	}
	switch {
	case i < len(kids) && is(kids[i], NSDAV, "status"):
		c, err := parseStatus(kids[i].TextContent())
		if err != nil {
			return r, err
		}
		r.Status = &c
		i++
	case i < len(kids) && is(kids[i], NSDAV, "propstat"):
		if len(r.Hrefs) != 1 {
			return r, fmt.Errorf("response with propstat must have exactly one href, has %d", len(r.Hrefs))
		}
		for ; i < len(kids) && is(kids[i], NSDAV, "propstat"); i++ {
			ps, err := readPropStat(kids[i])
			if err != nil {
				return r, err
			}
			r.PropStats = append(r.PropStats, ps)
		}
	}
	for ; i < len(kids); i++ {
		k := kids[i]
		switch {
		case is(k, NSDAV, "error") && r.Error == nil && r.Desc == "" && r.Location == "":
			r.Error = k
		case is(k, NSDAV, "responsedescription") && r.Location == "":
			r.Desc = k.TextContent()
		case is(k, NSDAV, "location"):
			h := k.First(NSDAV, "href")
			if h == nil {
				return r, fmt.Errorf("location without href")
			}
			r.Location = h.TextContent()
		default:
			return r, fmt.Errorf("response: unexpected or misplaced child <%s>", k.Name)
		}
	}
	return r, nil
}

func readPropStat(n *vx.Node) (PropStat, error) {
	var ps PropStat
	kids := n.Elems()
	if len(kids) < 2 || !is(kids[0], NSDAV, "prop") || !is(kids[1], NSDAV, "status") {
		return ps, fmt.Errorf("propstat must start with prop, status")
	}
	ps.Props = kids[0].Elems()
	c, err := parseStatus(kids[1].TextContent())
	if err != nil {
		return ps, err
	}
	ps.Code = c
	for _, k := range kids[2:] {
		switch {
		case is(k, NSDAV, "error") && ps.Error == nil && ps.Desc == "":
			ps.Error = k
		case is(k, NSDAV, "responsedescription"):
			ps.Desc = k.TextContent()
		default:
			return ps, fmt.Errorf("propstat: unexpected or misplaced child <%s>", k.Name)
		}
	}
	return ps, nil
}

// ---------------------------------------------------------------------------
// writer

func StatusText(code int, phrase string) string {
	if phrase == "" {
		phrase = map[int]string{200: "OK", 201: "Created", 204: "No Content", 207: "Multi-Status", 403: "Forbidden", 404: "Not Found", 409: "Conflict", 423: "Locked", 500: "Internal Server Error", 507: "Insufficient Storage"}[code]
		if phrase == "" {
			phrase = "Status"
		}
	}
	return fmt.Sprintf("HTTP/1.1 %03d %s", code, phrase)
}

func (ms MultiStatus) Node() *vx.Node {
	n := dav("multistatus")
	for _, r := range ms.Responses {
		rn := dav("response")
		for _, h := range r.Hrefs {
			rn.Add(dav("href", vx.T(h)))
		}
		if r.Status != nil {
			rn.Add(dav("status", vx.T(StatusText(*r.Status, ""))))
		}
		for _, ps := range r.PropStats {
			p := dav("prop")
			p.Add(ps.Props...)
			st := ps.Text
			if st == "" {
				st = StatusText(ps.Code, "")
			}
			psn := dav("propstat", p, dav("status", vx.T(st)))
			if ps.Error != nil {
				psn.Add(ps.Error)
			}
			if ps.Desc != "" {
				psn.Add(dav("responsedescription", vx.T(ps.Desc)))
			}
			rn.Add(psn)
		}
		if r.Error != nil {
			rn.Add(r.Error)
		}
		if r.Desc != "" {
			rn.Add(dav("responsedescription", vx.T(r.Desc)))
		}
		if r.Location != "" {
			rn.Add(dav("location", dav("href", vx.T(r.Location))))
		}
		n.Add(rn)
	}
	if ms.Desc != "" {
		n.Add(dav("responsedescription", vx.T(ms.Desc)))
	}
	if ms.SyncToken != "" {
		n.Add(dav("sync-token", vx.T(ms.SyncToken)))
	}
	return n
}
