// Package vdav holds readers and writers for the DAV documents of RFC 4918,
// RFC 4791, RFC 6352 and RFC 6578, written from the RFC DTDs on top of vx and
// sharing nothing with go-webdav.  Readers can check child order strictly.
package vdav

import (
	"fmt"
	"strings"
	"time"

	"github.com/emersion/go-webdav/verifharness/vx"
)

const (
	NSDAV  = "DAV:"
	NSCal  = "urn:ietf:params:xml:ns:caldav"
	NSCard = "urn:ietf:params:xml:ns:carddav"
)

// ---------------------------------------------------------------------------
// mirror types (CalDAV)

type TextMatch struct {
	Text      string `json:"text"`
	Neg       bool   `json:"neg,omitempty"`
	Collation string `json:"collation,omitempty"`
}

type ParamF struct {
	Name string     `json:"name"`
	IND  bool       `json:"ind,omitempty"`
	TM   *TextMatch `json:"tm,omitempty"`
}

type PropF struct {
	Name   string     `json:"name"`
	IND    bool       `json:"ind,omitempty"`
	Start  *int64     `json:"start,omitempty"`
	End    *int64     `json:"end,omitempty"`
	TM     *TextMatch `json:"tm,omitempty"`
	Params []ParamF   `json:"params,omitempty"`
}

type CompF struct {
	Name  string  `json:"name"`
	IND   bool    `json:"ind,omitempty"`
	Start *int64  `json:"start,omitempty"`
	End   *int64  `json:"end,omitempty"`
	Props []PropF `json:"props,omitempty"`
	Comps []CompF `json:"comps,omitempty"`
}

type CompReq struct {
	Name     string    `json:"name"`
	AllProps bool      `json:"allprops,omitempty"`
	Props    []string  `json:"props,omitempty"`
	AllComps bool      `json:"allcomps,omitempty"`
	Comps    []CompReq `json:"comps,omitempty"`
}

// CalData is the calendar-data request inside DAV:prop.
type CalData struct {
	Present bool      `json:"present,omitempty"`
	Comp    *CompReq  `json:"comp,omitempty"`
	Expand  *[2]int64 `json:"expand,omitempty"`
	// noise the public type cannot express (must not disturb the rest)
	LimitRecurrence *[2]int64 `json:"limit_recurrence,omitempty"`
}

type CalQuery struct {
	Data       CalData  `json:"data"`
	OtherProps []string `json:"other_props,omitempty"` // DAV: property names requested besides calendar-data
	Filter     CompF    `json:"filter"`
	Timezone   string   `json:"timezone,omitempty"` // noise
}

type CalMultiGet struct {
	Data       CalData  `json:"data"`
	OtherProps []string `json:"other_props,omitempty"`
	Hrefs      []string `json:"hrefs"`
}

const calTimeLayout = "20060102T150405Z"

func fmtTime(v int64) string { return time.Unix(v, 0).UTC().Format(calTimeLayout) }

func parseTime(s string) (int64, error) {
	if len(s) != len(calTimeLayout) {
		return 0, fmt.Errorf("not a UTC date-time: %q", s)
	}
	t, err := time.Parse(calTimeLayout, s)
	return t.Unix(), err
}

// ---------------------------------------------------------------------------
// writer (mirror -> vx tree)

func cal(local string, kids ...*vx.Node) *vx.Node { return vx.El(NSCal, local, kids...) }
func dav(local string, kids ...*vx.Node) *vx.Node { return vx.El(NSDAV, local, kids...) }

func timeRange(name string, s, e *int64) *vx.Node {
	n := cal(name)
	if s != nil {
		n.With("", "start", fmtTime(*s))
	}
	if e != nil {
		n.With("", "end", fmtTime(*e))
	}
	return n
}

func tmNode(ns string, tm *TextMatch) *vx.Node {
	n := vx.El(ns, "text-match")
	if tm.Text != "" {
		n.Add(vx.T(tm.Text))
	}
	if tm.Collation != "" {
		n.With("", "collation", tm.Collation)
	}
	if tm.Neg {
		n.With("", "negate-condition", "yes")
	}
	return n
}

func (f ParamF) node() *vx.Node {
	n := cal("param-filter").With("", "name", f.Name)
	if f.IND {
		n.Add(cal("is-not-defined"))
	} else if f.TM != nil {
		n.Add(tmNode(NSCal, f.TM))
	}
	return n
}

func (f PropF) node() *vx.Node {
	n := cal("prop-filter").With("", "name", f.Name)
	if f.IND {
		return n.Add(cal("is-not-defined"))
	}
	if f.Start != nil || f.End != nil {
		n.Add(timeRange("time-range", f.Start, f.End))
	} else if f.TM != nil {
		n.Add(tmNode(NSCal, f.TM))
	}
	for _, p := range f.Params {
		n.Add(p.node())
	}
	return n
}

func (f CompF) node() *vx.Node {
	n := cal("comp-filter").With("", "name", f.Name)
	if f.IND {
		return n.Add(cal("is-not-defined"))
	}
	if f.Start != nil || f.End != nil {
		n.Add(timeRange("time-range", f.Start, f.End))
	}
	for _, p := range f.Props {
		n.Add(p.node())
	}
	for _, c := range f.Comps {
		n.Add(c.node())
	}
	return n
}

func (r CompReq) node() *vx.Node {
	n := cal("comp").With("", "name", r.Name)
	if r.AllProps {
		n.Add(cal("allprop"))
	}
	for _, p := range r.Props {
		n.Add(cal("prop").With("", "name", p))
	}
	if r.AllComps {
		n.Add(cal("allcomp"))
	}
	for _, c := range r.Comps {
		n.Add(c.node())
	}
	return n
}

func (d CalData) propNode(other []string) *vx.Node {
	if !d.Present && len(other) == 0 {
		return nil
	}
	p := dav("prop")
	for i, o := range other {
		if i%2 == 0 {
			p.Add(dav(o))
		}
	}
	if d.Present {
		cd := cal("calendar-data")
		if d.Comp != nil {
			cd.Add(d.Comp.node())
		}
		if d.Expand != nil {
			cd.Add(timeRange("expand", &d.Expand[0], &d.Expand[1]))
		} else if d.LimitRecurrence != nil {
			cd.Add(timeRange("limit-recurrence-set", &d.LimitRecurrence[0], &d.LimitRecurrence[1]))
		}
		p.Add(cd)
	}
	for i, o := range other {
		if i%2 == 1 {
			p.Add(dav(o))
		}
	}
	return p
}

func (q CalQuery) Node() *vx.Node {
	n := cal("calendar-query")
	if p := q.Data.propNode(q.OtherProps); p != nil {
		n.Add(p)
	}
	n.Add(cal("filter", q.Filter.node()))
	if q.Timezone != "" {
		n.Add(cal("timezone", vx.T(q.Timezone)))
	}
	return n
}

func (m CalMultiGet) Node(hrefText func(string) string) *vx.Node {
	n := cal("calendar-multiget")
	if p := m.Data.propNode(m.OtherProps); p != nil {
		n.Add(p)
	}
	for _, h := range m.Hrefs {
		n.Add(dav("href", vx.T(hrefText(h))))
	}
	return n
}

// ---------------------------------------------------------------------------
// reader (vx tree -> mirror), order-strict per the RFC 4791 DTD

type reader struct{ strict bool }

func is(n *vx.Node, ns, local string) bool { return n.Name.Space == ns && n.Name.Local == local }

func attrsOnly(n *vx.Node, allowed ...string) error {
	for _, a := range n.Attrs {
		ok := false
		for _, al := range allowed {
			if a.Name.Space == "" && a.Name.Local == al {
				ok = true
			}
		}
		if !ok {
			return fmt.Errorf("unexpected attribute %s on <%s>", a.Name, n.Name.Local)
		}
	}
	return nil
}

func noText(n *vx.Node) error {
	if strings.TrimSpace(n.TextContent()) != "" {
		return fmt.Errorf("unexpected character data %q in <%s>", n.TextContent(), n.Name.Local)
	}
	return nil
}

func readTM(n *vx.Node) (*TextMatch, error) {
	if err := attrsOnly(n, "collation", "negate-condition", "match-type"); err != nil {
		return nil, err
	}
	if len(n.Elems()) != 0 {
		return nil, fmt.Errorf("text-match has child elements")
	}
	tm := &TextMatch{Text: n.TextContent()}
	tm.Collation, _ = n.Attr("", "collation")
	if v, ok := n.Attr("", "negate-condition"); ok {
		switch v {
		case "yes":
			tm.Neg = true
		case "no":
		default:
			return nil, fmt.Errorf("negate-condition=%q", v)
		}
	}
	return tm, nil
}

func readRange(n *vx.Node, both bool) (s, e *int64, err error) {
	if err := attrsOnly(n, "start", "end"); err != nil {
		return nil, nil, err
	}
	if len(n.Children) != 0 && strings.TrimSpace(n.TextContent()) != "" {
		return nil, nil, fmt.Errorf("%s is not empty", n.Name.Local)
	}
	if v, ok := n.Attr("", "start"); ok {
		t, err := parseTime(v)
		if err != nil {
			return nil, nil, err
		}
		s = &t
	}
	if v, ok := n.Attr("", "end"); ok {
		t, err := parseTime(v)
		if err != nil {
			return nil, nil, err
		}
		e = &t
	}
	if s == nil && e == nil || both && (s == nil || e == nil) {
		return nil, nil, fmt.Errorf("%s lacks start/end", n.Name.Local)
	}
	return s, e, nil
}

// order checks that the element children follow the given sequence of names
// (each entry "name" / "name?" / "name*"), all in namespace ns.
func order(n *vx.Node, ns string, seq ...string) error {
	kids := n.Elems()
	i := 0
	for _, s := range seq {
		name := strings.TrimRight(s, "?*+")
		count := 0
		for i < len(kids) && is(kids[i], ns, name) {
			i++
			count++
			if !strings.HasSuffix(s, "*") && !strings.HasSuffix(s, "+") {
				break
			}
		}
		if count == 0 && !strings.HasSuffix(s, "?") && !strings.HasSuffix(s, "*") {
			return fmt.Errorf("<%s>: expected <%s> at child %d", n.Name.Local, name, i)
		}
	}
	if i != len(kids) {
		return fmt.Errorf("<%s>: unexpected or misplaced child <%s> at position %d", n.Name.Local, kids[i].Name, i)
	}
	return nil
}

func readParamF(n *vx.Node) (ParamF, error) {
	f := ParamF{}
	if err := attrsOnly(n, "name"); err != nil {
		return f, err
	}
	name, ok := n.Attr("", "name")
	if !ok {
		return f, fmt.Errorf("param-filter without name")
	}
	f.Name = name
	if err := noText(n); err != nil {
		return f, err
	}
	kids := n.Elems()
	switch {
	case len(kids) == 0:
	case len(kids) == 1 && is(kids[0], NSCal, "is-not-defined"):
		f.IND = true
	case len(kids) == 1 && is(kids[0], NSCal, "text-match"):
		tm, err := readTM(kids[0])
		if err != nil {
			return f, err
		}
		f.TM = tm
	default:
		return f, fmt.Errorf("param-filter content not (is-not-defined | text-match)?")
	}
	return f, nil
}

func readPropF(n *vx.Node) (PropF, error) {
	f := PropF{}
	if err := attrsOnly(n, "name"); err != nil {
		return f, err
	}
	name, ok := n.Attr("", "name")
	if !ok {
		return f, fmt.Errorf("prop-filter without name")
	}
	f.Name = name
	if err := noText(n); err != nil {
		return f, err
	}
	kids := n.Elems()
	if len(kids) == 1 && is(kids[0], NSCal, "is-not-defined") {
		f.IND = true
		return f, nil
	}
	i := 0
	if i < len(kids) && is(kids[i], NSCal, "time-range") {
		s, e, err := readRange(kids[i], false)
		if err != nil {
			return f, err
		}
		f.Start, f.End = s, e
		i++
	} else if i < len(kids) && is(kids[i], NSCal, "text-match") {
		tm, err := readTM(kids[i])
		if err != nil {
			return f, err
		}
		f.TM = tm
		i++
	}
	for ; i < len(kids); i++ {
		if !is(kids[i], NSCal, "param-filter") {
			return f, fmt.Errorf("prop-filter: unexpected or misplaced child <%s>", kids[i].Name)
		}
		p, err := readParamF(kids[i])
		if err != nil {
			return f, err
		}
		f.Params = append(f.Params, p)
	}
	return f, nil
}

func readCompF(n *vx.Node) (CompF, error) {
	f := CompF{}
	if err := attrsOnly(n, "name"); err != nil {
		return f, err
	}
	name, ok := n.Attr("", "name")
	if !ok {
		return f, fmt.Errorf("comp-filter without name")
	}
	f.Name = name
	if err := noText(n); err != nil {
		return f, err
	}
	kids := n.Elems()
	if len(kids) == 1 && is(kids[0], NSCal, "is-not-defined") {
		f.IND = true
		return f, nil
	}
	if err := order(n, NSCal, "time-range?", "prop-filter*", "comp-filter*"); err != nil {
		return f, err
	}
	for _, k := range kids {
		switch k.Name.Local {
		case "time-range":
			s, e, err := readRange(k, false)
			if err != nil {
				return f, err
			}
			f.Start, f.End = s, e
		case "prop-filter":
			p, err := readPropF(k)
			if err != nil {
				return f, err
			}
			f.Props = append(f.Props, p)
		case "comp-filter":
			c, err := readCompF(k)
			if err != nil {
				return f, err
			}
			f.Comps = append(f.Comps, c)
		}
	}
	return f, nil
}

func readCompReq(n *vx.Node) (CompReq, error) {
	r := CompReq{}
	if err := attrsOnly(n, "name"); err != nil {
		return r, err
	}
	name, ok := n.Attr("", "name")
	if !ok {
		return r, fmt.Errorf("comp without name")
	}
	r.Name = name
	stage := 0 // 0 props, 1 comps
	for _, k := range n.Elems() {
		switch {
		case is(k, NSCal, "allprop") && stage == 0 && !r.AllProps && len(r.Props) == 0:
			r.AllProps = true
		case is(k, NSCal, "prop") && stage == 0 && !r.AllProps:
			if err := attrsOnly(k, "name", "novalue"); err != nil {
				return r, err
			}
			pn, ok := k.Attr("", "name")
			if !ok {
				return r, fmt.Errorf("prop without name")
			}
			r.Props = append(r.Props, pn)
		case is(k, NSCal, "allcomp") && !r.AllComps && len(r.Comps) == 0:
			stage = 1
			r.AllComps = true
		case is(k, NSCal, "comp") && !r.AllComps:
			stage = 1
			c, err := readCompReq(k)
			if err != nil {
				return r, err
			}
			r.Comps = append(r.Comps, c)
		default:
			return r, fmt.Errorf("comp: unexpected or misplaced child <%s>", k.Name)
		}
	}
	return r, nil
}

func readProp(p *vx.Node) (CalData, []string, error) {
	var d CalData
	var other []string
	for _, k := range p.Elems() {
		if is(k, NSCal, "calendar-data") {
			if d.Present {
				return d, nil, fmt.Errorf("two calendar-data elements")
			}
			d.Present = true
			if err := attrsOnly(k, "content-type", "version"); err != nil {
				return d, nil, err
			}
			kids := k.Elems()
			i := 0
			if i < len(kids) && is(kids[i], NSCal, "comp") {
				c, err := readCompReq(kids[i])
				if err != nil {
					return d, nil, err
				}
				d.Comp = &c
				i++
			}
			if i < len(kids) && is(kids[i], NSCal, "expand") {
				s, e, err := readRange(kids[i], true)
				if err != nil {
					return d, nil, err
				}
				d.Expand = &[2]int64{*s, *e}
				i++
			} else if i < len(kids) && is(kids[i], NSCal, "limit-recurrence-set") {
				s, e, err := readRange(kids[i], true)
				if err != nil {
					return d, nil, err
				}
				d.LimitRecurrence = &[2]int64{*s, *e}
				i++
			}
			if i < len(kids) && is(kids[i], NSCal, "limit-freebusy-set") {
				i++
			}
			if i != len(kids) {
				return d, nil, fmt.Errorf("calendar-data: unexpected or misplaced child <%s>", kids[i].Name)
			}
			continue
		}
		if k.Name.Space == NSDAV {
			other = append(other, k.Name.Local)
		} else {
			other = append(other, k.Name.String())
		}
	}
	return d, other, nil
}

// selection reads the (allprop | propname | prop)? head of a report.
func selection(kids []*vx.Node) (CalData, []string, int, error) {
	if len(kids) > 0 && is(kids[0], NSDAV, "prop") {
		d, o, err := readProp(kids[0])
		return d, o, 1, err
	}
	if len(kids) > 0 && (is(kids[0], NSDAV, "allprop") || is(kids[0], NSDAV, "propname")) {
		return CalData{}, []string{"<" + kids[0].Name.Local + ">"}, 1, nil
	}
	return CalData{}, nil, 0, nil
}

func ReadCalendarQuery(root *vx.Node) (CalQuery, error) {
	var q CalQuery
	if !is(root, NSCal, "calendar-query") {
		return q, fmt.Errorf("root is %s, not {%s}calendar-query", root.Name, NSCal)
	}
	kids := root.Elems()
	d, o, i, err := selection(kids)
	if err != nil {
		return q, err
	}
	q.Data, q.OtherProps = d, o
	if i >= len(kids) || !is(kids[i], NSCal, "filter") {
		return q, fmt.Errorf("calendar-query: expected filter at child %d", i)
	}
	fk := kids[i].Elems()
	if len(fk) != 1 || !is(fk[0], NSCal, "comp-filter") {
		return q, fmt.Errorf("filter must hold exactly one comp-filter")
	}
	q.Filter, err = readCompF(fk[0])
	if err != nil {
		return q, err
	}
	i++
	if i < len(kids) && is(kids[i], NSCal, "timezone") {
		q.Timezone = kids[i].TextContent()
		i++
	}
	if i != len(kids) {
		return q, fmt.Errorf("calendar-query: unexpected or misplaced child <%s>", kids[i].Name)
	}
	return q, nil
}

func ReadCalendarMultiGet(root *vx.Node, decodeHref func(string) (string, error)) (CalMultiGet, error) {
	var m CalMultiGet
	if !is(root, NSCal, "calendar-multiget") {
		return m, fmt.Errorf("root is %s, not {%s}calendar-multiget", root.Name, NSCal)
	}
	kids := root.Elems()
	d, o, i, err := selection(kids)
	if err != nil {
		return m, err
	}
	m.Data, m.OtherProps = d, o
	if i >= len(kids) {
		return m, fmt.Errorf("calendar-multiget without href")
	}
	for ; i < len(kids); i++ {
		if !is(kids[i], NSDAV, "href") {
			return m, fmt.Errorf("calendar-multiget: unexpected or misplaced child <%s> (DTD: selection first, then href+)", kids[i].Name)
		}
		h, err := decodeHref(kids[i].TextContent())
		if err != nil {
			return m, err
		}
		m.Hrefs = append(m.Hrefs, h)
	}
	return m, nil
}
