// C09 — CardDAV queries cross the wire without loss, in RFC 6352 form.
package c09

import (
	"bufio"
	"context"
	"encoding/json"
	"fmt"
	"mime"
	"net/http"
	"net/http/httptest"
	"net/url"
	"reflect"
	"strconv"
	"strings"
	"testing"

	"github.com/emersion/go-webdav/carddav"
	"github.com/emersion/go-webdav/verifharness/vdav"
	"github.com/emersion/go-webdav/verifharness/vdbl"
	"github.com/emersion/go-webdav/verifharness/vev"
	"github.com/emersion/go-webdav/verifharness/vwire"
	"github.com/emersion/go-webdav/verifharness/vx"
	"pgregory.net/rapid"
)

var rec = vev.For("C09")

func TestMain(m *testing.M) {
	rec.SetRule("client->wire: rapid-generated AddressBookQuery/AddressBookMultiGet values (filter test at both levels, is-not-defined, several text matches with text/match type/negate, parameter filters, limit, requested properties or all-properties, hrefs needing escaping) sent by carddav.Client to a capturing HTTP client and read back by the harness' strict XML reader and order-strict RFC 6352 reader; wire->backend: conformant documents from the harness writer in random lexical form served as REPORT by carddav.Handler over a recording backend; every combination of test x match-type x negate-condition values incl. invalid ones is enumerated: valid ones must arrive unchanged (absent test = anyof, absent match type = contains), invalid ones must be refused with 400 and never reach the backend. non-trivial = the value uses is-not-defined, negate, a parameter filter, a non-default test or match type, a limit, a property selection, or text needing escaping; distinct by canonical JSON")
	rec.Assume("client side: FilterTest and MatchType hold valid enumeration values or are empty; is-not-defined excludes siblings; names non-empty", "strings are XML-representable")
	vev.Main(m)
}

type Case struct {
	Dir     string            `json:"dir"`
	Kind    string            `json:"kind"` // query | multiget
	Query   vdav.CardQuery    `json:"query,omitempty"`
	Multi   vdav.CardMultiGet `json:"multi,omitempty"`
	Path    string            `json:"path"`
	Lexical []int             `json:"lexical,omitempty"`
	Invalid bool              `json:"invalid,omitempty"` // server: the document carries an invalid enumeration/limit and must be refused
	Prelude []int             `json:"prelude,omitempty"` // server: indices into preludes, requests served by the same handler first
}

func toTM(t vdav.CardTM) carddav.TextMatch {
	return carddav.TextMatch{Text: t.Text, NegateCondition: t.Neg, MatchType: carddav.MatchType(t.Type)}
}

func toQuery(q vdav.CardQuery) *carddav.AddressBookQuery {
	out := &carddav.AddressBookQuery{FilterTest: carddav.FilterTest(q.Test)}
	out.DataRequest = carddav.AddressDataRequest{AllProp: q.Data.AllProp, Props: append([]string(nil), q.Data.Props...)}
	if q.Limit != nil {
		out.Limit, _ = strconv.Atoi(*q.Limit)
	}
	for _, pf := range q.PFs {
		o := carddav.PropFilter{Name: pf.Name, Test: carddav.FilterTest(pf.Test), IsNotDefined: pf.IND}
		for _, tm := range pf.TMs {
			o.TextMatches = append(o.TextMatches, toTM(tm))
		}
		for _, p := range pf.Params {
			x := carddav.ParamFilter{Name: p.Name, IsNotDefined: p.IND}
			if p.TM != nil {
				tm := toTM(*p.TM)
				x.TextMatch = &tm
			}
			o.Params = append(o.Params, x)
		}
		out.PropFilters = append(out.PropFilters, o)
	}
	return out
}

func normTest(s string) string {
	if s == "" {
		return "anyof"
	}
	return s
}

func normType(s string) string {
	if s == "" {
		return "contains"
	}
	return s
}

type flatTM struct {
	Text, Type string
	Neg        bool
}

func flat(t vdav.CardTM) flatTM { return flatTM{t.Text, normType(t.Type), t.Neg} }

func dev(kind, f string, a ...any) vev.Outcome {
	return vev.Outcome{Sig: vev.Sig(kind), Msg: fmt.Sprintf(f, a...)}
}

// diff of two mirror queries after normalisation
func queryDiff(want, got vdav.CardQuery) string {
	if normTest(want.Test) != normTest(got.Test) {
		return "filter-test"
	}
	if len(want.PFs) != len(got.PFs) {
		return "prop-filter-count"
	}
	for i := range want.PFs {
		w, g := want.PFs[i], got.PFs[i]
		switch {
		case w.Name != g.Name:
			return "prop-name"
		case w.IND != g.IND:
			return "is-not-defined"
		case len(w.TMs) != len(g.TMs):
			return "text-match-count"
		case normTest(w.Test) != normTest(g.Test): // also without children: the statement lists the test among what must not be dropped
			return "prop-test"
		case len(w.Params) != len(g.Params):
			return "param-filter-count"
		}
		for j := range w.TMs {
			a, b := flat(w.TMs[j]), flat(g.TMs[j])
			switch {
			case a.Text != b.Text:
				return "text"
			case a.Type != b.Type:
				return "match-type"
			case a.Neg != b.Neg:
				return "negate"
			}
		}
		for j := range w.Params {
			a, b := w.Params[j], g.Params[j]
			switch {
			case a.Name != b.Name:
				return "param-name"
			case a.IND != b.IND:
				return "param-is-not-defined"
			case (a.TM == nil) != (b.TM == nil):
				return "param-text-match-presence"
			case a.TM != nil && flat(*a.TM) != flat(*b.TM):
				return "param-text-match"
			}
		}
	}
	return ""
}

func dataDiff(want, got vdav.AddrData) string {
	if want.AllProp != got.AllProp {
		return "allprop"
	}
	if !want.AllProp && !reflect.DeepEqual(append([]string{}, want.Props...), append([]string{}, got.Props...)) {
		return "prop-names"
	}
	return ""
}

func decodeHref(s string) (string, error) {
	u, err := url.Parse(strings.TrimSpace(s))
	if err != nil {
		return "", err
	}
	return u.Path, nil
}

func evalClient(c Case) (vev.Outcome, error) {
	capt := &vwire.Capture{}
	cl, err := carddav.NewClient(capt, "http://dav.example/")
	if err != nil {
		return vev.Outcome{}, err
	}
	var data vdav.AddrData
	if c.Kind == "query" {
		data = c.Query.Data
		_, err = cl.QueryAddressBook(context.Background(), c.Path, toQuery(c.Query))
	} else {
		data = c.Multi.Data
		mg := &carddav.AddressBookMultiGet{Paths: append([]string(nil), c.Multi.Hrefs...), DataRequest: carddav.AddressDataRequest{AllProp: data.AllProp, Props: append([]string(nil), data.Props...)}}
		_, err = cl.MultiGetAddressBook(context.Background(), c.Path, mg)
	}
	if err != nil {
		return dev("client|"+c.Kind+"|error", "client call failed: %v", err), nil
	}
	ex, ok := capt.Last()
	if !ok {
		return dev("client|"+c.Kind+"|no-request", "no request sent"), nil
	}
	if ex.Method != "REPORT" || ex.Header.Get("Depth") != "1" {
		return dev("client|"+c.Kind+"|method-or-depth", "method %q Depth %q", ex.Method, ex.Header.Get("Depth")), nil
	}
	if mt, _, _ := mime.ParseMediaType(ex.Header.Get("Content-Type")); mt != "application/xml" && mt != "text/xml" {
		return dev("client|"+c.Kind+"|content-type", "Content-Type %q", ex.Header.Get("Content-Type")), nil
	}
	if ex.Path != c.Path {
		return dev("client|"+c.Kind+"|url", "request path %q, want %q", ex.Path, c.Path), nil
	}
	root, err := vx.Parse(ex.Body)
	if err != nil {
		return dev("client|"+c.Kind+"|not-wellformed", "%v: %q", err, ex.Body), nil
	}
	var gotData vdav.AddrData
	if c.Kind == "query" {
		got, err := vdav.ReadAddressbookQuery(root)
		if err != nil {
			return dev("client|query|not-rfc6352", "not an RFC 6352 addressbook-query: %v: %q", err, ex.Body), nil
		}
		gotData = got.Data
		if d := queryDiff(c.Query, got); d != "" {
			return dev("client|query|"+d, "sent %s, caller asked for %s: %q", mustJSON(got), mustJSON(c.Query), ex.Body), nil
		}
		wantLimit := 0
		if c.Query.Limit != nil {
			wantLimit, _ = strconv.Atoi(*c.Query.Limit)
		}
		gotLimit := 0
		if got.Limit != nil {
			gotLimit, _ = strconv.Atoi(*got.Limit)
		}
		if wantLimit > 0 && gotLimit != wantLimit || wantLimit <= 0 && got.Limit != nil {
			return dev("client|query|limit", "limit sent %v, caller asked for %d: %q", got.Limit, wantLimit, ex.Body), nil
		}
	} else {
		got, err := vdav.ReadAddressbookMultiGet(root, decodeHref)
		if err != nil {
			return dev("client|multiget|not-rfc6352", "not an RFC 6352 addressbook-multiget: %v: %q", err, ex.Body), nil
		}
		gotData = got.Data
		want := c.Multi.Hrefs
		if len(want) == 0 {
			want = []string{c.Path}
		}
		if !reflect.DeepEqual(got.Hrefs, want) {
			return dev("client|multiget|hrefs", "hrefs sent %q, caller asked for %q", got.Hrefs, want), nil
		}
	}
	if !gotData.Present {
		return dev("client|"+c.Kind+"|address-data-missing", "no address-data request in %q", ex.Body), nil
	}
	if d := dataDiff(data, gotData); d != "" {
		return dev("client|"+c.Kind+"|address-data|"+d, "address-data sent %s, caller asked for %s", mustJSON(gotData), mustJSON(data)), nil
	}
	return vev.Outcome{}, nil
}

type replayChooser struct {
	choices []int
	i       int
}

func (r *replayChooser) Pick(label string, n int) int {
	if r.i >= len(r.choices) {
		return 0
	}
	v := r.choices[r.i] % n
	r.i++
	return v
}

func hrefText(form int) func(string) string {
	return func(p string) string {
		esc := (&url.URL{Path: p}).EscapedPath()
		if form%3 == 1 {
			return "http://dav.example" + esc
		}
		return esc
	}
}

func fromBackend(q *carddav.AddressBookQuery) vdav.CardQuery {
	out := vdav.CardQuery{Test: string(q.FilterTest)}
	out.Data = vdav.AddrData{Present: true, AllProp: q.DataRequest.AllProp, Props: q.DataRequest.Props}
	for _, pf := range q.PropFilters {
		o := vdav.CardPropF{Name: pf.Name, Test: string(pf.Test), IND: pf.IsNotDefined}
		for _, tm := range pf.TextMatches {
			o.TMs = append(o.TMs, vdav.CardTM{Text: tm.Text, Neg: tm.NegateCondition, Type: string(tm.MatchType)})
		}
		for _, p := range pf.Params {
			x := vdav.CardParamF{Name: p.Name, IND: p.IsNotDefined}
			if p.TextMatch != nil {
				x.TM = &vdav.CardTM{Text: p.TextMatch.Text, Neg: p.TextMatch.NegateCondition, Type: string(p.TextMatch.MatchType)}
			}
			o.Params = append(o.Params, x)
		}
		out.PFs = append(out.PFs, o)
	}
	return out
}

func evalServer(c Case) (vev.Outcome, error) {
	var root *vx.Node
	if c.Kind == "query" {
		root = c.Query.Node()
	} else {
		form := 0
		if len(c.Lexical) > 0 {
			form = c.Lexical[0]
		}
		root = c.Multi.Node(hrefText(form))
	}
	body := vx.Write(root, &replayChooser{choices: c.Lexical}, true)
	if _, err := vx.Parse(body); err != nil {
		return vev.Outcome{}, fmt.Errorf("harness writer produced a bad document: %v: %q", err, body)
	}
	raw := fmt.Sprintf("REPORT %s HTTP/1.1\r\nHost: dav.example\r\nDepth: 1\r\nContent-Type: text/xml\r\nContent-Length: %d\r\n\r\n%s", (&url.URL{Path: c.Path}).EscapedPath(), len(body), body)
	req, err := http.ReadRequest(bufio.NewReader(strings.NewReader(raw)))
	if err != nil {
		return vev.Outcome{}, err
	}
	b := &vdbl.CardBackend{Principal: "/u/", HomeSet: "/u/contacts/"}
	h := &carddav.Handler{Backend: b}
	// earlier requests served by the same handler (after C09-s15: pooled or cached decoding state) - a refused query,
	// an accepted one, a multiget, something unparseable - must leave nothing behind for the request under test
	for _, k := range c.Prelude {
		doc := preludes[k%len(preludes)]
		praw := fmt.Sprintf("REPORT /u/contacts/earlier/ HTTP/1.1\r\nHost: dav.example\r\nDepth: 1\r\nContent-Type: text/xml\r\nContent-Length: %d\r\n\r\n%s", len(doc), doc)
		if preq, err := http.ReadRequest(bufio.NewReader(strings.NewReader(praw))); err == nil {
			func() {
				defer func() { recover() }()
				h.ServeHTTP(httptest.NewRecorder(), preq)
			}()
		}
	}
	b.Reset()
	w := httptest.NewRecorder()
	var pan any
	func() {
		defer func() { pan = recover() }()
		h.ServeHTTP(w, req)
	}()
	if pan != nil {
		return dev("server|"+c.Kind+"|panic", "panic: %v on %q", pan, body), nil
	}
	var got *carddav.AddressBookQuery
	var gotPath string
	ncalls := 0
	var paths []string
	var reqs []*carddav.AddressDataRequest
	for _, call := range b.Log() {
		switch call.Op {
		case "QueryAddressObjects":
			got, gotPath = call.Query, call.Path
			ncalls++
		case "GetAddressObject":
			paths = append(paths, call.Path)
			reqs = append(reqs, call.DataReq)
		}
	}
	if c.Invalid {
		if w.Code != 400 {
			return dev("server|invalid-not-400", "document with an invalid enumeration/limit answered %d: %q", w.Code, body), nil
		}
		if ncalls != 0 || len(paths) != 0 {
			return dev("server|invalid-reached-backend", "document with an invalid enumeration/limit reached the backend: %q", body), nil
		}
		return vev.Outcome{}, nil
	}
	if w.Code != 207 {
		return dev("server|"+c.Kind+fmt.Sprintf("|status-%d", w.Code), "conformant %s answered %d (%.200q): %q", c.Kind, w.Code, w.Body.String(), body), nil
	}
	if c.Kind == "query" {
		limit := -1
		if c.Query.Limit != nil {
			limit, _ = strconv.Atoi(*c.Query.Limit)
		}
		if limit == 0 {
			// nresults 0: an empty answer without consulting the backend is fine, so is consulting it
			if ncalls == 0 {
				return vev.Outcome{}, nil
			}
		}
		if ncalls != 1 || got == nil {
			return dev("server|query|no-backend-call", "backend saw %d QueryAddressObjects calls for %q", ncalls, body), nil
		}
		if gotPath != c.Path {
			return dev("server|query|path", "backend path %q, request path %q", gotPath, c.Path), nil
		}
		gm := fromBackend(got)
		if d := queryDiff(c.Query, gm); d != "" {
			return dev("server|query|"+d, "backend received %s, document denotes %s: %q", mustJSON(gm), mustJSON(c.Query), body), nil
		}
		if c.Query.Data.Present {
			if d := dataDiff(c.Query.Data, gm.Data); d != "" {
				return dev("server|query|address-data|"+d, "backend received data request %s, document denotes %s: %q", mustJSON(gm.Data), mustJSON(c.Query.Data), body), nil
			}
		}
		if c.Query.Limit != nil {
			if u, err := strconv.ParseUint(*c.Query.Limit, 10, 64); err == nil && u > 1<<62 {
				// a limit beyond what an int holds (after C13-s15) denotes "more than any address book holds": the
				// backend must still be asked, with a limit that large or with none
				if got.Limit > 0 && got.Limit < 1<<62 {
					return dev("server|query|limit", "backend received limit %d, document says %v: %q", got.Limit, *c.Query.Limit, body), nil
				}
				return vev.Outcome{}, nil
			}
		}
		if limit > 0 && got.Limit != limit || limit < 0 && got.Limit > 0 {
			return dev("server|query|limit", "backend received limit %d, document says %v: %q", got.Limit, c.Query.Limit, body), nil
		}
		return vev.Outcome{}, nil
	}
	if !reflect.DeepEqual(paths, c.Multi.Hrefs) {
		return dev("server|multiget|hrefs", "backend was asked for %q, document lists %q: %q", paths, c.Multi.Hrefs, body), nil
	}
	if c.Multi.Data.Present {
		for _, r := range reqs {
			gd := vdav.AddrData{Present: true, AllProp: r.AllProp, Props: r.Props}
			if d := dataDiff(c.Multi.Data, gd); d != "" {
				return dev("server|multiget|address-data|"+d, "backend received data request %s, document denotes %s: %q", mustJSON(gd), mustJSON(c.Multi.Data), body), nil
			}
		}
	}
	return vev.Outcome{}, nil
}

func evaluate(c Case) (vev.Outcome, error) {
	if c.Dir == "client" {
		return evalClient(c)
	}
	return evalServer(c)
}

var preludes = []string{
	`<C:addressbook-query xmlns:C="urn:ietf:params:xml:ns:carddav" xmlns:D="DAV:"><D:prop><D:getetag/><C:address-data><C:prop name="EARLIER"/></C:address-data></D:prop><C:filter test="allof"><C:prop-filter name="EARLIER" test="allof"><C:text-match match-type="bogus" negate-condition="yes">earlier</C:text-match><C:param-filter name="EARLIER-P"><C:is-not-defined/></C:param-filter></C:prop-filter></C:filter><C:limit><C:nresults>77</C:nresults></C:limit></C:addressbook-query>`,
	`<C:addressbook-query xmlns:C="urn:ietf:params:xml:ns:carddav" xmlns:D="DAV:"><D:prop><C:address-data><C:prop name="EARLIER"/></C:address-data></D:prop><C:filter test="allof"><C:prop-filter name="EARLIER"><C:text-match match-type="starts-with" negate-condition="yes">earlier</C:text-match></C:prop-filter></C:filter><C:limit><C:nresults>78</C:nresults></C:limit></C:addressbook-query>`,
	`<C:addressbook-multiget xmlns:C="urn:ietf:params:xml:ns:carddav" xmlns:D="DAV:"><D:prop><C:address-data><C:prop name="EARLIER"/></C:address-data></D:prop><D:href>/u/contacts/earlier/1.vcf</D:href><D:href>/u/contacts/earlier/2.vcf</D:href></C:addressbook-multiget>`,
	`<C:addressbook-query xmlns:C="urn:ietf:params:xml:ns:carddav"><C:filter test="nonsense"><C:prop-filter name="EARLIER"/></C:filter>`,
	`<C:addressbook-query xmlns:C="urn:ietf:params:xml:ns:carddav" xmlns:D="DAV:"><D:allprop/><C:filter><C:prop-filter name="EARLIER"><C:is-not-defined/></C:prop-filter></C:filter><C:limit><C:nresults>-5</C:nresults></C:limit></C:addressbook-query>`,
}

// ---------------------------------------------------------------------------
// generators

var (
	propNames  = []string{"EMAIL", "FN", "TEL", "NICKNAME", "X-A", "N", "UID", "email", "X-ABLabel", "x-jabber", "Fn"} // names in lower and mixed case after C09-s13: they cross unaltered
	paramNames = []string{"TYPE", "PREF", "X-P", "type", "Pref"}
)

func genText() *rapid.Generator[string] {
	return rapid.OneOf(rapid.SampledFrom([]string{"", "a", "example.com", " lead", "trail ", "  ", "a<b", "a&b", `"q"`, "'", "]]>", "é", "a\nb", "a\rb", "a\r\nb", "\r", "x y", "&amp;", "💥", `a\,b`, `a\\b`, `\n`, `\`, "%41", "%", "&#65;", "&#x41;", "&amp;amp;", "^n", "a;b", "a,b"}), rapid.StringMatching(`[a-zA-Z@. <>&"' é]{0,8}`))
}

func genTM(rt *rapid.T, noise bool) vdav.CardTM {
	tm := vdav.CardTM{Text: genText().Draw(rt, "text"), Neg: rapid.Bool().Draw(rt, "neg"),
		Type: rapid.SampledFrom([]string{"", "", "equals", "contains", "starts-with", "ends-with"}).Draw(rt, "type")}
	if noise {
		if rapid.IntRange(0, 3).Draw(rt, "coll") == 0 {
			tm.Collation = "i;unicode-casemap"
		}
		if !tm.Neg && rapid.IntRange(0, 3).Draw(rt, "explicit-no") == 0 {
			tm.NegAttr = "no"
		}
	}
	return tm
}

func genPF(rt *rapid.T, noise bool) vdav.CardPropF {
	pf := vdav.CardPropF{Name: rapid.SampledFrom(propNames).Draw(rt, "name"), Test: rapid.SampledFrom([]string{"", "anyof", "allof"}).Draw(rt, "test")}
	if rapid.IntRange(0, 4).Draw(rt, "ind") == 0 {
		pf.IND = true
		return pf
	}
	n := rapid.IntRange(0, 3).Draw(rt, "ntm")
	for i := 0; i < n; i++ {
		pf.TMs = append(pf.TMs, genTM(rt, noise))
	}
	k := rapid.IntRange(0, 3).Draw(rt, "nparams")
	if k == 3 {
		k = 0
	}
	for i := 0; i < k; i++ {
		p := vdav.CardParamF{Name: rapid.SampledFrom(paramNames).Draw(rt, "pname")}
		switch rapid.IntRange(0, 2).Draw(rt, "pkind") {
		case 0:
			p.IND = true
		case 1:
			tm := genTM(rt, noise)
			p.TM = &tm
		}
		pf.Params = append(pf.Params, p)
	}
	return pf
}

func genData(rt *rapid.T, client bool) vdav.AddrData {
	d := vdav.AddrData{Present: true}
	switch rapid.IntRange(0, 3).Draw(rt, "datakind") {
	case 0:
		d.AllProp = true
	case 1:
		if !client {
			return vdav.AddrData{}
		}
	default:
		d.Props = rapid.SliceOfN(rapid.SampledFrom(append([]string{"VERSION"}, propNames...)), 0, 4).Draw(rt, "props")
	}
	return d
}

func genPath(rt *rapid.T) string {
	segs := []string{"u", "contacts", "book", "a b", "é", "x%20y", "q?#", "d+;e", `"'<&>`, "c.vcf", "%41"}
	n := rapid.IntRange(1, 4).Draw(rt, "npath")
	p := ""
	for i := 0; i < n; i++ {
		p += "/" + rapid.SampledFrom(segs).Draw(rt, "seg")
	}
	if rapid.Bool().Draw(rt, "slash") {
		p += "/"
	}
	return p
}

func nontrivial(c Case) bool {
	if c.Kind == "multiget" {
		return len(c.Multi.Data.Props) > 0 || c.Multi.Data.AllProp || len(c.Multi.Hrefs) > 1
	}
	q := c.Query
	if q.Test != "" || q.Limit != nil || len(q.Data.Props) > 0 || c.Invalid {
		return true
	}
	for _, pf := range q.PFs {
		if pf.IND || pf.Test != "" || len(pf.Params) > 0 {
			return true
		}
		for _, tm := range pf.TMs {
			if tm.Neg || tm.Type != "" || strings.ContainsAny(tm.Text, "<>&\"' \n") {
				return true
			}
		}
	}
	return false
}

func run(t *testing.T, rt *rapid.T, c Case, class string) {
	rec.Case(class, nontrivial(c), mustJSON(c), func() any { return c })
	o, err := evaluate(c)
	if err != nil {
		if rt != nil {
			rt.Fatalf("harness: %v", err)
		}
		t.Fatalf("harness: %v", err)
	}
	if o.OK() || rec.Known(o.Sig) {
		return
	}
	if rt != nil {
		rec.Fail(rt, o.Sig, "c09", c, "%s", o.Msg)
	} else {
		rec.Violation(t, o.Sig, "c09", c, "%s", o.Msg)
	}
}

func TestAReplay(t *testing.T) {
	vev.RunReplays(t, rec, func(kind string, raw json.RawMessage) (vev.Outcome, error) {
		var c Case
		if err := json.Unmarshal(raw, &c); err != nil {
			return vev.Outcome{}, err
		}
		return evaluate(c)
	})
}

// complete enumeration of the enumerated attributes on the wire side
func TestEnumerations(t *testing.T) {
	if vev.ReplayFile() != "" {
		t.Skip()
	}
	tests := []string{"", "anyof", "allof", "ANYOF", "oneof", " allof", "any-of"}
	types := []string{"", "equals", "contains", "starts-with", "ends-with", "Equals", "regex", "starts_with", "contains "}
	negs := []string{"", "yes", "no", "YES", "true", "1", " no"}
	valid := func(s string, ok ...string) bool {
		for _, o := range ok {
			if s == o {
				return true
			}
		}
		return false
	}
	idx := 0
	for _, outer := range tests {
		for _, inner := range tests {
			for _, ty := range types {
				for _, ng := range negs {
					idx++
					if !vev.MyShare(idx) {
						continue
					}
					tm := vdav.CardTM{Text: "x", Type: ty, NegAttr: ng, Neg: ng == "yes"}
					c := Case{Dir: "server", Kind: "query", Path: "/u/contacts/b/", Lexical: []int{idx % 3, idx % 2, idx % 5},
						Query: vdav.CardQuery{Data: vdav.AddrData{Present: true, AllProp: true}, Test: outer, PFs: []vdav.CardPropF{{Name: "EMAIL", Test: inner, TMs: []vdav.CardTM{tm}}}}}
					c.Invalid = !valid(outer, "", "anyof", "allof") || !valid(inner, "", "anyof", "allof") || !valid(ty, "", "equals", "contains", "starts-with", "ends-with") || !valid(ng, "", "yes", "no")
					cls := "enum/valid"
					if c.Invalid {
						cls = "enum/invalid"
					}
					if idx%3 == 0 {
						c.Prelude = []int{idx % 5, (idx / 5) % 5}
					}
					run(t, nil, c, cls)
				}
			}
		}
	}
	for _, lim := range []string{"0", "1", "10", "-1", "abc", "", "1.5", "99999999999999999999999", " 3 ", "+2", "2147483648", "4294967295", "4294967296", "4294967303", "9223372036854775807", "9223372036854775808", "18446744073709551615", "18446744073709551616"} {
		lim := lim
		c := Case{Dir: "server", Kind: "query", Path: "/u/contacts/b/", Query: vdav.CardQuery{Data: vdav.AddrData{Present: true, AllProp: true}, Limit: &lim}}
		if _, err := strconv.ParseUint(lim, 10, 64); err != nil {
			if strings.TrimSpace(lim) != lim || strings.HasPrefix(lim, "+") || lim == "" {
				continue // lexical leniency of the integer reader: not asserted
			}
			c.Invalid = true
		}
		run(t, nil, c, "enum/limit")
	}
	rec.ExhaustiveSub("wire side: 7 outer test x 7 inner test x 9 match-type x 7 negate-condition attribute values (valid and invalid) and 18 nresults texts")
}

func TestClientToWire(t *testing.T) {
	if vev.ReplayFile() != "" {
		t.Skip()
	}
	vev.Rapid(t, rec, 0, vev.N(3000, 150000), func(rt *rapid.T) {
		c := Case{Dir: "client", Path: genPath(rt)}
		if rapid.IntRange(0, 3).Draw(rt, "kind") == 0 {
			c.Kind = "multiget"
			c.Multi.Data = genData(rt, true)
			n := rapid.IntRange(0, 4).Draw(rt, "nhrefs")
			for i := 0; i < n; i++ {
				c.Multi.Hrefs = append(c.Multi.Hrefs, genPath(rt))
			}
		} else {
			c.Kind = "query"
			c.Query.Data = genData(rt, true)
			c.Query.Test = rapid.SampledFrom([]string{"", "anyof", "allof"}).Draw(rt, "qtest")
			n := rapid.IntRange(0, 3).Draw(rt, "npf")
			for i := 0; i < n; i++ {
				c.Query.PFs = append(c.Query.PFs, genPF(rt, false))
			}
			if rapid.Bool().Draw(rt, "haslimit") {
				l := strconv.Itoa(rapid.SampledFrom([]int{-1, 0, 1, 2, 50, 1 << 30, 1 << 31, 1 << 32, 1<<32 + 7, 1 << 62}).Draw(rt, "limit"))
				c.Query.Limit = &l
			}
		}
		run(t, rt, c, "client/"+c.Kind)
	})
}

func TestWireToBackend(t *testing.T) {
	if vev.ReplayFile() != "" {
		t.Skip()
	}
	vev.Rapid(t, rec, 1, vev.N(3000, 150000), func(rt *rapid.T) {
		c := Case{Dir: "server", Path: genPath(rt)}
		c.Lexical = rapid.SliceOfN(rapid.IntRange(0, 11), 40, 40).Draw(rt, "lexical")
		if rapid.Bool().Draw(rt, "prelude?") {
			c.Prelude = rapid.SliceOfN(rapid.IntRange(0, len(preludes)-1), 1, 3).Draw(rt, "prelude")
		}
		others := []string{"getetag", "getlastmodified", "getcontenttype"}
		if rapid.IntRange(0, 3).Draw(rt, "kind") == 0 {
			c.Kind = "multiget"
			c.Multi.Data = genData(rt, false)
			n := rapid.IntRange(1, 4).Draw(rt, "nhrefs")
			for i := 0; i < n; i++ {
				c.Multi.Hrefs = append(c.Multi.Hrefs, genPath(rt))
			}
			c.Multi.OtherProps = rapid.SliceOfN(rapid.SampledFrom(others), 0, 3).Draw(rt, "others")
			if !c.Multi.Data.Present && len(c.Multi.OtherProps) == 0 {
				c.Multi.OtherProps = []string{"getetag"}
			}
		} else {
			c.Kind = "query"
			c.Query.Data = genData(rt, false)
			c.Query.OtherProps = rapid.SliceOfN(rapid.SampledFrom(others), 0, 3).Draw(rt, "others")
			c.Query.Test = rapid.SampledFrom([]string{"", "anyof", "allof"}).Draw(rt, "qtest")
			n := rapid.IntRange(0, 3).Draw(rt, "npf")
			for i := 0; i < n; i++ {
				c.Query.PFs = append(c.Query.PFs, genPF(rt, true))
			}
			if rapid.Bool().Draw(rt, "haslimit") {
				l := strconv.Itoa(rapid.SampledFrom([]int{0, 1, 2, 50, 1 << 30, 1 << 31, 1 << 32, 1<<32 + 7, 1 << 62}).Draw(rt, "limit"))
				c.Query.Limit = &l
			}
		}
		run(t, rt, c, "server/"+c.Kind)
	})
}

func mustJSON(v any) string {
	b, _ := json.Marshal(v)
	return string(b)
}
