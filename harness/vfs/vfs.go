// Package vfs is an abstract RFC 4918 resource tree and a permitted-outcome
// model of the requests of property C01.  It is written from RFC 4918 §9 and
// the C01 statement, performs no OS calls and imports nothing from go-webdav.
package vfs

import (
	"fmt"
	"net/url"
	"path"
	"sort"
	"strings"
)

// ---------------------------------------------------------------------------
// tree

type Node struct {
	Dir  bool
	Data string
	Kids map[string]*Node
}

func NewDir() *Node           { return &Node{Dir: true, Kids: map[string]*Node{}} }
func NewFile(d string) *Node  { return &Node{Data: d} }

func (n *Node) Clone() *Node {
	if n == nil {
		return nil
	}
	c := &Node{Dir: n.Dir, Data: n.Data}
	if n.Dir {
		c.Kids = make(map[string]*Node, len(n.Kids))
		for k, v := range n.Kids {
			c.Kids[k] = v.Clone()
		}
	}
	return c
}

func (n *Node) Equal(o *Node) bool {
	if n == nil || o == nil {
		return n == o
	}
	if n.Dir != o.Dir {
		return false
	}
	if !n.Dir {
		return n.Data == o.Data
	}
	if len(n.Kids) != len(o.Kids) {
		return false
	}
	for k, v := range n.Kids {
		if !v.Equal(o.Kids[k]) {
			return false
		}
	}
	return true
}

// String is a canonical, compact rendering: d{a:f"1",b:d{}}.
func (n *Node) String() string {
	if n == nil {
		return "<gone>"
	}
	if !n.Dir {
		if len(n.Data) > 24 {
			return fmt.Sprintf("f[%d:%x]", len(n.Data), hash(n.Data))
		}
		return fmt.Sprintf("f%q", n.Data)
	}
	names := make([]string, 0, len(n.Kids))
	for k := range n.Kids {
		names = append(names, k)
	}
	sort.Strings(names)
	var b strings.Builder
	b.WriteString("d{")
	for i, k := range names {
		if i > 0 {
			b.WriteByte(',')
		}
		fmt.Fprintf(&b, "%q:%s", k, n.Kids[k].String())
	}
	b.WriteByte('}')
	return b.String()
}

func hash(s string) uint32 {
	h := uint32(2166136261)
	for i := 0; i < len(s); i++ {
		h = (h ^ uint32(s[i])) * 16777619
	}
	return h
}

// Segs splits a cleaned absolute path into segments ("/" -> none).
func Segs(p string) []string {
	p = path.Clean("/" + p)
	if p == "/" {
		return nil
	}
	return strings.Split(p[1:], "/")
}

type Kind int

const (
	Missing     Kind = iota // does not exist, parent is an existing collection
	NoParent                // does not exist, parent does not exist either
	ThroughFile             // some strict ancestor is a file
	File
	Dir
)

func (k Kind) Exists() bool { return k == File || k == Dir }
func (k Kind) String() string {
	return [...]string{"missing", "missing-noparent", "through-file", "file", "dir"}[k]
}

// Lookup classifies a path and returns the node if it exists.
func (n *Node) Lookup(segs []string) (*Node, Kind) {
	cur := n
	for i, s := range segs {
		if !cur.Dir {
			return nil, ThroughFile
		}
		next, ok := cur.Kids[s]
		if !ok {
			if i == len(segs)-1 {
				return nil, Missing
			}
			// does the rest run through nothing? parent missing
			return nil, NoParent
		}
		cur = next
	}
	if cur.Dir {
		return cur, Dir
	}
	return cur, File
}

func (n *Node) parent(segs []string) *Node {
	p, k := n.Lookup(segs[:len(segs)-1])
	if k != Dir {
		return nil
	}
	return p
}

// Walk lists all paths in the tree (depth-first, sorted), "/" included.
func (n *Node) Walk(fn func(p string, x *Node)) {
	var rec func(prefix string, x *Node)
	rec = func(prefix string, x *Node) {
		p := prefix
		if p == "" {
			p = "/"
		}
		fn(p, x)
		if !x.Dir {
			return
		}
		names := make([]string, 0, len(x.Kids))
		for k := range x.Kids {
			names = append(names, k)
		}
		sort.Strings(names)
		for _, k := range names {
			rec(prefix+"/"+k, x.Kids[k])
		}
	}
	rec("", n)
}

// ---------------------------------------------------------------------------
// requests

type Req struct {
	Method      string `json:"method"`
	Path        string `json:"path"`                   // decoded URL path
	Depth       string `json:"depth,omitempty"`        // "" = header absent
	Overwrite   string `json:"overwrite,omitempty"`    // "" = header absent
	Dest        string `json:"dest,omitempty"`         // raw Destination header value
	HasDest     bool   `json:"has_dest,omitempty"`     // header present (possibly empty)
	Body        string `json:"body,omitempty"`         // request body
	ContentType string `json:"content_type,omitempty"` // "" = header absent
	IfMatch     string `json:"if_match,omitempty"`     // "$CUR" = the target's current tag
	IfNoneMatch string `json:"if_none_match,omitempty"`
	FailAfter   *int   `json:"fail_after,omitempty"` // PUT: body reader fails after this many bytes
	FailKind    string `json:"fail_kind,omitempty"`
	// PUT: the request context is cancelled after this many body bytes while
	// the body is still delivered completely (the client went away late).
	CancelAfter *int `json:"cancel_after,omitempty"`
	// the body is sent with Transfer-Encoding: chunked instead of a Content-Length (the server sees ContentLength -1)
	Chunked bool `json:"chunked,omitempty"`
}

func (r Req) String() string {
	var b strings.Builder
	fmt.Fprintf(&b, "%s %q", r.Method, r.Path)
	if r.Depth != "" {
		fmt.Fprintf(&b, " Depth=%q", r.Depth)
	}
	if r.Overwrite != "" {
		fmt.Fprintf(&b, " Overwrite=%q", r.Overwrite)
	}
	if r.HasDest {
		fmt.Fprintf(&b, " Dest=%q", r.Dest)
	}
	if r.ContentType != "" {
		fmt.Fprintf(&b, " CT=%q", r.ContentType)
	}
	if r.IfMatch != "" {
		fmt.Fprintf(&b, " If-Match=%q", r.IfMatch)
	}
	if r.IfNoneMatch != "" {
		fmt.Fprintf(&b, " If-None-Match=%q", r.IfNoneMatch)
	}
	if r.Body != "" {
		if len(r.Body) > 20 {
			fmt.Fprintf(&b, " body[%d]", len(r.Body))
		} else {
			fmt.Fprintf(&b, " body=%q", r.Body)
		}
	}
	if r.Chunked {
		b.WriteString(" chunked")
	}
	if r.FailAfter != nil {
		fmt.Fprintf(&b, " fail@%d(%s)", *r.FailAfter, r.FailKind)
	}
	if r.CancelAfter != nil {
		fmt.Fprintf(&b, " cancel@%d", *r.CancelAfter)
	}
	return b.String()
}

// ---------------------------------------------------------------------------
// outcomes

// Outcome is the set of behaviours the statement permits for one request.
type Outcome struct {
	// Refusal: the request must be refused with one of these codes and the
	// tree must stay unchanged.  Empty = the request must succeed.
	Refuse []int
	// Any4xx: any 4xx is a permitted refusal (containment COPY/MOVE).
	Any4xx bool
	// Success alternatives (each: permitted status codes + resulting tree).
	// When both Refuse/Any4xx and Success are set, either is permitted.
	Success []Alt
	// What the request reads (for GET/HEAD/PROPFIND/OPTIONS checks).
	Target     *Node
	TargetKind Kind
	Scope      []string // PROPFIND: cleaned paths that must be reported, exactly once each
	Why        string   // human-readable reason(s)
}

type Alt struct {
	Codes []int
	Tree  *Node
}

func (o Outcome) MustSucceed() bool { return len(o.Refuse) == 0 && !o.Any4xx }
func (o Outcome) MaySucceed() bool  { return len(o.Success) > 0 }

func (o Outcome) RefusalPermits(code int) bool {
	for _, c := range o.Refuse {
		if c == code {
			return true
		}
	}
	return o.Any4xx && code >= 400 && code <= 499
}

type refusals struct {
	codes []int
	why   []string
}

func (r *refusals) add(code int, why string) {
	for _, c := range r.codes {
		if c == code {
			r.why = append(r.why, why)
			return
		}
	}
	r.codes = append(r.codes, code)
	r.why = append(r.why, why)
}

// CurTag is the placeholder the harness replaces by the target's current tag.
const CurTag = "$CUR"

// cond evaluates If-Match / If-None-Match per the C04 statement.  tagState is
// derived from the header text: "" unset, "*" wildcard, CurTag current,
// anything else that is a quoted string = some other tag, else malformed.
func condRefusals(r Req, exists bool, ref *refusals) {
	classify := func(v string) string {
		switch {
		case v == "":
			return "unset"
		case v == "*":
			return "star"
		case v == CurTag:
			return "current"
		case len(v) >= 2 && v[0] == '"' && v[len(v)-1] == '"' && !strings.ContainsAny(v[1:len(v)-1], "\"\\"):
			return "other"
		}
		return "malformed"
	}
	im, inm := classify(r.IfMatch), classify(r.IfNoneMatch)
	if im != "unset" {
		switch {
		case !exists:
			ref.add(412, "If-Match on an absent resource")
		case im == "malformed":
			ref.add(400, "malformed If-Match tag")
		case im == "other":
			ref.add(412, "If-Match tag differs")
		}
	}
	if inm != "unset" && exists {
		switch inm {
		case "malformed":
			ref.add(400, "malformed If-None-Match tag")
		case "star", "current":
			ref.add(412, "If-None-Match matches")
		}
	}
}

// ParseDest reduces a Destination header to a cleaned absolute path, the way
// RFC 4918 §10.3 describes it (absolute URI or absolute path).
func ParseDest(v string) (segs []string, ok bool) {
	u, err := url.Parse(v)
	if err != nil || v == "" {
		return nil, false
	}
	if !strings.HasPrefix(u.Path, "/") || strings.Contains(u.Path, "\x00") {
		return nil, false
	}
	return Segs(u.Path), true
}

func isPrefix(a, b []string) bool { // a is a prefix of (or equal to) b
	if len(a) > len(b) {
		return false
	}
	for i := range a {
		if a[i] != b[i] {
			return false
		}
	}
	return true
}

// Apply computes the permitted outcome of request r on tree t (t is not modified).
func Apply(t *Node, r Req) Outcome {
	segs := Segs(r.Path)
	node, kind := t.Lookup(segs)
	o := Outcome{Target: node, TargetKind: kind}
	var ref refusals
	finish := func() Outcome {
		o.Refuse = ref.codes
		o.Why = strings.Join(ref.why, "; ")
		return o
	}
	same := func(codes ...int) { o.Success = []Alt{{Codes: codes, Tree: t}} }

	switch r.Method {
	case "OPTIONS":
		same(200, 204)
		return finish()

	case "GET", "HEAD":
		switch kind {
		case File:
			same(200)
		case Dir:
			ref.add(405, "GET/HEAD on a collection")
		default:
			ref.add(404, "missing target")
		}
		return finish()

	case "PUT":
		switch kind {
		case Dir:
			ref.add(405, "PUT on a collection")
		case NoParent, ThroughFile:
			ref.add(409, "missing parent collection")
		}
		condRefusals(r, kind == File || kind == Dir, &ref)
		if r.FailAfter != nil {
			// the body breaks off: the request cannot succeed; any failure
			// status is acceptable as long as nothing changes (C02)
			o.Any4xx = true
			ref.add(500, "request body failed")
			for c := 501; c <= 599; c++ {
				ref.codes = append(ref.codes, c)
			}
			return finish()
		}
		if len(ref.codes) == 0 {
			nt := t.Clone()
			nt.parent(segs).Kids[segs[len(segs)-1]] = NewFile(r.Body)
			if kind == File {
				o.Success = []Alt{{Codes: []int{200, 204}, Tree: nt}}
			} else {
				o.Success = []Alt{{Codes: []int{201}, Tree: nt}}
			}
			if r.CancelAfter != nil {
				// the context was cancelled while the complete body arrived:
				// the server may carry the request out or fail it cleanly
				o.Any4xx = true
				for c := 500; c <= 599; c++ {
					ref.codes = append(ref.codes, c)
				}
				ref.why = append(ref.why, "request context cancelled during the upload")
			}
		}
		return finish()

	case "DELETE":
		if !kind.Exists() {
			ref.add(404, "missing target")
			// a failing precondition on an absent target may also be reported as such
			if r.IfMatch != "" {
				ref.add(412, "If-Match on an absent resource")
			}
			return finish()
		}
		condRefusals(r, true, &ref)
		if len(ref.codes) == 0 {
			if len(segs) == 0 {
				// DELETE / : everything goes; whether the (now empty) root
				// itself remains is outside the abstract model
				o.Success = []Alt{{Codes: []int{200, 204}, Tree: NewDir()}, {Codes: []int{200, 204}, Tree: nil}}
				return finish()
			}
			nt := t.Clone()
			delete(nt.parent(segs).Kids, segs[len(segs)-1])
			o.Success = []Alt{{Codes: []int{200, 204}, Tree: nt}}
		}
		return finish()

	case "MKCOL":
		if r.ContentType != "" {
			ref.add(415, "MKCOL announcing a body")
		}
		switch kind {
		case File, Dir:
			ref.add(405, "MKCOL on an existing resource")
		case NoParent, ThroughFile:
			ref.add(409, "missing parent collection")
		}
		if len(ref.codes) == 0 {
			nt := t.Clone()
			nt.parent(segs).Kids[segs[len(segs)-1]] = NewDir()
			o.Success = []Alt{{Codes: []int{201}, Tree: nt}}
		}
		return finish()

	case "PROPFIND":
		switch r.Depth {
		case "", "0", "1", "infinity":
		default:
			ref.add(400, "invalid Depth")
		}
		if !kind.Exists() {
			ref.add(404, "missing target")
		}
		if len(ref.codes) == 0 {
			same(207)
			base := "/" + strings.Join(segs, "/")
			o.Scope = []string{base}
			if kind == Dir && r.Depth != "0" {
				node.Walk(func(p string, x *Node) {
					if p == "/" {
						return
					}
					if r.Depth == "1" && strings.Count(p, "/") > 1 {
						return
					}
					o.Scope = append(o.Scope, path.Clean(base+p))
				})
			}
		}
		return finish()

	case "COPY", "MOVE":
		var dsegs []string
		destOK := false
		if !r.HasDest {
			ref.add(400, "missing Destination")
		} else if dsegs, destOK = ParseDest(r.Dest); !destOK {
			ref.add(400, "invalid Destination")
		}
		overwrite := true
		switch r.Overwrite {
		case "", "T":
		case "F":
			overwrite = false
		default:
			ref.add(400, "invalid Overwrite")
		}
		deep := true
		switch r.Depth {
		case "", "infinity":
		case "0":
			if r.Method == "MOVE" {
				ref.add(400, "unsupported Depth for MOVE")
			}
			deep = false
		case "1":
			ref.add(400, "unsupported Depth")
		default:
			ref.add(400, "invalid Depth")
		}
		if !kind.Exists() {
			ref.add(404, "missing source")
		}
		if !destOK {
			return finish()
		}
		_, dkind := t.Lookup(dsegs)
		if len(dsegs) > 0 && (dkind == NoParent || dkind == ThroughFile) {
			ref.add(409, "missing destination parent collection")
		}
		if !kind.Exists() {
			return finish()
		}
		sameRes := len(segs) == len(dsegs) && isPrefix(segs, dsegs)
		contains := !sameRes && (isPrefix(segs, dsegs) || isPrefix(dsegs, segs))
		if sameRes {
			ref.add(403, "source and destination coincide")
			if !overwrite {
				ref.add(412, "Overwrite F and destination exists")
			}
			return finish()
		}
		if dkind.Exists() && !overwrite {
			ref.add(412, "Overwrite F and destination exists")
		}
		if contains {
			o.Any4xx = true
			ref.why = append(ref.why, "source and destination contain one another")
		}
		if len(ref.codes) > 0 {
			return finish()
		}
		// result under snapshot semantics
		snap := node.Clone()
		if !deep && snap.Dir {
			snap = NewDir()
		}
		nt := t.Clone()
		if dkind.Exists() {
			if len(dsegs) == 0 {
				return finish() // destination is the root: only the refusal is defined
			}
			delete(nt.parent(dsegs).Kids, dsegs[len(dsegs)-1])
		}
		if r.Method == "MOVE" {
			if _, k := nt.Lookup(segs); k.Exists() {
				if len(segs) == 0 {
					return finish()
				}
				delete(nt.parent(segs).Kids, segs[len(segs)-1])
			}
		}
		if len(dsegs) == 0 {
			return finish()
		}
		dp := nt.parent(dsegs)
		if dp == nil {
			return finish() // the destination's parent vanished with the source: ill-defined
		}
		dp.Kids[dsegs[len(dsegs)-1]] = snap
		code := 201
		if dkind.Exists() {
			code = 204
		}
		o.Success = []Alt{{Codes: []int{code}, Tree: nt}}
		return finish()
	}

	ref.add(405, "unknown method")
	return finish()
}
