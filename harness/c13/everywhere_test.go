package c13

import (
	"fmt"
	"testing"

	"github.com/emersion/go-webdav/verifharness/vdav"
	"github.com/emersion/go-webdav/verifharness/vev"
	"github.com/emersion/go-webdav/verifharness/vx"
)

// definitive is one way of making a valid document malformed by construction: a category and an edit of the tree.
type definitive struct {
	why   string
	label string
	apply func(root *vx.Node)
}

// definitives enumerates, for a valid base document, EVERY position x EVERY variant of the malformations the
// property lists as "mutually exclusive filter or selection elements" and "invalid dates, enumeration values or
// limits".  Positions are indices into elements(root), which is deterministic, so the edit can be applied to a clone.
func definitives(b base) []definitive {
	var l []definitive
	root := b.doc
	at := func(i int, f func(t *vx.Node)) func(*vx.Node) {
		return func(r *vx.Node) { f(elements(r)[i]) }
	}
	prepend := func(n *vx.Node) func(t *vx.Node) {
		return func(t *vx.Node) { t.Children = append([]*vx.Node{clone(n)}, t.Children...) }
	}
	add := func(n *vx.Node) func(t *vx.Node) { return func(t *vx.Node) { t.Add(clone(n)) } }
	els := elements(root)
	switch b.kind {
	case "propfind":
		if kids := root.Elems(); len(kids) == 1 {
			for _, other := range []string{"prop", "allprop", "propname"} {
				if other == kids[0].Name.Local {
					continue
				}
				extra := vx.El(vdav.NSDAV, other)
				if other == "prop" {
					extra.Add(vx.El(vdav.NSDAV, "getetag"))
				}
				l = append(l, definitive{"exclusive-selection", other + "-first", at(0, prepend(extra))}, definitive{"exclusive-selection", other + "-last", at(0, add(extra))})
			}
		}
	case "calquery", "calmultiget", "cardquery", "cardmultiget":
		if root.First(vdav.NSDAV, "prop") != nil {
			for _, sel := range []string{"allprop", "propname"} {
				l = append(l, definitive{"exclusive-selection", sel + "-first", at(0, prepend(vx.El(vdav.NSDAV, sel)))})
			}
		}
		for i, t := range els {
			i, t := i, t
			pos := fmt.Sprintf("%s#%d", t.Name.Local, i)
			switch t.Name.Local {
			case "comp-filter", "prop-filter", "param-filter":
				// the document root's own VCALENDAR comp-filter with children is covered as well
				if len(t.Elems()) > 0 && t.First(t.Name.Space, "is-not-defined") == nil {
					ind := vx.El(t.Name.Space, "is-not-defined")
					l = append(l, definitive{"is-not-defined-with-siblings", pos + "/first", at(i, prepend(ind))})
				}
			case "comp":
				if t.First(vdav.NSCal, "prop") != nil && t.First(vdav.NSCal, "allprop") == nil {
					l = append(l, definitive{"allprop-with-prop", pos + "/first", at(i, prepend(vx.El(vdav.NSCal, "allprop")))})
				}
				if t.First(vdav.NSCal, "comp") != nil && t.First(vdav.NSCal, "allcomp") == nil {
					l = append(l, definitive{"allcomp-with-comp", pos + "/last", at(i, add(vx.El(vdav.NSCal, "allcomp")))})
				}
			case "address-data":
				if t.First(vdav.NSCard, "prop") != nil && t.First(vdav.NSCard, "allprop") == nil {
					l = append(l, definitive{"allprop-with-prop", pos + "/last", at(i, add(vx.El(vdav.NSCard, "allprop")))},
						definitive{"allprop-with-prop", pos + "/first", at(i, prepend(vx.El(vdav.NSCard, "allprop")))})
				}
			case "text-match":
				for _, v := range []string{"YES", "NO", "true", "false", "1", "0", "maybe", ""} {
					v := v
					l = append(l, definitive{"invalid-negate-condition", pos + "=" + v, at(i, func(t *vx.Node) { setAttr(t, "negate-condition", v) })})
				}
				if t.Name.Space == vdav.NSCard {
					for _, v := range []string{"regex", "Equals", "", "starts_with", "is"} {
						v := v
						l = append(l, definitive{"invalid-match-type", pos + "=" + v, at(i, func(t *vx.Node) { setAttr(t, "match-type", v) })})
					}
				}
			case "time-range", "expand":
				for _, which := range []string{"start", "end"} {
					for _, v := range []string{"", "Z", "20060102", "2006-01-02T15:04:05Z", "20060102T150405", "now", "20060102T150405+0100", "20060102T150405.5Z", "20060132T150405Z", "0"} {
						which, v := which, v
						l = append(l, definitive{"invalid-date", pos + "/" + which + "=" + v, at(i, func(t *vx.Node) { setAttr(t, which, v) })})
					}
				}
			case "nresults":
				for _, v := range []string{"-1", "abc", "1.5", "99999999999999999999999", "0x10", "1e3", "١"} {
					v := v
					l = append(l, definitive{"invalid-limit", pos + "=" + v, at(i, func(t *vx.Node) { t.Children = []*vx.Node{vx.T(v)} })})
				}
			}
			if t.Name.Space == vdav.NSCard && (t.Name.Local == "filter" || t.Name.Local == "prop-filter") {
				for _, v := range []string{"oneof", "ANYOF", "", "all", "allof,anyof"} {
					v := v
					l = append(l, definitive{"invalid-test", pos + "=" + v, at(i, func(t *vx.Node) { setAttr(t, "test", v) })})
				}
			}
		}
	}
	return l
}

// extraBases are further valid documents whose *valid* parts steer the servers onto their short cuts (a zero
// limit, an open-ended range, a query without a selection), so that the malformations are also tried there.
func extraBases(server string) []base {
	var l []base
	hd := [][2]string{{"Content-Type", xmlCT}, {"Depth", "1"}}
	switch server {
	case "caldav":
		q := vdav.CalQuery{Data: vdav.CalData{Present: true, Comp: &vdav.CompReq{Name: "VCALENDAR", AllProps: true, Comps: []vdav.CompReq{{Name: "VEVENT", Props: []string{"SUMMARY"}, Comps: []vdav.CompReq{{Name: "VALARM", AllProps: true, AllComps: true}}}}}},
			Filter: vdav.CompF{Name: "VCALENDAR", Props: []vdav.PropF{{Name: "PRODID", TM: &vdav.TextMatch{Text: "x"}}}, Comps: []vdav.CompF{{Name: "VEVENT", Start: p64(1e9),
				Props: []vdav.PropF{{Name: "DTSTART", End: p64(2e9)}, {Name: "ATTENDEE", Params: []vdav.ParamF{{Name: "PARTSTAT", IND: true}, {Name: "ROLE", TM: &vdav.TextMatch{Text: "CHAIR"}}}}}}}}}
		mg := vdav.CalMultiGet{Data: vdav.CalData{Present: true, Comp: &vdav.CompReq{Name: "VCALENDAR", Props: []string{"VERSION"}, Comps: []vdav.CompReq{{Name: "VEVENT", AllProps: true, Comps: []vdav.CompReq{{Name: "VALARM", AllProps: true, AllComps: true}}}}}, Expand: &[2]int64{1e9, 2e9}},
			OtherProps: []string{"getetag"}, Hrefs: []string{objICS}}
		l = append(l, base{method: "REPORT", path: collP, hdr: hd, doc: q.Node(), kind: "calquery"},
			base{method: "REPORT", path: collP, hdr: hd, doc: mg.Node(func(s string) string { return s }), kind: "calmultiget"})
	case "carddav":
		for _, lim := range []string{"0", "1", "00"} {
			lim := lim
			q := vdav.CardQuery{Data: vdav.AddrData{Present: true, Props: []string{"FN"}}, OtherProps: []string{"getetag"}, Test: "anyof", Limit: &lim,
				PFs: []vdav.CardPropF{{Name: "EMAIL", Test: "allof", TMs: []vdav.CardTM{{Text: "a", Type: "contains"}}, Params: []vdav.CardParamF{{Name: "TYPE", TM: &vdav.CardTM{Text: "home"}}, {Name: "PREF", IND: true}}}}}
			l = append(l, base{method: "REPORT", path: collP, hdr: hd, doc: q.Node(), kind: "cardquery"})
		}
		mg := vdav.CardMultiGet{Data: vdav.AddrData{Present: true, Props: []string{"FN", "EMAIL"}}, OtherProps: []string{"getetag"}, Hrefs: []string{objVCF}}
		l = append(l, base{method: "REPORT", path: collP, hdr: hd, doc: mg.Node(func(s string) string { return s }), kind: "cardmultiget"})
	}
	return l
}

// TestDefinitiveEverywhere: every valid XML base request x every position x every variant of a malformation that is
// definite by construction, alone (no other mutation), in two lexical forms.  Complete over that product.
func TestDefinitiveEverywhere(t *testing.T) {
	if vev.ReplayFile() != "" {
		t.Skip()
	}
	k := 0
	for _, server := range []string{"webdav", "caldav", "carddav", "principal"} {
		for _, b := range append(bases(server), extraBases(server)...) {
			if b.doc == nil {
				continue
			}
			for _, d := range definitives(b) {
				k++
				if !vev.MyShare(k) {
					continue
				}
				root := clone(b.doc)
				d.apply(root)
				for _, ws := range []bool{false, true} {
					body := vx.Write(root, vx.Fixed(0), ws)
					c := Case{Server: server, Method: b.method, Path: b.path, Hdr: append([][2]string{}, b.hdr...), Body: vev.B(body), Why: []string{d.why}, Mutated: true}
					run(t, nil, c, "everywhere/"+d.why)
				}
			}
		}
	}
	rec.Count("everywhere-positions", int64(k))
	rec.ExhaustiveSub("every valid XML base request (incl. zero-limit, open-ended and nested variants) x every position x every variant of: a second selection element, is-not-defined with siblings, allprop with prop, allcomp with comp, invalid negate-condition / match-type / test / date / limit values")
}
