// C13 — servers answer every request without panicking; malformed input gets 4xx.
package c13

import (
	"bufio"
	"bytes"
	"encoding/json"
	"encoding/xml"
	"fmt"
	"io"
	"mime"
	"net/http"
	"net/url"
	"os"
	"os/exec"
	"strings"
	"testing"
	"time"

	"github.com/emersion/go-ical"
	"github.com/emersion/go-vcard"
	webdav "github.com/emersion/go-webdav"
	"github.com/emersion/go-webdav/caldav"
	"github.com/emersion/go-webdav/carddav"
	"github.com/emersion/go-webdav/internal"
	"github.com/emersion/go-webdav/verifharness/cfs"
	"github.com/emersion/go-webdav/verifharness/vdav"
	"github.com/emersion/go-webdav/verifharness/vdbl"
	"github.com/emersion/go-webdav/verifharness/vev"
	"github.com/emersion/go-webdav/verifharness/vx"
	"pgregory.net/rapid"
)

var rec = vev.For("C13")

func TestMain(m *testing.M) {
	if os.Getenv("C13_BOMB_CHILD") != "" {
		bombChild()
		return
	}
	rec.SetRule("handlers {webdav, caldav, carddav, principal helper} over recording non-failing backends; a valid request built by the harness writer for a (handler, method, hierarchy level) triple, then 0-3 mutation operators: truncate at an offset, wrong root, inserted mutually exclusive sibling (is-not-defined + text-match/time-range/children, allprop + prop, allprop + propname, allcomp + comp), invalid enumeration/date/limit attribute, delete/duplicate/rename an element, swap a namespace, drop/corrupt an attribute, splice random bytes, DOCTYPE/entity tricks, empty body, invalid Depth/Overwrite/Destination/Content-Type header values, broken iCalendar/vCard bodies, unknown methods, nesting 10^3-10^4 (4*10^6 once, in a child process, thorough tier). Oracle: ServeHTTP returns without panic and writes a status; a definitely malformed request (by construction, and for bodies confirmed by the standard tokenizer failing before the root closes / the upstream iCalendar/vCard decoder failing) gets 400-499 and the backend sees no create/update/delete call. non-trivial = a mutated request that reaches request decoding; distinct by canonical JSON")
	rec.Assume("'unparseable XML' means: encoding/xml's strict tokenizer fails before the root element is closed (content after the root is never read by a handler)", "requests that are merely unusual (unknown elements, unsupported but valid methods answered 501) are only checked for 'no panic, a status'")
	vev.Main(m)
}

type Case struct {
	Server  string      `json:"server"` // webdav | caldav | carddav | principal
	Method  string      `json:"method"`
	Path    string      `json:"path"`
	Hdr     [][2]string `json:"hdr,omitempty"`
	Body    vev.B       `json:"body,omitempty"`
	Why     []string    `json:"malformed_because,omitempty"` // by construction
	Mutated bool        `json:"mutated,omitempty"`
	Chunked bool        `json:"chunked,omitempty"` // body sent with Transfer-Encoding: chunked: the handler sees ContentLength -1
	// Prelude: indices into the valid base requests of the same server, served by the same handler before the request
	// under test: what an earlier, accepted request left behind must not make a malformed one acceptable
	Prelude []int `json:"prelude,omitempty"`
}

func rawRequest(method, path string, hdr [][2]string, body string, chunked bool) (*http.Request, error) {
	var raw strings.Builder
	fmt.Fprintf(&raw, "%s %s HTTP/1.1\r\nHost: dav.example\r\n", method, cfs.EscapePath(path))
	for _, kv := range hdr {
		fmt.Fprintf(&raw, "%s: %s\r\n", kv[0], kv[1])
	}
	if chunked && len(body) > 0 {
		raw.WriteString("Transfer-Encoding: chunked\r\n\r\n")
		k := (len(body) + 1) / 2
		for _, part := range []string{body[:k], body[k:]} {
			if part != "" {
				fmt.Fprintf(&raw, "%x\r\n%s\r\n", len(part), part)
			}
		}
		raw.WriteString("0\r\n\r\n")
	} else {
		fmt.Fprintf(&raw, "Content-Length: %d\r\n\r\n", len(body))
		raw.WriteString(body)
	}
	return http.ReadRequest(bufio.NewReader(strings.NewReader(raw.String())))
}

const (
	home    = "/u/h/"
	collP   = "/u/h/c/"
	objICS  = "/u/h/c/o.ics"
	objVCF  = "/u/h/c/o.vcf"
	icalTxt = "BEGIN:VCALENDAR\r\nVERSION:2.0\r\nPRODID:-//verif//EN\r\nBEGIN:VEVENT\r\nUID:u1\r\nDTSTAMP:20200101T000000Z\r\nDTSTART;VALUE=DATE-TIME:20200101T000000Z\r\nSUMMARY;LANGUAGE=en;X-P=\"q,uoted\":hello\r\nATTENDEE;PARTSTAT=ACCEPTED,X;CN=A B:mailto:a@b\r\nEND:VEVENT\r\nEND:VCALENDAR\r\n"
	vcardTx = "BEGIN:VCARD\r\nVERSION:4.0\r\nFN:x\r\nEMAIL;TYPE=home,work:a@b\r\nTEL;TYPE=\"v,oice\";PREF=1:1\r\nEND:VCARD\r\n"
)

type world struct {
	h        http.Handler
	mutating func() []string
}

func build(server string) *world {
	w := &world{}
	switch server {
	case "caldav":
		cal, _ := ical.NewDecoder(strings.NewReader(icalTxt)).Decode()
		b := &vdbl.CalBackend{Principal: "/u/", HomeSet: home, Calendars: []caldav.Calendar{{Path: collP, Name: "c"}},
			Objects: map[string][]caldav.CalendarObject{collP: {{Path: objICS, ETag: "e", Data: cal}}}}
		w.h = &caldav.Handler{Backend: b}
		w.mutating = func() []string {
			var l []string
			for _, c := range b.Log() {
				if vdbl.Mutating(c.Op) {
					l = append(l, c.Op+" "+c.Path)
				}
			}
			return l
		}
	case "carddav":
		card, _ := vcard.NewDecoder(strings.NewReader(vcardTx)).Decode()
		b := &vdbl.CardBackend{Principal: "/u/", HomeSet: home, Books: []carddav.AddressBook{{Path: collP, Name: "c"}},
			Objects: map[string][]carddav.AddressObject{collP: {{Path: objVCF, ETag: "e", Card: card}}}}
		w.h = &carddav.Handler{Backend: b}
		w.mutating = func() []string {
			var l []string
			for _, c := range b.Log() {
				if vdbl.Mutating(c.Op) {
					l = append(l, c.Op+" "+c.Path)
				}
			}
			return l
		}
	case "webdav":
		fs := vdbl.NewMemFS()
		fs.Add(webdav.FileInfo{Path: "/", IsDir: true}, nil)
		fs.Add(webdav.FileInfo{Path: "/d", IsDir: true}, nil)
		fs.Add(webdav.FileInfo{Path: "/d/f", Size: 3, ETag: "e"}, []byte("abc"))
		fs.Add(webdav.FileInfo{Path: "/f", Size: 3, ETag: "e"}, []byte("abc"))
		w.h = &webdav.Handler{FileSystem: fs}
		w.mutating = func() []string {
			var l []string
			for _, c := range fs.Log() {
				switch c.Op {
				case "Create", "RemoveAll", "Mkdir", "Copy", "Move":
					l = append(l, c.Op+" "+c.Name)
				}
			}
			return l
		}
	default:
		opts := &webdav.ServePrincipalOptions{CurrentUserPrincipalPath: "/u/", HomeSets: []webdav.BackendSuppliedHomeSet{caldav.NewCalendarHomeSet(home)}}
		w.h = http.HandlerFunc(func(rw http.ResponseWriter, r *http.Request) { webdav.ServePrincipal(rw, r, opts) })
		w.mutating = func() []string { return nil }
	}
	return w
}

// unparseable: the standard strict tokenizer fails before the root closes
func unparseable(body []byte) bool {
	d := xml.NewDecoder(bytes.NewReader(body))
	depth, seenRoot := 0, false
	for {
		tok, err := d.Token()
		if err == io.EOF {
			return !seenRoot || depth != 0
		}
		if err != nil {
			return true
		}
		switch tok.(type) {
		case xml.StartElement:
			depth++
			seenRoot = true
		case xml.EndElement:
			depth--
			if depth == 0 {
				return false
			}
		}
	}
}

func rootName(body []byte) (xml.Name, bool) {
	d := xml.NewDecoder(bytes.NewReader(body))
	for {
		tok, err := d.Token()
		if err != nil {
			return xml.Name{}, false
		}
		if se, ok := tok.(xml.StartElement); ok {
			return se.Name, true
		}
	}
}

// upstreamDecodes reports whether the upstream iCalendar/vCard decoder accepts a body.  go-ical panics on some
// malformed content lines (a line ending inside a parameter); a body it cannot get through is unparseable.
func upstreamDecodes(decode func() error) (ok bool) {
	defer func() {
		if recover() != nil {
			ok = false
		}
	}()
	return decode() == nil
}

func dev(kind, f string, a ...any) vev.Outcome {
	return vev.Outcome{Sig: vev.Sig(kind), Msg: fmt.Sprintf(f, a...)}
}

func evaluate(c Case) (vev.Outcome, error) {
	w := build(c.Server)
	if len(c.Prelude) > 0 {
		bs := bases(c.Server)
		for _, k := range c.Prelude {
			b := bs[k%len(bs)]
			body := b.text
			if b.doc != nil {
				body = string(vx.Write(b.doc, vx.Fixed(0), false))
			}
			if preq, err := rawRequest(b.method, b.path, b.hdr, body, false); err == nil {
				cfs.Serve(w.h, preq)
			}
		}
	}
	before := len(w.mutating())
	req, err := rawRequest(c.Method, c.Path, c.Hdr, string(c.Body), c.Chunked)
	if err != nil {
		return vev.Outcome{}, nil // net/http refuses it before any handler
	}
	resp := cfs.Serve(w.h, req)
	cls := c.Server + "|" + c.Method
	if resp.Panic != nil {
		return dev(cls+"|panic", "%s %s panicked: %v\nbody %.300q", c.Method, c.Path, resp.Panic, string(c.Body)), nil
	}
	if resp.Status < 100 || resp.Status > 599 {
		return dev(cls+"|no-status", "%s %s wrote status %d", c.Method, c.Path, resp.Status), nil
	}
	why := append([]string{}, c.Why...)
	hdr := func(k string) string {
		for _, kv := range c.Hdr {
			if strings.EqualFold(kv[0], k) {
				return kv[1]
			}
		}
		return ""
	}
	_ = hdr
	get := func(k string) (string, bool) {
		v, ok := req.Header[http.CanonicalHeaderKey(k)]
		if !ok || len(v) == 0 {
			return "", false
		}
		return v[0], true
	}
	ctv, _ := get("Content-Type")
	ct, _, cterr := mime.ParseMediaType(ctv)
	// a recognisable media type with malformed parameters is not "definitely invalid"
	isXML := ct == "application/xml" || ct == "text/xml"
	_ = cterr
	level := strings.Count(strings.Trim(c.Path, "/"), "/")
	if strings.Trim(c.Path, "/") == "" {
		level = -1
	}
	// header-level malformedness, from the values net/http delivers
	switch c.Method {
	case "PROPFIND":
		if v, ok := get("Depth"); ok && v != "" && v != "0" && v != "1" && v != "infinity" {
			why = append(why, "invalid-depth")
		}
		if !isXML && len(c.Body) > 0 {
			why = append(why, "invalid-content-type")
		}
	case "COPY", "MOVE":
		if v, ok := get("Depth"); ok && v != "" && !(v == "infinity" || (v == "0" && c.Method == "COPY")) {
			why = append(why, "invalid-depth")
		}
		if v, ok := get("Overwrite"); ok && v != "" && v != "T" && v != "F" {
			why = append(why, "invalid-overwrite")
		}
		if v, ok := get("Destination"); !ok || v == "" {
			why = append(why, "missing-destination")
		} else if u, err := url.Parse(v); err != nil {
			why = append(why, "invalid-destination")
		} else {
			_ = u // a relative path is left to the FileSystem backend (LocalFileSystem refuses it: C01/C03)
		}
	case "REPORT":
		if c.Server == "caldav" || c.Server == "carddav" {
			if !isXML {
				why = append(why, "invalid-content-type")
			}
		}
	case "PROPPATCH":
		if c.Server != "principal" && !isXML {
			why = append(why, "invalid-content-type")
		}
	case "PUT":
		if c.Server == "caldav" && ct != "text/calendar" || c.Server == "carddav" && ct != "text/vcard" {
			why = append(why, "invalid-content-type")
		}
	case "MKCOL":
		if (c.Server == "caldav" || c.Server == "carddav") && level == 2 && len(c.Body) > 0 && !isXML {
			why = append(why, "invalid-content-type")
		}
	}
	// body-level malformedness, confirmed independently
	switch {
	case isXML && (c.Method == "PROPFIND" || c.Method == "REPORT" || c.Method == "PROPPATCH" || (c.Method == "MKCOL" && c.Server != "webdav" && len(c.Body) > 0 && level == 2)):
		if c.Server == "principal" && c.Method != "PROPFIND" {
			break
		}
		if c.Server == "webdav" && c.Method == "REPORT" {
			break
		}
		if unparseable([]byte(c.Body)) {
			why = append(why, "unparseable-xml")
		} else if rn, ok := rootName([]byte(c.Body)); ok {
			want := map[string][]xml.Name{
				"PROPFIND":  {{Space: vdav.NSDAV, Local: "propfind"}},
				"PROPPATCH": {{Space: vdav.NSDAV, Local: "propertyupdate"}},
				"MKCOL":     {{Space: vdav.NSDAV, Local: "mkcol"}},
				"REPORT":    {{Space: vdav.NSCal, Local: "calendar-query"}, {Space: vdav.NSCal, Local: "calendar-multiget"}},
			}[c.Method]
			if c.Method == "REPORT" && c.Server == "carddav" {
				want = []xml.Name{{Space: vdav.NSCard, Local: "addressbook-query"}, {Space: vdav.NSCard, Local: "addressbook-multiget"}}
			}
			good := false
			for _, w := range want {
				if w == rn {
					good = true
				}
			}
			if !good {
				why = append(why, "wrong-root")
			}
		}
	case c.Method == "PUT" && c.Server == "caldav" && ct == "text/calendar":
		if !upstreamDecodes(func() error { _, err := ical.NewDecoder(strings.NewReader(string(c.Body))).Decode(); return err }) {
			why = append(why, "unparseable-icalendar")
		}
	case c.Method == "PUT" && c.Server == "carddav" && ct == "text/vcard":
		if !upstreamDecodes(func() error { _, err := vcard.NewDecoder(strings.NewReader(string(c.Body))).Decode(); return err }) {
			why = append(why, "unparseable-vcard")
		}
	}
	if len(why) == 0 {
		return vev.Outcome{}, nil
	}
	if resp.Status < 400 || resp.Status > 499 {
		return dev(cls+"|malformed-not-4xx|"+why[0], "%s %s is malformed (%v) but was answered %d (%.200q)\nheaders %v\nbody %.400q", c.Method, c.Path, why, resp.Status, resp.Body, c.Hdr, string(c.Body)), nil
	}
	if m := w.mutating()[before:]; len(m) > 0 {
		return dev(cls+"|malformed-reached-backend|"+why[0], "%s %s is malformed (%v), answered %d, but the backend saw %v", c.Method, c.Path, why, resp.Status, m), nil
	}
	return vev.Outcome{}, nil
}

// ---------------------------------------------------------------------------
// valid base requests

type base struct {
	method, path string
	hdr          [][2]string
	doc          *vx.Node // XML body (nil: none or text body)
	text         string
	kind         string // propfind | calquery | calmultiget | cardquery | cardmultiget | mkcol | proppatch | put | plain | copymove
}

const xmlCT = "application/xml; charset=utf-8"

func p64(v int64) *int64 { return &v }
func strp(s string) *string { return &s }

func bases(server string) []base {
	pf := func(kids ...*vx.Node) *vx.Node { return vx.El(vdav.NSDAV, "propfind", kids...) }
	propNames := vx.El(vdav.NSDAV, "prop", vx.El(vdav.NSDAV, "resourcetype"), vx.El(vdav.NSDAV, "getetag"), vx.El(vdav.NSDAV, "displayname"))
	var l []base
	paths := map[string][]string{"webdav": {"/", "/d", "/d/f", "/missing"}, "caldav": {"/", "/u/", home, collP, objICS, "/u/h/c/new.ics", objICS + "/extra", objICS + "/extra/deeper/", "/u/h/c/x/y/z/w/v"}, "carddav": {"/", "/u/", home, collP, objVCF, "/u/h/c/new.vcf", objVCF + "/extra", objVCF + "/extra/deeper/", "/u/h/c/x/y/z/w/v"}, "principal": {"/u/"}}[server]
	for _, p := range paths {
		l = append(l,
			base{method: "PROPFIND", path: p, hdr: [][2]string{{"Content-Type", xmlCT}, {"Depth", "1"}}, doc: pf(propNames), kind: "propfind"},
			base{method: "PROPFIND", path: p, hdr: [][2]string{{"Content-Type", "text/xml"}, {"Depth", "0"}}, doc: pf(vx.El(vdav.NSDAV, "allprop")), kind: "propfind"},
			base{method: "PROPFIND", path: p, hdr: [][2]string{{"Content-Type", xmlCT}}, doc: pf(vx.El(vdav.NSDAV, "propname")), kind: "propfind"},
			base{method: "OPTIONS", path: p, kind: "plain"}, base{method: "GET", path: p, kind: "plain"}, base{method: "HEAD", path: p, kind: "plain"}, base{method: "DELETE", path: p, kind: "plain"},
			base{method: "MKCOL", path: p, kind: "plain"},
			base{method: "COPY", path: p, hdr: [][2]string{{"Destination", "/dest"}, {"Overwrite", "T"}, {"Depth", "infinity"}}, kind: "copymove"},
			base{method: "MOVE", path: p, hdr: [][2]string{{"Destination", "http://dav.example/dest"}, {"Overwrite", "F"}}, kind: "copymove"},
			base{method: "PROPPATCH", path: p, hdr: [][2]string{{"Content-Type", xmlCT}}, doc: vx.El(vdav.NSDAV, "propertyupdate", vx.El(vdav.NSDAV, "set", vx.El(vdav.NSDAV, "prop", vx.El(vdav.NSDAV, "displayname", vx.T("n"))))), kind: "proppatch"},
			// set and remove instructions interleaved, several properties each, foreign and no-value ones
			base{method: "PROPPATCH", path: p, hdr: [][2]string{{"Content-Type", "text/xml"}}, doc: vx.El(vdav.NSDAV, "propertyupdate",
				vx.El(vdav.NSDAV, "remove", vx.El(vdav.NSDAV, "prop", vx.El("urn:x", "gone"), vx.El(vdav.NSDAV, "getcontentlanguage"))),
				vx.El(vdav.NSDAV, "set", vx.El(vdav.NSDAV, "prop", vx.El(vdav.NSDAV, "displayname", vx.T("n")), vx.El("urn:x", "kept", vx.El("urn:x", "inner", vx.T("v"))), vx.El(vdav.NSCal, "calendar-description", vx.T("d")))),
				vx.El(vdav.NSDAV, "remove", vx.El(vdav.NSDAV, "prop", vx.El(vdav.NSCard, "addressbook-description")))), kind: "proppatch"},
		)
	}
	switch server {
	case "webdav":
		l = append(l, base{method: "PUT", path: "/new", text: "content", kind: "plain"}, base{method: "PUT", path: "/f", hdr: [][2]string{{"If-Match", `"e"`}}, text: "content", kind: "plain"})
	case "caldav":
		q := vdav.CalQuery{Data: vdav.CalData{Present: true, Comp: &vdav.CompReq{Name: "VCALENDAR", Props: []string{"VERSION"}, Comps: []vdav.CompReq{{Name: "VEVENT", AllProps: true, AllComps: true}}}, Expand: &[2]int64{1e9, 2e9}},
			OtherProps: []string{"getetag"},
			Filter: vdav.CompF{Name: "VCALENDAR", Comps: []vdav.CompF{{Name: "VEVENT", Start: p64(1e9), End: p64(2e9),
				Props: []vdav.PropF{{Name: "SUMMARY", TM: &vdav.TextMatch{Text: "a", Neg: true}, Params: []vdav.ParamF{{Name: "X-P", TM: &vdav.TextMatch{Text: "v"}}}}, {Name: "X-A", IND: true}},
				Comps: []vdav.CompF{{Name: "VALARM", IND: true}}}}}}
		mg := vdav.CalMultiGet{Data: vdav.CalData{Present: true}, OtherProps: []string{"getetag"}, Hrefs: []string{objICS, "/u/h/c/none.ics"}}
		l = append(l,
			base{method: "REPORT", path: collP, hdr: [][2]string{{"Content-Type", xmlCT}, {"Depth", "1"}}, doc: vdav.CalQuery{Filter: vdav.CompF{Name: "VCALENDAR"}}.Node(), kind: "calquery"},
			base{method: "REPORT", path: collP, hdr: [][2]string{{"Content-Type", xmlCT}}, doc: vdav.CalQuery{Data: vdav.CalData{Present: true}, Filter: vdav.CompF{Name: "VCALENDAR", Comps: []vdav.CompF{{Name: "VTODO"}}}}.Node(), kind: "calquery"},
			base{method: "REPORT", path: collP, hdr: [][2]string{{"Content-Type", xmlCT}, {"Depth", "1"}}, doc: q.Node(), kind: "calquery"},
			base{method: "REPORT", path: collP, hdr: [][2]string{{"Content-Type", xmlCT}, {"Depth", "1"}}, doc: mg.Node(func(s string) string { return s }), kind: "calmultiget"},
			base{method: "PUT", path: "/u/h/c/new.ics", hdr: [][2]string{{"Content-Type", "text/calendar; charset=utf-8"}}, text: icalTxt, kind: "put"},
			base{method: "MKCOL", path: "/u/h/newcal/", hdr: [][2]string{{"Content-Type", xmlCT}}, doc: vx.El(vdav.NSDAV, "mkcol", vx.El(vdav.NSDAV, "set", vx.El(vdav.NSDAV, "prop", vx.El(vdav.NSDAV, "resourcetype", vx.El(vdav.NSDAV, "collection"), vx.El(vdav.NSCal, "calendar")), vx.El(vdav.NSDAV, "displayname", vx.T("New"))))), kind: "mkcol"},
		)
	case "carddav":
		lim := "5"
		q := vdav.CardQuery{Data: vdav.AddrData{Present: true, Props: []string{"FN", "EMAIL"}}, OtherProps: []string{"getetag"}, Test: "allof", Limit: &lim,
			PFs: []vdav.CardPropF{{Name: "EMAIL", Test: "anyof", TMs: []vdav.CardTM{{Text: "a", Type: "starts-with", Neg: true}, {Text: "b"}}, Params: []vdav.CardParamF{{Name: "TYPE", TM: &vdav.CardTM{Text: "home", Type: "equals"}}}}, {Name: "NICKNAME", IND: true}}}
		mg := vdav.CardMultiGet{Data: vdav.AddrData{Present: true, AllProp: true}, OtherProps: []string{"getetag"}, Hrefs: []string{objVCF, "/u/h/c/none.vcf"}}
		l = append(l,
			base{method: "REPORT", path: collP, hdr: [][2]string{{"Content-Type", xmlCT}, {"Depth", "1"}}, doc: vdav.CardQuery{}.Node(), kind: "cardquery"},
			base{method: "REPORT", path: collP, hdr: [][2]string{{"Content-Type", xmlCT}}, doc: vdav.CardQuery{Data: vdav.AddrData{Present: true, AllProp: true}, PFs: []vdav.CardPropF{{Name: "FN"}}}.Node(), kind: "cardquery"},
			base{method: "REPORT", path: collP, hdr: [][2]string{{"Content-Type", xmlCT}, {"Depth", "1"}}, doc: q.Node(), kind: "cardquery"},
			base{method: "REPORT", path: collP, hdr: [][2]string{{"Content-Type", "text/xml"}, {"Depth", "1"}}, doc: mg.Node(func(s string) string { return s }), kind: "cardmultiget"},
			// result limits at and beyond the range of int (after C13-s15)
			base{method: "REPORT", path: collP, hdr: [][2]string{{"Content-Type", xmlCT}, {"Depth", "1"}}, doc: vdav.CardQuery{Data: vdav.AddrData{Present: true, AllProp: true}, Limit: strp("9223372036854775807")}.Node(), kind: "cardquery"},
			base{method: "REPORT", path: collP, hdr: [][2]string{{"Content-Type", xmlCT}, {"Depth", "1"}}, doc: vdav.CardQuery{Data: vdav.AddrData{Present: true, AllProp: true}, Limit: strp("9223372036854775808")}.Node(), kind: "cardquery"},
			base{method: "REPORT", path: collP, hdr: [][2]string{{"Content-Type", xmlCT}, {"Depth", "1"}}, doc: vdav.CardQuery{Data: vdav.AddrData{Present: true, AllProp: true}, Limit: strp("18446744073709551615")}.Node(), kind: "cardquery"},
			base{method: "PUT", path: "/u/h/c/new.vcf", hdr: [][2]string{{"Content-Type", "text/vcard"}}, text: vcardTx, kind: "put"},
			base{method: "MKCOL", path: "/u/h/newbook/", hdr: [][2]string{{"Content-Type", xmlCT}}, doc: vx.El(vdav.NSDAV, "mkcol", vx.El(vdav.NSDAV, "set", vx.El(vdav.NSDAV, "prop", vx.El(vdav.NSDAV, "resourcetype", vx.El(vdav.NSDAV, "collection"), vx.El(vdav.NSCard, "addressbook")), vx.El(vdav.NSDAV, "displayname", vx.T("New"))))), kind: "mkcol"},
		)
	}
	return l
}

// ---------------------------------------------------------------------------
// mutation operators

type chooser struct{ rt *rapid.T }

func (c chooser) Pick(label string, n int) int { return rapid.IntRange(0, n-1).Draw(c.rt, label) }

func clone(n *vx.Node) *vx.Node {
	c := *n
	c.Attrs = append([]vx.Attr(nil), n.Attrs...)
	c.Children = nil
	for _, k := range n.Children {
		c.Children = append(c.Children, clone(k))
	}
	return &c
}

func elements(n *vx.Node) []*vx.Node {
	var l []*vx.Node
	var walk func(x *vx.Node)
	walk = func(x *vx.Node) {
		if x.Kind == vx.Element {
			l = append(l, x)
			for _, k := range x.Children {
				walk(k)
			}
		}
	}
	walk(n)
	return l
}

func find(n *vx.Node, local string) []*vx.Node {
	var l []*vx.Node
	for _, e := range elements(n) {
		if e.Name.Local == local {
			l = append(l, e)
		}
	}
	return l
}

// structural: returns (why malformed by construction, applied)
func mutateTree(rt *rapid.T, b base, root *vx.Node, definitive bool) (string, bool) {
	els := elements(root)
	pick := func(l []*vx.Node, label string) *vx.Node {
		if len(l) == 0 {
			return nil
		}
		return l[rapid.IntRange(0, len(l)-1).Draw(rt, label)]
	}
	op := rapid.IntRange(0, 9).Draw(rt, "treeop")
	if definitive {
		op = 1 + rapid.IntRange(0, 1).Draw(rt, "defop")
	} else if op == 1 || op == 2 {
		op = 3 + op
	}
	switch op {
	case 0: // wrong root
		switch rapid.IntRange(0, 2).Draw(rt, "rootkind") {
		case 0:
			root.Name.Local = rapid.SampledFrom([]string{"propertyupdate", "multistatus", "x", "calendar-querY", "propfind2"}).Draw(rt, "rootname")
			if root.Name.Local == "propertyupdate" && b.kind == "proppatch" {
				root.Name.Local = "propfind"
			}
		case 1:
			root.Name.Space = rapid.SampledFrom([]string{"", "urn:x", "DAV", "urn:ietf:params:xml:ns:caldav2"}).Draw(rt, "rootns")
		default:
			if root.Name.Space == vdav.NSDAV {
				root.Name.Space = vdav.NSCal
			} else {
				root.Name.Space = vdav.NSDAV
			}
		}
		return "", true // evaluate() decides from the final body whether the root is wrong
	case 1: // exclusive sibling
		switch b.kind {
		case "propfind":
			kids := root.Elems()
			if len(kids) == 1 {
				other := map[string]string{"prop": "allprop", "allprop": "propname", "propname": "allprop"}[kids[0].Name.Local]
				extra := vx.El(vdav.NSDAV, other)
				if rapid.Bool().Draw(rt, "before") {
					root.Children = append([]*vx.Node{extra}, root.Children...)
				} else {
					root.Add(extra)
				}
				return "exclusive-selection", true
			}
		case "calquery", "calmultiget", "cardquery", "cardmultiget":
			switch rapid.IntRange(0, 3).Draw(rt, "exkind") {
			case 0:
				root.Children = append([]*vx.Node{vx.El(vdav.NSDAV, rapid.SampledFrom([]string{"allprop", "propname"}).Draw(rt, "sel"))}, root.Children...)
				if root.First(vdav.NSDAV, "prop") != nil {
					return "exclusive-selection", true
				}
			case 1:
				if t := pick(append(find(root, "prop-filter"), find(root, "comp-filter")...), "indtarget"); t != nil && len(t.Elems()) > 0 && t.First(t.Name.Space, "is-not-defined") == nil {
					t.Children = append([]*vx.Node{vx.El(t.Name.Space, "is-not-defined")}, t.Children...)
					return "is-not-defined-with-siblings", true
				}
			case 2:
				if t := pick(find(root, "comp"), "comptarget"); t != nil {
					if rapid.Bool().Draw(rt, "propsfirst") && t.First(vdav.NSCal, "prop") != nil && t.First(vdav.NSCal, "allprop") == nil {
						t.Children = append([]*vx.Node{vx.El(vdav.NSCal, "allprop")}, t.Children...)
						return "allprop-with-prop", true
					}
					if t.First(vdav.NSCal, "comp") != nil && t.First(vdav.NSCal, "allcomp") == nil {
						t.Add(vx.El(vdav.NSCal, "allcomp"))
						return "allcomp-with-comp", true
					}
				}
			default:
				if t := pick(find(root, "address-data"), "adtarget"); t != nil && t.First(vdav.NSCard, "prop") != nil && t.First(vdav.NSCard, "allprop") == nil {
					t.Add(vx.El(vdav.NSCard, "allprop"))
					return "allprop-with-prop", true
				}
			}
		}
		return "", false
	case 2: // invalid enumeration / date / limit
		switch b.kind {
		case "calquery":
			switch rapid.IntRange(0, 1).Draw(rt, "enumkind") {
			case 0:
				if t := pick(find(root, "text-match"), "tm"); t != nil {
					setAttr(t, "negate-condition", rapid.SampledFrom([]string{"YES", "true", "1", "maybe", ""}).Draw(rt, "neg"))
					return "invalid-negate-condition", true
				}
			default:
				if t := pick(append(find(root, "time-range"), find(root, "expand")...), "tr"); t != nil {
					setAttr(t, rapid.SampledFrom([]string{"start", "end"}).Draw(rt, "which"), rapid.SampledFrom([]string{"20060102", "2006-01-02T15:04:05Z", "20060102T150405", "now", "", "20060102T150405+0100"}).Draw(rt, "date"))
					return "invalid-date", true
				}
			}
		case "cardquery":
			switch rapid.IntRange(0, 3).Draw(rt, "enumkind") {
			case 0:
				if t := pick(append(find(root, "filter"), find(root, "prop-filter")...), "tt"); t != nil {
					setAttr(t, "test", rapid.SampledFrom([]string{"oneof", "ANYOF", "", "all"}).Draw(rt, "test"))
					return "invalid-test", true
				}
			case 1:
				if t := pick(find(root, "text-match"), "tm"); t != nil {
					setAttr(t, "match-type", rapid.SampledFrom([]string{"regex", "Equals", "", "starts_with"}).Draw(rt, "mt"))
					return "invalid-match-type", true
				}
			case 2:
				if t := pick(find(root, "text-match"), "tm"); t != nil {
					setAttr(t, "negate-condition", rapid.SampledFrom([]string{"YES", "true", "0", ""}).Draw(rt, "neg"))
					return "invalid-negate-condition", true
				}
			default:
				if t := pick(find(root, "nresults"), "nr"); t != nil {
					t.Children = []*vx.Node{vx.T(rapid.SampledFrom([]string{"-1", "abc", "1.5", "99999999999999999999999"}).Draw(rt, "lim"))}
					return "invalid-limit", true
				}
			}
		}
		return "", false
	case 3: // delete an element
		if t := pick(els[1:], "del"); t != nil {
			removeNode(root, t)
			return "", true
		}
	case 4: // duplicate an element
		if t := pick(els[1:], "dup"); t != nil {
			duplicateNode(root, t)
			return "", true
		}
	case 5: // rename an element
		if t := pick(els[1:], "ren"); t != nil {
			t.Name.Local = rapid.SampledFrom([]string{"x", "prop", "href", "comp-filter", "filter", t.Name.Local + "2"}).Draw(rt, "newname")
			return "", true
		}
	case 6: // swap a namespace
		if t := pick(els[1:], "nsw"); t != nil {
			t.Name.Space = rapid.SampledFrom([]string{"", vdav.NSDAV, vdav.NSCal, vdav.NSCard, "urn:x"}).Draw(rt, "newns")
			return "", true
		}
	case 7: // drop or corrupt an attribute
		var with []*vx.Node
		for _, e := range els {
			if len(e.Attrs) > 0 {
				with = append(with, e)
			}
		}
		if t := pick(with, "attr"); t != nil {
			i := rapid.IntRange(0, len(t.Attrs)-1).Draw(rt, "ai")
			if rapid.Bool().Draw(rt, "dropattr") {
				t.Attrs = append(t.Attrs[:i], t.Attrs[i+1:]...)
			} else {
				t.Attrs[i].Value = rapid.SampledFrom([]string{"", " ", "\x7f", "é", strings.Repeat("A", 300)}).Draw(rt, "av")
			}
			return "", true
		}
	case 8: // deep nesting inside a random element
		if t := pick(els, "deep"); t != nil {
			n := rapid.SampledFrom([]int{1000, 3000, 10000}).Draw(rt, "depth")
			inner := vx.El("urn:deep", "d")
			cur := inner
			for i := 1; i < n; i++ {
				k := vx.El("urn:deep", "d")
				cur.Children = []*vx.Node{k}
				cur = k
			}
			t.Add(inner)
			return "", true
		}
	case 9: // unknown extra elements and attributes (must be ignored)
		if t := pick(els, "extra"); t != nil {
			t.Add(vx.El("urn:unknown", "extension", vx.T("x")))
			t.With("urn:unknown", "ext", "1")
			return "", true
		}
	}
	return "", false
}

func setAttr(n *vx.Node, name, val string) {
	for i := range n.Attrs {
		if n.Attrs[i].Name.Space == "" && n.Attrs[i].Name.Local == name {
			n.Attrs[i].Value = val
			return
		}
	}
	n.With("", name, val)
}

func removeNode(root, t *vx.Node) {
	for _, e := range elements(root) {
		for i, k := range e.Children {
			if k == t {
				e.Children = append(e.Children[:i:i], e.Children[i+1:]...)
				return
			}
		}
	}
}

func duplicateNode(root, t *vx.Node) {
	for _, e := range elements(root) {
		for i, k := range e.Children {
			if k == t {
				e.Children = append(e.Children[:i+1:i+1], append([]*vx.Node{clone(t)}, e.Children[i+1:]...)...)
				return
			}
		}
	}
}

func genCase(rt *rapid.T) Case {
	server := rapid.SampledFrom([]string{"webdav", "caldav", "caldav", "carddav", "carddav", "principal"}).Draw(rt, "server")
	bs := bases(server)
	b := bs[rapid.IntRange(0, len(bs)-1).Draw(rt, "base")]
	// bias toward requests with bodies
	if b.doc == nil && b.text == "" && rapid.IntRange(0, 2).Draw(rt, "rebias") != 0 {
		var withBody []base
		for _, x := range bs {
			if x.doc != nil || x.text != "" {
				withBody = append(withBody, x)
			}
		}
		b = withBody[rapid.IntRange(0, len(withBody)-1).Draw(rt, "base2")]
	}
	wantDefinitive := rapid.IntRange(0, 3).Draw(rt, "definitive") == 0
	if wantDefinitive {
		var reports []base
		for _, x := range bs {
			if strings.HasSuffix(x.kind, "query") || strings.HasSuffix(x.kind, "multiget") {
				reports = append(reports, x)
			}
		}
		if len(reports) > 0 && rapid.IntRange(0, 2).Draw(rt, "onreport") != 0 {
			b = reports[rapid.IntRange(0, len(reports)-1).Draw(rt, "reportbase")]
		}
	}
	c := Case{Server: server, Method: b.method, Path: b.path, Hdr: append([][2]string(nil), b.hdr...)}
	var root *vx.Node
	if b.doc != nil {
		root = clone(b.doc)
	}
	nmut := rapid.IntRange(0, 3).Draw(rt, "nmut")
	body := b.text
	textOps := 0
	// definitive mode: exactly one structural mutation that makes the document
	// malformed by construction, and nothing else that could undo it
	definitive := root != nil && wantDefinitive
	if definitive {
		for try := 0; try < 6; try++ {
			why, ok := mutateTree(rt, b, root, true)
			if ok {
				c.Mutated = true
			}
			if why != "" {
				c.Why = append(c.Why, why)
				break
			}
			if ok {
				break // applied but not definitive (e.g. selection element added where no prop was)
			}
		}
	}
	for i := 0; i < nmut; i++ {
		mc := rapid.IntRange(0, 9).Draw(rt, "mutclass")
		if definitive && mc != 4 && mc != 5 {
			continue
		}
		switch mc {
		case 0, 1, 2, 3: // structural
			if root != nil {
				why, ok := mutateTree(rt, b, root, false)
				if ok {
					c.Mutated = true
				}
				if why != "" {
					c.Why = append(c.Why, why)
				}
			}
		case 4, 5: // header
			c.Mutated = true
			switch rapid.IntRange(0, 4).Draw(rt, "hdrop") {
			case 0:
				v := rapid.SampledFrom([]string{"2", "-1", "Infinity", "0, 1", " 1", "one"}).Draw(rt, "depth")
				setHdr(&c, "Depth", v)
			case 1:
				if b.kind == "copymove" {
					setHdr(&c, "Overwrite", rapid.SampledFrom([]string{"t", "yes", "TF", "0"}).Draw(rt, "ow"))
				}
			case 2:
				if b.kind == "copymove" {
					switch rapid.IntRange(0, 2).Draw(rt, "destop") {
					case 0:
						delHdr(&c, "Destination")
					case 1:
						setHdr(&c, "Destination", rapid.SampledFrom([]string{"http://[::1", "%zz", "http://h/%zz"}).Draw(rt, "dest"))
					default:
						if server == "webdav" {
							setHdr(&c, "Destination", rapid.SampledFrom([]string{"relative/path", "b", "http://dav.example", "http://dav.example?x", "?x=1", "#dst", "mailto:a@b", "//dav.example"}).Draw(rt, "reldest"))
							}
					}
				}
			case 3:
				if b.doc != nil || b.kind == "put" {
					v := rapid.SampledFrom([]string{"text/plain", "application/json", "text/", "; charset=utf-8", "application/xml; charset=\"utf-8", "text/calendar2", ""}).Draw(rt, "ct")
					if v == "" {
						delHdr(&c, "Content-Type")
					} else {
						setHdr(&c, "Content-Type", v)
					}
				}
			default:
				setHdr(&c, "If-Match", rapid.SampledFrom([]string{"abc", `W/"x"`, `"unterminated`, "*"}).Draw(rt, "im"))
			}
		default: // textual (applied after serialisation)
			textOps++
		}
	}
	if root != nil {
		body = string(vx.Write(root, chooser{rt}, true))
	}
	for i := 0; i < textOps && body != ""; i++ {
		c.Mutated = true
		switch rapid.IntRange(0, 4).Draw(rt, "textop") {
		case 0:
			body = body[:rapid.IntRange(0, len(body)-1).Draw(rt, "cut")]
		case 1:
			at := rapid.IntRange(0, len(body)).Draw(rt, "at")
			body = body[:at] + string(rapid.SliceOfN(rapid.Byte(), 1, 6).Draw(rt, "junk")) + body[at:]
		case 2:
			body = ""
		case 3:
			if root != nil {
				body = `<!DOCTYPE x [<!ENTITY e "v"><!ENTITY f SYSTEM "file:///etc/passwd">]>` + strings.Replace(body, ">", ">&"+rapid.SampledFrom([]string{"e", "f", "undefined"}).Draw(rt, "ent")+";", 2)
			} else {
				body = strings.Replace(body, "\r\nEND:", "\r\nEND", 1)
			}
		default:
			if root == nil {
				lines := strings.Split(body, "\r\n")
				k := rapid.IntRange(0, len(lines)-1).Draw(rt, "line")
				lines[k] = rapid.SampledFrom([]string{"", "NOCOLON", ":novalue", "BEGIN:VEVENT", "END:VCALENDAR", " folded"}).Draw(rt, "newline")
				body = strings.Join(lines, "\r\n")
			} else {
				body = strings.Replace(body, "<", "< ", 1)
			}
		}
	}
	if rapid.IntRange(0, 19).Draw(rt, "unknownmethod") == 0 {
		c.Method = rapid.SampledFrom([]string{"LOCK", "UNLOCK", "PATCH", "ACL", "SEARCH", "FROB", "propfind"}).Draw(rt, "um")
		c.Why = nil
		c.Mutated = true
	}
	c.Body = vev.B(body)
	return c
}

func setHdr(c *Case, k, v string) {
	for i := range c.Hdr {
		if strings.EqualFold(c.Hdr[i][0], k) {
			c.Hdr[i][1] = v
			return
		}
	}
	c.Hdr = append(c.Hdr, [2]string{k, v})
}

func delHdr(c *Case, k string) {
	var l [][2]string
	for _, kv := range c.Hdr {
		if !strings.EqualFold(kv[0], k) {
			l = append(l, kv)
		}
	}
	c.Hdr = l
}

func run(t *testing.T, rt *rapid.T, c Case, class string) {
	if len(c.Body) > 0 && !c.Chunked {
		if rt != nil {
			c.Chunked = rapid.IntRange(0, 2).Draw(rt, "chunked") == 0
		} else if os.Getenv("VERIF_REPLAY") == "" {
			defer func() { // enumerators: every request with a body a second time without a declared length
				c.Chunked = true
				run(t, nil, c, class+"/chunked")
			}()
		}
	}
	if c.Chunked {
		rec.Count("body-without-declared-length", 1)
	}
	if len(c.Prelude) == 0 && !c.Chunked {
		if rt != nil {
			if rapid.IntRange(0, 2).Draw(rt, "prelude?") == 0 {
				c.Prelude = rapid.SliceOfN(rapid.IntRange(0, 99), 1, 2).Draw(rt, "prelude")
			}
		} else if os.Getenv("VERIF_REPLAY") == "" && len(c.Why) > 0 {
			defer func() { // enumerators: every definitely malformed request once more after an accepted request
				h := vev.Hash(mustJSON(c))
				c.Prelude = []int{int(h % 97), int(h / 97 % 89)}
				run(t, nil, c, class+"/after-earlier-requests")
			}()
		}
	}
	if len(c.Prelude) > 0 {
		rec.Count("after-earlier-requests-on-the-same-handler", 1)
	}
	rec.Case(class, c.Mutated && len(c.Body) > 0, mustJSON(c), func() any {
		s := c
		if len(s.Body) > 600 {
			s.Body = s.Body[:600] + "…"
		}
		return s
	})
	for _, w := range c.Why {
		rec.Count("malformed/"+w, 1)
	}
	o, err := evaluate(c)
	if err != nil {
		if rt != nil {
			rt.Fatalf("harness: %v", err)
		}
		t.Fatalf("harness: %v", err)
	}
	if o.OK() || rec.Known(o.Sig) {
		return
	}
	if rt != nil {
		rec.Fail(rt, o.Sig, "c13", c, "%s", o.Msg)
	} else {
		rec.Violation(t, o.Sig, "c13", c, "%s", o.Msg)
	}
}

func TestAReplay(t *testing.T) {
	vev.RunReplays(t, rec, func(kind string, raw json.RawMessage) (vev.Outcome, error) {
		var c Case
		if err := json.Unmarshal(raw, &c); err != nil {
			return vev.Outcome{}, err
		}
		return evaluate(c)
	})
}

// every valid base request, and every truncation offset of its body (thorough: every offset; quick: every 7th)
func TestBasesAndTruncations(t *testing.T) {
	if vev.ReplayFile() != "" {
		t.Skip()
	}
	idx := 0
	stride := 7
	if vev.Thorough() {
		stride = 1
	}
	for _, server := range []string{"webdav", "caldav", "carddav", "principal"} {
		for _, b := range bases(server) {
			body := b.text
			if b.doc != nil {
				body = string(vx.Write(b.doc, vx.Fixed(0), false))
			}
			c := Case{Server: server, Method: b.method, Path: b.path, Hdr: b.hdr, Body: vev.B(body)}
			run(t, nil, c, "base/"+server)
			if len(body) > 2000 {
				continue
			}
			for k := 0; k < len(body); k++ {
				idx++
				if !vev.MyShare(idx) || (k+vev.SeedValue())%stride != 0 {
					continue
				}
				tc := c
				tc.Body = vev.B(body[:k])
				tc.Mutated = true
				run(t, nil, tc, "truncate/"+server)
			}
		}
	}
	if vev.Thorough() {
		rec.ExhaustiveSub("every valid base request of every handler and every truncation offset of its body")
	}
}

// every base request x every value of the header families (valid and invalid)
func TestHeaderMatrix(t *testing.T) {
	if vev.ReplayFile() != "" {
		t.Skip()
	}
	fam := map[string][]string{
		"Depth":        {"0", "1", "infinity", "2", "-1", "Infinity", "0, 1", "one", "00", "1 "},
		"Overwrite":    {"T", "F", "t", "yes", "TF", "0", "true"},
		"Destination":  {"/dest", "http://dav.example/dest", "http://[::1", "%zz", "http://h/%zz", "\x00DEL", "http://dav.example", "http://dav.example?x", "?x=1", "#dst", "mailto:a@b", "//dav.example", "/"},
		"Content-Type": {"application/xml", "text/xml; charset=utf-8", "text/plain", "application/json", "text/", "; charset=utf-8", "text/calendar", "text/vcard", "text/calendar2", "TEXT/CALENDAR", "\x00DEL", "application/xml, text/plain"},
	}
	idx := 0
	for _, server := range []string{"webdav", "caldav", "carddav", "principal"} {
		for _, b := range bases(server) {
			body := b.text
			if b.doc != nil {
				body = string(vx.Write(b.doc, vx.Fixed(0), false))
			}
			for name, vals := range fam {
				for _, v := range vals {
					idx++
					if !vev.MyShare(idx) {
						continue
					}
					c := Case{Server: server, Method: b.method, Path: b.path, Hdr: append([][2]string(nil), b.hdr...), Body: vev.B(body), Mutated: true}
					if v == "\x00DEL" {
						delHdr(&c, name)
					} else {
						setHdr(&c, name, v)
					}
					run(t, nil, c, "headers/"+server)
				}
			}
		}
	}
	rec.ExhaustiveSub("every base request x {10 Depth, 7 Overwrite, 13 Destination, 12 Content-Type} header values")
}

// a catalogue of documents that are malformed by construction, one per category and position
func TestMalformedCatalogue(t *testing.T) {
	if vev.ReplayFile() != "" {
		t.Skip()
	}
	const cq = `<C:calendar-query xmlns:C="urn:ietf:params:xml:ns:caldav" xmlns:D="DAV:">`
	const aq = `<A:addressbook-query xmlns:A="urn:ietf:params:xml:ns:carddav" xmlns:D="DAV:">`
	calFilter := `<C:filter><C:comp-filter name="VCALENDAR"/></C:filter>`
	type doc struct{ server, method, path, why, body string }
	docs := []doc{
		{"webdav", "PROPFIND", "/", "exclusive-selection", `<D:propfind xmlns:D="DAV:"><D:allprop/><D:prop><D:getetag/></D:prop></D:propfind>`},
		{"webdav", "PROPFIND", "/d", "exclusive-selection", `<D:propfind xmlns:D="DAV:"><D:prop><D:getetag/></D:prop><D:propname/></D:propfind>`},
		{"caldav", "PROPFIND", collP, "exclusive-selection", `<D:propfind xmlns:D="DAV:"><D:propname/><D:allprop/></D:propfind>`},
		{"carddav", "PROPFIND", home, "exclusive-selection", `<D:propfind xmlns:D="DAV:"><D:allprop/><D:propname/></D:propfind>`},
		{"principal", "PROPFIND", "/u/", "exclusive-selection", `<D:propfind xmlns:D="DAV:"><D:allprop/><D:propname/></D:propfind>`},
		{"caldav", "REPORT", collP, "exclusive-selection", cq + `<D:allprop/><D:prop><D:getetag/></D:prop>` + calFilter + `</C:calendar-query>`},
		{"caldav", "REPORT", collP, "exclusive-selection", `<C:calendar-multiget xmlns:C="urn:ietf:params:xml:ns:caldav" xmlns:D="DAV:"><D:propname/><D:prop><D:getetag/></D:prop><D:href>/u/h/c/o.ics</D:href></C:calendar-multiget>`},
		{"carddav", "REPORT", collP, "exclusive-selection", aq + `<D:prop><D:getetag/></D:prop><D:allprop/><A:filter/></A:addressbook-query>`},
		{"carddav", "REPORT", collP, "exclusive-selection", `<A:addressbook-multiget xmlns:A="urn:ietf:params:xml:ns:carddav" xmlns:D="DAV:"><D:allprop/><D:propname/><D:href>/u/h/c/o.vcf</D:href></A:addressbook-multiget>`},
		{"caldav", "REPORT", collP, "is-not-defined-with-siblings", cq + `<D:prop><D:getetag/></D:prop><C:filter><C:comp-filter name="VCALENDAR"><C:comp-filter name="VEVENT"><C:is-not-defined/><C:time-range start="20060102T000000Z"/></C:comp-filter></C:comp-filter></C:filter></C:calendar-query>`},
		{"caldav", "REPORT", collP, "is-not-defined-with-siblings", cq + `<D:prop><D:getetag/></D:prop><C:filter><C:comp-filter name="VCALENDAR"><C:prop-filter name="X"><C:is-not-defined/><C:text-match>a</C:text-match></C:prop-filter></C:comp-filter></C:filter></C:calendar-query>`},
		{"caldav", "REPORT", collP, "is-not-defined-with-siblings", cq + `<D:prop><D:getetag/></D:prop><C:filter><C:comp-filter name="VCALENDAR"><C:prop-filter name="X"><C:param-filter name="P"><C:is-not-defined/><C:text-match>a</C:text-match></C:param-filter></C:prop-filter></C:comp-filter></C:filter></C:calendar-query>`},
		{"carddav", "REPORT", collP, "is-not-defined-with-siblings", aq + `<D:prop><D:getetag/></D:prop><A:filter><A:prop-filter name="EMAIL"><A:is-not-defined/><A:text-match>a</A:text-match></A:prop-filter></A:filter></A:addressbook-query>`},
		{"carddav", "REPORT", collP, "is-not-defined-with-siblings", aq + `<D:prop><D:getetag/></D:prop><A:filter><A:prop-filter name="EMAIL"><A:param-filter name="TYPE"><A:is-not-defined/><A:text-match>a</A:text-match></A:param-filter></A:prop-filter></A:filter></A:addressbook-query>`},
		{"caldav", "REPORT", collP, "allprop-with-prop", cq + `<D:prop><C:calendar-data><C:comp name="VCALENDAR"><C:allprop/><C:prop name="VERSION"/></C:comp></C:calendar-data></D:prop>` + calFilter + `</C:calendar-query>`},
		{"caldav", "REPORT", collP, "allcomp-with-comp", cq + `<D:prop><C:calendar-data><C:comp name="VCALENDAR"><C:allcomp/><C:comp name="VEVENT"/></C:comp></C:calendar-data></D:prop>` + calFilter + `</C:calendar-query>`},
		{"caldav", "REPORT", collP, "allcomp-with-comp", `<C:calendar-multiget xmlns:C="urn:ietf:params:xml:ns:caldav" xmlns:D="DAV:"><D:prop><C:calendar-data><C:comp name="VCALENDAR"><C:comp name="VEVENT"><C:comp name="VALARM"/><C:allcomp/></C:comp></C:comp></C:calendar-data></D:prop><D:href>/u/h/c/o.ics</D:href></C:calendar-multiget>`},
		{"carddav", "REPORT", collP, "allprop-with-prop", aq + `<D:prop><A:address-data><A:allprop/><A:prop name="FN"/></A:address-data></D:prop><A:filter/></A:addressbook-query>`},
		{"carddav", "REPORT", collP, "allprop-with-prop", `<A:addressbook-multiget xmlns:A="urn:ietf:params:xml:ns:carddav" xmlns:D="DAV:"><D:prop><A:address-data><A:prop name="FN"/><A:allprop/></A:address-data></D:prop><D:href>/u/h/c/o.vcf</D:href></A:addressbook-multiget>`},
		{"caldav", "REPORT", collP, "invalid-date", cq + `<D:prop><D:getetag/></D:prop><C:filter><C:comp-filter name="VCALENDAR"><C:comp-filter name="VEVENT"><C:time-range end="2006-01-02"/></C:comp-filter></C:comp-filter></C:filter></C:calendar-query>`},
		{"caldav", "REPORT", collP, "invalid-date", cq + `<D:prop><D:getetag/></D:prop><C:filter><C:comp-filter name="VCALENDAR"><C:prop-filter name="DTSTART"><C:time-range start="20060102T000000"/></C:prop-filter></C:comp-filter></C:filter></C:calendar-query>`},
		{"caldav", "REPORT", collP, "invalid-date", `<C:calendar-multiget xmlns:C="urn:ietf:params:xml:ns:caldav" xmlns:D="DAV:"><D:prop><C:calendar-data><C:expand start="x" end="20060102T000000Z"/></C:calendar-data></D:prop><D:href>/u/h/c/o.ics</D:href></C:calendar-multiget>`},
		{"caldav", "REPORT", collP, "invalid-negate-condition", cq + `<D:prop><D:getetag/></D:prop><C:filter><C:comp-filter name="VCALENDAR"><C:prop-filter name="X"><C:text-match negate-condition="maybe">a</C:text-match></C:prop-filter></C:comp-filter></C:filter></C:calendar-query>`},
		{"carddav", "REPORT", collP, "invalid-test", aq + `<D:prop><D:getetag/></D:prop><A:filter test="oneof"/></A:addressbook-query>`},
		{"carddav", "REPORT", collP, "invalid-test", aq + `<D:prop><D:getetag/></D:prop><A:filter><A:prop-filter name="EMAIL" test="ALLOF"><A:text-match>a</A:text-match></A:prop-filter></A:filter></A:addressbook-query>`},
		{"carddav", "REPORT", collP, "invalid-match-type", aq + `<D:prop><D:getetag/></D:prop><A:filter><A:prop-filter name="EMAIL"><A:text-match match-type="regex">a</A:text-match></A:prop-filter></A:filter></A:addressbook-query>`},
		{"carddav", "REPORT", collP, "invalid-match-type", aq + `<D:prop><D:getetag/></D:prop><A:filter><A:prop-filter name="EMAIL"><A:param-filter name="TYPE"><A:text-match match-type="is">a</A:text-match></A:param-filter></A:prop-filter></A:filter></A:addressbook-query>`},
		{"carddav", "REPORT", collP, "invalid-negate-condition", aq + `<D:prop><D:getetag/></D:prop><A:filter><A:prop-filter name="EMAIL"><A:text-match negate-condition="YES">a</A:text-match></A:prop-filter></A:filter></A:addressbook-query>`},
		{"carddav", "REPORT", collP, "invalid-limit", aq + `<D:prop><D:getetag/></D:prop><A:filter/><A:limit><A:nresults>-3</A:nresults></A:limit></A:addressbook-query>`},
		{"carddav", "REPORT", collP, "invalid-limit", aq + `<D:prop><D:getetag/></D:prop><A:filter/><A:limit><A:nresults>many</A:nresults></A:limit></A:addressbook-query>`},
		{"caldav", "MKCOL", "/u/h/newcal/", "wrong-resourcetype", `<D:mkcol xmlns:D="DAV:"><D:set><D:prop><D:resourcetype><D:collection/></D:resourcetype></D:prop></D:set></D:mkcol>`},
		{"carddav", "MKCOL", "/u/h/newbook/", "wrong-resourcetype", `<D:mkcol xmlns:D="DAV:" xmlns:C="urn:ietf:params:xml:ns:caldav"><D:set><D:prop><D:resourcetype><D:collection/><C:calendar/></D:resourcetype></D:prop></D:set></D:mkcol>`},
	}
	for i, d := range docs {
		if !vev.MyShare(i) {
			continue
		}
		for _, ct := range []string{"application/xml", "text/xml; charset=utf-8"} {
			c := Case{Server: d.server, Method: d.method, Path: d.path, Hdr: [][2]string{{"Content-Type", ct}, {"Depth", "1"}}, Body: vev.B(d.body), Why: []string{d.why}, Mutated: true}
			if d.method == "MKCOL" {
				c.Hdr = c.Hdr[:1]
			}
			run(t, nil, c, "catalogue/"+d.why)
		}
	}
	rec.ExhaustiveSub("a catalogue of 32 documents malformed by construction: every mutually exclusive combination, invalid enumeration, date and limit at every position the RFC DTDs allow")
}

// content lines on which iCalendar/vCard decoders are known to stumble (a line ending inside a parameter, an
// unterminated quoted parameter, stray separators, a dangling fold), alone and behind a valid prefix
func TestHostileTextBodies(t *testing.T) {
	if vev.ReplayFile() != "" {
		t.Skip()
	}
	lines := []string{"A;B=", "A;B=\"c", "A;B=c,", "A;", "A", ";", ":", "=", "A;B", "A;B=c;", "A;B=c;D=", "A;B=\"c\"d", " folded", "\r\n", "A;B=^", "A:\r\n B;C=", "\x00", "A;=:", ";=", "A;B=c:d\r\nE;F="}
	k := 0
	for _, l := range lines {
		// also behind a complete valid object: a decoder that is asked for "the next object" meets the line there
		for _, pre := range []string{"", "BEGIN:VCALENDAR\r\n", "BEGIN:VCALENDAR\r\nVERSION:2.0\r\nBEGIN:VEVENT\r\n", "BEGIN:VCARD\r\n", "BEGIN:VCARD\r\nVERSION:4.0\r\n", icalTxt, icalTxt + "\r\n\r\n", vcardTx, icalTxt + "BEGIN:VCALENDAR\r\n"} {
			for _, tgt := range []struct{ server, path, ct string }{{"caldav", "/u/h/c/new.ics", "text/calendar; charset=utf-8"}, {"carddav", "/u/h/c/new.vcf", "text/vcard"}} {
				k++
				if !vev.MyShare(k) {
					continue
				}
				c := Case{Server: tgt.server, Method: "PUT", Path: tgt.path, Hdr: [][2]string{{"Content-Type", tgt.ct}}, Body: vev.B(pre + l), Mutated: true}
				run(t, nil, c, "hostile-text/"+tgt.server)
			}
		}
	}
	rec.ExhaustiveSub("20 hostile content lines x 9 prefixes (incl. a complete valid object) as PUT bodies of both servers")
}

func TestMutations(t *testing.T) {
	if vev.ReplayFile() != "" {
		t.Skip()
	}
	vev.Rapid(t, rec, 0, vev.N(5000, 400000), func(rt *rapid.T) {
		c := genCase(rt)
		run(t, rt, c, "mutated/"+c.Server)
	})
}

// ---------------------------------------------------------------------------
// the 4*10^6 nesting bomb kills a process if recursion is unbounded: run it in a child

func bombChild() {
	n := 4000000
	body := `<D:propfind xmlns:D="DAV:"><D:prop>` + strings.Repeat("<a>", n) + strings.Repeat("</a>", n) + `</D:prop></D:propfind>`
	for _, server := range []string{"webdav", "caldav"} {
		w := build(server)
		req, _ := http.NewRequest("PROPFIND", "/", strings.NewReader(body))
		req.Header.Set("Content-Type", "application/xml")
		resp := cfs.Serve(w.h, req)
		fmt.Printf("BOMB %s status=%d panic=%v\n", server, resp.Status, resp.Panic)
	}
	// client side: a multi-status with the same nesting
	var ms internal.MultiStatus
	err := xml.Unmarshal([]byte(`<D:multistatus xmlns:D="DAV:"><D:response><D:href>/a</D:href><D:propstat><D:prop>`+strings.Repeat("<a>", n)+strings.Repeat("</a>", n)+`</D:prop><D:status>HTTP/1.1 200 OK</D:status></D:propstat></D:response></D:multistatus>`), &ms)
	fmt.Printf("BOMB client err=%v\n", err != nil)
	fmt.Println("BOMB-SURVIVED")
}

func TestDepthBomb(t *testing.T) {
	if vev.ReplayFile() != "" || !vev.Thorough() || vev.Shard() != 0 {
		t.Skip("thorough tier, shard 0 only")
	}
	cmd := exec.Command(os.Args[0], "-test.run=^$")
	cmd.Env = append(os.Environ(), "C13_BOMB_CHILD=1")
	var out bytes.Buffer
	cmd.Stdout, cmd.Stderr = &out, &out
	done := make(chan error, 1)
	go func() { done <- cmd.Run() }()
	select {
	case err := <-done:
		c := Case{Server: "webdav", Method: "PROPFIND", Path: "/", Body: "4e6 nested elements inside DAV:prop (generated in the child process)"}
		rec.Case("depth-bomb", true, "bomb", func() any { return c })
		if err != nil || !strings.Contains(out.String(), "BOMB-SURVIVED") {
			tail := out.String()
			if len(tail) > 600 {
				tail = tail[:300] + " … " + tail[len(tail)-300:]
			}
			rec.Violation(t, "depth-bomb|process-died", "c13-bomb", c, "a request with 4*10^6 nested elements ended the process: %v\n%s", err, tail)
			return
		}
		if strings.Contains(out.String(), "status=207") || strings.Contains(out.String(), "status=5") {
			rec.Violation(t, "depth-bomb|not-4xx", "c13-bomb", c, "the nesting bomb was not refused with 4xx: %s", out.String())
		}
	case <-time.After(10 * time.Minute):
		cmd.Process.Kill()
		t.Skip("depth bomb child did not finish within 10 minutes (inconclusive)")
	}
}

func mustJSON(v any) string {
	b, _ := json.Marshal(v)
	return string(b)
}

var _ = url.Parse

// FuzzServers: coverage-guided (thorough tier), bytes decoded into structured
// arguments (handler, base request, header picks, body); same oracle as the
// rapid-driven mutations.
func FuzzServers(f *testing.F) {
	servers := []string{"webdav", "caldav", "carddav", "principal"}
	all := map[string][]base{}
	for _, s := range servers {
		all[s] = bases(s)
		for i, b := range all[s] {
			body := b.text
			if b.doc != nil {
				body = string(vx.Write(b.doc, vx.Fixed(0), false))
			}
			f.Add(uint8(len(f.Name())+i), uint8(i), uint8(0), uint8(0), []byte(body))
		}
	}
	hostile := []string{"", "<", "<a>", "<?xml", `<!DOCTYPE x [<!ENTITY e "&e;">]><x>&e;</x>`, "BEGIN:VCALENDAR\r\n", "BEGIN:VCARD\r\nEND:VCARD\r\n", strings.Repeat("<a>", 2000), "\xff\xfe"}
	for i, h := range hostile {
		f.Add(uint8(i), uint8(i*7), uint8(i), uint8(i), []byte(h))
	}
	depths := []string{"", "0", "1", "infinity", "2", "x"}
	cts := []string{"", "application/xml", "text/xml; charset=utf-8", "text/plain", "text/calendar", "text/vcard", "text/", "; x"}
	f.Fuzz(func(t *testing.T, si, bi, di, ci uint8, body []byte) {
		if len(body) > 1<<16 {
			t.Skip()
		}
		s := servers[int(si)%len(servers)]
		b := all[s][int(bi)%len(all[s])]
		c := Case{Server: s, Method: b.method, Path: b.path, Hdr: append([][2]string(nil), b.hdr...), Body: vev.B(body), Mutated: true}
		if d := depths[int(di)%len(depths)]; d != "" {
			setHdr(&c, "Depth", d)
		}
		if ct := cts[int(ci)%len(cts)]; ct != "" {
			setHdr(&c, "Content-Type", ct)
		}
		o, err := evaluate(c)
		if err != nil {
			t.Skip()
		}
		if !o.OK() && !rec.Known(o.Sig) {
			t.Fatalf("%s: %s", o.Sig, o.Msg)
		}
	})
}
