#!/bin/bash
# tools/r5.sh <prop> <needs1> <needs2> : import /tmp/mut-<prop>/{1,2} under the next free ids and run the quick check against each
cd "$(dirname "$0")/.."
p=$1
n=$(ls seeded | grep "^$p-s" | sed 's/.*-s//' | sort -n | tail -1)
ids=""
k=1
for needs in "$2" "$3"; do
  n=$((n+1)); id=$p-s$n
  if python3 tools/seed_import.py $p $k $id "$needs" > /tmp/import.$id.log 2>&1; then ids="$ids $id"; echo "imported $id"; else echo "IMPORT FAILED $id"; tail -15 /tmp/import.$id.log; n=$((n-1)); fi
  k=$((k+1))
done
[ -n "$ids" ] && python3 tools/mut.py seeded $ids | tee -a tools/logs/round7.log
git -C /repo status --short | head -3
