#!/usr/bin/env python3
"""handrows.py <log of `mut.py all`> - refresh the hand-mutant rows of mutants/RESULTS.md from a (possibly partial) log
of `mut.py all` (used when the complete run does not fit into a session). Development tooling."""
import os, re, sys
ROOT = os.path.dirname(os.path.dirname(os.path.abspath(__file__)))
rows = {}
for l in open(sys.argv[1]):
    f = l.rstrip("\n")
    status, th, rest = f[:8].strip(), f[9:17].strip(), f[18:]
    m = re.match(r"(\S+)\s+(C\d\d)\s?(.*)$", rest)
    if not m or re.match(r"C\d\d-s\d+$", m.group(1)):
        continue
    name, prop, sig = m.groups()
    rows[(prop, name)] = "| %s | %s | hand | pass | %s | %s | `%s` |  |" % (prop, name, status, th, sig.strip()[:90].replace("|", "\\|"))
p = os.path.join(ROOT, "mutants", "RESULTS.md")
out, seen = [], set()
for l in open(p).read().split("\n"):
    m = re.match(r"\| (C\d\d) \| (\S+) \| hand \|", l)
    if m and (m.group(1), m.group(2)) in rows:
        needs = l.rstrip().rstrip("|").split(" | ")[-1] if l.count(" | ") >= 7 else ""
        r = rows[(m.group(1), m.group(2))]
        if needs.strip():
            r = r[:-3] + needs.strip() + " |"
        out.append(r); seen.add((m.group(1), m.group(2)))
    else:
        out.append(l)
# new hand mutants: after the last hand row of their property
for k in sorted(set(rows) - seen):
    idx = max((i for i, l in enumerate(out) if l.startswith("| %s | " % k[0]) and " | hand | " in l), default=None)
    if idx is None:
        idx = max(i for i, l in enumerate(out) if l.startswith("|---"))
    out.insert(idx + 1, rows[k])
open(p, "w").write("\n".join(out))
print("hand rows refreshed:", len(seen), "new:", len(set(rows) - seen))
