#!/usr/bin/env python3
"""Regenerates /verif/MANIFEST.json from tools/manifest_src.json (claimed checks)
and properties.jsonl (everything else goes to not_applicable with a reason)."""
import json, os
ROOT = os.path.dirname(os.path.dirname(os.path.abspath(__file__)))
src = json.load(open(os.path.join(ROOT, "tools", "manifest_src.json")))
props = [json.loads(l)["id"] for l in open(os.path.join(ROOT, "properties.jsonl")) if l.strip()]
checks, na = [], []
for pid in props:
    c = src["checks"].get(pid)
    if not c:
        na.append({"property_id": pid, "reason": src.get("not_claimed_reason", {}).get(pid, "check not built yet in this session; the technique applies (see DESIGN.md section 4) and the property will be claimed once its check is silent on the unchanged tree and sensitive to mutants")})
        continue
    entry = {
        "property_id": pid,
        "quick_cmd": "./check %s quick" % pid,
        "thorough_cmd": "./check %s thorough" % pid,
        "evidence_file": "/verif/evidence/%s.json" % pid,
        "replay_cmd_template": "./check %s --replay {path}" % pid,
        "engine": c.get("engine", "harness"),
        "level_claimed": {"category": "exploration", "text": c["text"], "design_ref": c.get("design_ref", "DESIGN.md section 4, " + pid)},
        "level_note": c["note"],
        "technique": c["technique"],
    }
    checks.append(entry)
m = {
    "version": 1,
    "setup_cmd": "./check --setup",
    "hooks": src["hooks"],
    "engines": src["engines"],
    "checks": checks,
    "notes": src["notes"],
    "not_applicable": na,
}
json.dump(m, open(os.path.join(ROOT, "MANIFEST.json"), "w"), indent=1)
print("claimed:", [c["property_id"] for c in checks], "not claimed:", [n["property_id"] for n in na])
