#!/bin/bash
# tools/cover.sh [tier] : statement coverage of /repo's packages by the harness (development tooling; no MANIFEST
# command uses it).  Builds every harness package with -cover -coverpkg=<library>, runs it the way the driver
# does (one shard), merges the profiles and prints the library lines no check executed.
tier=${1:-quick}
cd "$(dirname "$0")/.."
ROOT=$PWD
export GOFLAGS=-mod=mod GOPROXY=file://$ROOT/harness/goproxy GOSUMDB=off GONOSUMDB='*' GOTOOLCHAIN=local
OUT=$ROOT/.out/cover; rm -rf $OUT; mkdir -p $OUT
LIB=github.com/emersion/go-webdav,github.com/emersion/go-webdav/internal,github.com/emersion/go-webdav/caldav,github.com/emersion/go-webdav/carddav
run() { # pkg prop
  pkg=$1; prop=$2
  (cd harness && go test -c -vet=off -cover -coverpkg=$LIB -o $OUT/$pkg.test ./$pkg) || return
  mkdir -p $OUT/tmp.$pkg $OUT/out.$pkg
  (cd harness/$pkg && VERIF_ROOT=$ROOT VERIF_TIER=$tier VERIF_SEED=1 VERIF_SHARD=0 VERIF_NSHARDS=1 VERIF_OUT=$OUT/out.$pkg VERIF_PROP=$prop \
     TMPDIR=$OUT/tmp.$pkg $OUT/$pkg.test -test.timeout=0 -test.count=1 -test.coverprofile=$OUT/$pkg.prof > $OUT/$pkg.log 2>&1)
  echo "$pkg exit=$? $(grep -c . $OUT/$pkg.prof 2>/dev/null) profile lines"
  rm -f $OUT/$pkg.test
}
for p in c03:C03 c04:C04 c05:C05 c06:C06 c07:C07 c08:C08 c09:C09 c10:C10 c11:C11 c12:C12 c13:C13 c14:C14 c15:C15 c16:C16 c18:C18 c19:C19 cfs:C01; do
  run ${p%%:*} ${p##*:} &
done
wait
python3 - "$OUT" <<'EOF'
import sys, glob, collections
out = sys.argv[1]
cnt = collections.defaultdict(int); stm = {}
for f in glob.glob(out + "/*.prof"):
    for l in open(f):
        if l.startswith("mode:"): continue
        blk, n, c = l.rsplit(" ", 2)
        cnt[blk] += int(c); stm[blk] = int(n)
tot = sum(stm.values()); cov = sum(n for b, n in stm.items() if cnt[b] > 0)
print("library statements %d, executed by some check %d (%.1f%%)" % (tot, cov, 100.0 * cov / tot))
un = sorted(b for b in stm if cnt[b] == 0)
byfile = collections.defaultdict(list)
for b in un:
    f, r = b.split(":")
    byfile[f].append(r)
for f, rs in sorted(byfile.items()):
    rs.sort(key=lambda r: [int(x) for x in r.replace(",", ".").split(".")])
    print(f.replace("github.com/emersion/go-webdav/", ""), " ".join(rs))
EOF
