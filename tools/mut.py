#!/usr/bin/env python3
"""Sensitivity self-test tooling (development only; no MANIFEST command uses it).

  mut.py new <prop> <name> <file> <old> <new>   create mutants/<prop>/<name>.patch by exact replacement in /repo/<file>
  mut.py run <prop> [name ...] [--tier quick]    apply each patch to /repo, run the repo's own tests and ./check <prop>, revert
  mut.py seeded [id ...]                         same for /verif/seeded/<id>/patch.diff (property from meta.json)

A mutant counts as caught when the repo's own suite still passes and the check
exits 1.  /repo is always restored with `git checkout -- .`."""
import json, os, subprocess, sys, time, glob
ROOT = os.path.dirname(os.path.dirname(os.path.abspath(__file__)))
REPO = "/repo"
ENV = dict(os.environ, GOFLAGS="-mod=mod", GOPROXY="off", GOSUMDB="off", GOTOOLCHAIN="local")

def sh(cmd, cwd=None, env=ENV, timeout=3600):
    p = subprocess.run(cmd, cwd=cwd, env=env, stdout=subprocess.PIPE, stderr=subprocess.STDOUT, text=True, errors='replace', timeout=timeout)
    return p.returncode, p.stdout

def clean():
    rc, out = sh(["git", "status", "--porcelain"], cwd=REPO)
    return out.strip() == ""

def new(prop, name, file, old, new_):
    assert clean(), "/repo is dirty"
    p = os.path.join(REPO, file)
    s = open(p).read()
    assert s.count(old) == 1, "old string occurs %d times" % s.count(old)
    open(p, "w").write(s.replace(old, new_))
    try:
        rc, out = sh(["go", "build", "./..."], cwd=REPO)
        assert rc == 0, "mutant does not compile:\n" + out
        rc, diff = sh(["git", "diff"], cwd=REPO)
        d = os.path.join(ROOT, "mutants", prop)
        os.makedirs(d, exist_ok=True)
        open(os.path.join(d, name + ".patch"), "w").write(diff)
        print("wrote", os.path.join(d, name + ".patch"))
    finally:
        sh(["git", "checkout", "--", "."], cwd=REPO)

def run_one(prop, patch, tier, seed="1"):
    assert clean(), "/repo is dirty"
    res = {"patch": patch, "prop": prop}
    rc, out = sh(["git", "apply", patch], cwd=REPO)
    if rc != 0:
        res["status"] = "does-not-apply"; res["detail"] = out[-300:]
        return res
    try:
        rc, out = sh(["go", "test", "-vet=off", "-count=1", "./..."], cwd=REPO)
        res["suite"] = "pass" if rc == 0 else "FAIL"
        t0 = time.time()
        # the evidence file must keep describing a run on the unchanged tree
        evf = os.path.join(ROOT, "evidence", prop + ".json")
        keep = open(evf, "rb").read() if os.path.exists(evf) else None
        rc, out = sh([os.path.join(ROOT, "check"), prop, tier], cwd=ROOT, env=dict(ENV, VERIF_SEED=seed))
        if keep is not None:
            open(evf, "wb").write(keep)
        res["check_exit"] = rc
        res["wall"] = round(time.time() - t0, 1)
        v = [l for l in out.splitlines() if l.startswith("VIOLATION") or l.strip().startswith("sig=")]
        res["first"] = " ".join(v[:2])[:300]
        res["status"] = "caught" if rc == 1 else ("MISSED" if rc == 0 else "inconclusive")
        if rc == 2:
            res["detail"] = out[-600:]
    finally:
        sh(["git", "checkout", "--", "."], cwd=REPO)
        # replays written while a mutant was applied are not findings
        for f in glob.glob(os.path.join(ROOT, "replays", prop + "-*")):
            os.remove(f)
    return res

def main(a):
    if a[0] == "new":
        new(*a[1:6]); return
    tier = "quick"
    if "--tier" in a:
        i = a.index("--tier"); tier = a[i + 1]; del a[i:i + 2]
    results = []
    if a[0] == "run":
        prop, names = a[1], a[2:]
        patches = sorted(glob.glob(os.path.join(ROOT, "mutants", prop, "*.patch")))
        if names:
            patches = [p for p in patches if os.path.basename(p)[:-6] in names]
        for p in patches:
            r = run_one(prop, p, tier); results.append(r)
            print("%-8s %-40s suite=%s exit=%s %ss %s" % (r["status"], os.path.basename(p), r.get("suite"), r.get("check_exit"), r.get("wall"), r.get("first", r.get("detail", ""))[:160]), flush=True)
    elif a[0] == "seeded":
        ids = a[1:] or sorted(os.listdir(os.path.join(ROOT, "seeded")))
        for i in ids:
            d = os.path.join(ROOT, "seeded", i)
            meta = json.load(open(os.path.join(d, "meta.json")))
            for prop in meta.get("check_with", [meta["property"]]):
                r = run_one(prop, os.path.join(d, "patch.diff"), tier); results.append(r)
                print("%-8s %-14s %-4s suite=%s exit=%s %ss %s" % (r["status"], i, prop, r.get("suite"), r.get("check_exit"), r.get("wall"), r.get("first", r.get("detail", ""))[:160]), flush=True)
    elif a[0] == "append":
        # run the given seeded changes like "all" does and add their rows to mutants/RESULTS.md
        path = os.path.join(ROOT, "mutants", "RESULTS.md")
        lines = open(path).read().rstrip("\n").split("\n")
        cut = next((i for i, l in enumerate(lines) if l.startswith("Retired seeded changes")), len(lines))
        while cut > 0 and not lines[cut - 1].startswith("|"):
            cut -= 1
        newrows = []
        for i in a[1:]:
            d = os.path.join(ROOT, "seeded", i)
            meta = json.load(open(os.path.join(d, "meta.json")))
            if meta.get("retired"):
                continue
            for prop in meta.get("check_with", [meta["property"]]):
                lines = [l for l in lines if not l.startswith("| %s | %s |" % (prop, i))]
                r = run_one(prop, os.path.join(d, "patch.diff"), "quick"); results.append(r)
                th = ""
                if r["status"] != "caught":
                    r2 = run_one(prop, os.path.join(d, "patch.diff"), "thorough"); results.append(r2)
                    th = r2["status"]
                    if r2["status"] == "caught":
                        r["first"] = r2.get("first", "")
                sig = r.get("first", "")
                sig = sig[sig.find("sig="):][:90] if "sig=" in sig else ""
                print("%-8s %-8s %-40s %s %s" % (r["status"], th, i, prop, sig), flush=True)
                newrows.append("| %s | %s | seeded | %s | %s | %s | `%s` | %s |" % (prop, i, r.get("suite"), r["status"], th, sig.replace("|", "\\|"), meta.get("needs_to_manifest", "").replace("|", "/")))
        cut = next((k for k, l in enumerate(lines) if l.startswith("Retired seeded changes")), len(lines))
        while cut > 0 and not lines[cut - 1].startswith("|"):
            cut -= 1
        lines = lines[:cut] + newrows + lines[cut:]
        open(path, "w").write("\n".join(lines) + "\n")
    elif a[0] == "all":
        # every hand mutant and every seeded change against the quick tier; whatever the quick tier misses is re-run
        # against the thorough tier; writes mutants/RESULTS.md
        rows = []
        retired = []
        for prop in sorted(os.listdir(os.path.join(ROOT, "mutants"))):
            if not os.path.isdir(os.path.join(ROOT, "mutants", prop)):
                continue
            for p in sorted(glob.glob(os.path.join(ROOT, "mutants", prop, "*.patch"))):
                rows.append(("hand", os.path.basename(p)[:-6], prop, p, ""))
        for i in sorted(os.listdir(os.path.join(ROOT, "seeded"))):
            d = os.path.join(ROOT, "seeded", i)
            meta = json.load(open(os.path.join(d, "meta.json")))
            if meta.get("retired"):
                retired.append((i, meta["retired"]))
                continue
            for prop in meta.get("check_with", [meta["property"]]):
                rows.append(("seeded", i, prop, os.path.join(d, "patch.diff"), meta.get("needs_to_manifest", "")))
        out = ["# Sensitivity results", "", "Generated by `tools/mut.py all` on /repo @ %s.  Every change compiles and keeps the repository's own 46 tests green (column suite)." % sh(["git", "rev-parse", "--short", "HEAD"], cwd=REPO)[1].strip(),
               "hand = single-edit mutant written with the check's author knowing the check; seeded = change made by an independent sub-agent that saw only the property text.", "",
               "| property | change | origin | suite | quick tier | thorough tier | first deviation signature | needs |", "|---|---|---|---|---|---|---|---|"]
        for kind, name, prop, patch, needs in rows:
            r = run_one(prop, patch, "quick"); results.append(r)
            th = ""
            if r["status"] != "caught":
                r2 = run_one(prop, patch, "thorough"); results.append(r2)
                th = r2["status"]
                if r2["status"] == "caught":
                    r["first"] = r2.get("first", "")
            sig = r.get("first", "")
            sig = sig[sig.find("sig="):][:90] if "sig=" in sig else ""
            print("%-8s %-8s %-40s %s %s" % (r["status"], th, name, prop, sig), flush=True)
            out.append("| %s | %s | %s | %s | %s | %s | `%s` | %s |" % (prop, name, kind, r.get("suite"), r["status"], th, sig.replace("|", "\\|"), needs.replace("|", "/")))
        n = len(rows); cq = sum(1 for l in out[7:] if "| caught |" in l.split("| pass ")[-1][:12] or "| caught |" in l)
        if retired:
            out += ["", "Retired seeded changes (kept under seeded/ for the record, not run):", ""] + ["* %s - %s" % r for r in retired]
        open(os.path.join(ROOT, "mutants", "RESULTS.md"), "w").write("\n".join(out) + "\n")
    os.makedirs(os.path.join(ROOT, "mutants"), exist_ok=True)
    with open(os.path.join(ROOT, "mutants", "last_run.jsonl"), "a") as f:
        for r in results:
            f.write(json.dumps(r) + "\n")

if __name__ == "__main__":
    main(sys.argv[1:])
