#!/usr/bin/env python3
"""mkdesign.py [sweep-log ...] — refresh the generated regions of DESIGN.md.

  <!-- BEGIN MUTANTS --> … <!-- END MUTANTS -->   per-property summary of mutants/RESULTS.md
  *Catches:* lines of section 4                     the same numbers, per property
  <!-- BEGIN COST --> … <!-- END COST -->           wall times and coverage from sweep logs (tools/sweep.sh output)
                                                    and from evidence/*.json

Development tooling; no MANIFEST command uses it."""
import json, os, re, sys, glob
ROOT = os.path.dirname(os.path.dirname(os.path.abspath(__file__)))
PROPS = ["C%02d" % i for i in range(1, 20)]


def mutants():
    rows = []
    p = os.path.join(ROOT, "mutants", "RESULTS.md")
    if not os.path.exists(p):
        return rows
    for l in open(p):
        if not l.startswith("| C"):
            continue
        f = [x.strip() for x in l.strip().strip("|").split(" | ")]
        if len(f) < 6:
            continue
        rows.append(dict(prop=f[0], name=f[1], origin=f[2], suite=f[3], quick=f[4], thorough=f[5]))
    return rows


def summary(rows):
    out = ["| property | hand mutants caught (quick / + thorough / total) | seeded changes caught (quick / + thorough / total) | not caught |", "|---|---|---|---|"]
    per = {}
    tot = dict(hand=[0, 0, 0], seeded=[0, 0, 0])
    for p in PROPS:
        c = dict(hand=[0, 0, 0], seeded=[0, 0, 0])
        missed = []
        for r in rows:
            if r["prop"] != p:
                continue
            k = c[r["origin"]]
            k[2] += 1
            if r["quick"] == "caught":
                k[0] += 1
            elif r["thorough"] == "caught":
                k[1] += 1
            else:
                missed.append(r["name"] + " (" + (r["thorough"] or r["quick"]) + ")")
        for o in ("hand", "seeded"):
            for i in range(3):
                tot[o][i] += c[o][i]
        per[p] = (c, missed)
        out.append("| %s | %d / %d / %d | %d / %d / %d | %s |" % (p, *c["hand"], *c["seeded"], ", ".join(missed) or "—"))
    out.append("| **all** | **%d / %d / %d** | **%d / %d / %d** | |" % (*tot["hand"], *tot["seeded"]))
    return "\n".join(out), per


def costs(logs):
    t = {p: {} for p in PROPS}
    for path in logs:
        for l in open(path):
            m = re.match(r"(C\d\d) seed=(\d+) tier=(\w+) exit=(\d+) ([\d.]+)s", l)
            if m:
                t[m.group(1)].setdefault(m.group(3), []).append((int(m.group(2)), int(m.group(4)), float(m.group(5))))
    out = ["| id | quick wall s (seeds) | thorough wall s (seeds) | quick evaluations / distinct non-trivial | exhaustive sub-domains |", "|---|---|---|---|---|"]
    for p in PROPS:
        def cell(tier):
            l = t[p].get(tier, [])
            if not l:
                return "—"
            bad = [x for x in l if x[1] != 0]
            s = "%.0f–%.0f (%s)" % (min(x[2] for x in l), max(x[2] for x in l), ",".join(str(x[0]) for x in l)) if len(l) > 1 else "%.0f (%d)" % (l[0][2], l[0][0])
            return s + (" **%d non-zero exits**" % len(bad) if bad else "")
        ev, sub = "—", "—"
        f = os.path.join(ROOT, "evidence", p + ".json")
        if os.path.exists(f):
            d = json.load(open(f))
            c = d["coverage"]
            ev = "%s / %s (%s)" % (format(c["evaluations"], ","), format(c["distinct_nontrivial"], ","), d["tier"])
            sub = str(len(c.get("exhaustive_subdomains") or [])) if c.get("exhaustive_subdomains") else "—"
        out.append("| %s | %s | %s | %s | %s |" % (p, cell("quick"), cell("thorough"), ev, sub))
    return "\n".join(out)


def region(s, name, body):
    a, b = "<!-- BEGIN %s -->" % name, "<!-- END %s -->" % name
    i, j = s.index(a), s.index(b)
    return s[:i + len(a)] + "\n" + body + "\n" + s[j:]


def main():
    p = os.path.join(ROOT, "DESIGN.md")
    s = open(p).read()
    rows = mutants()
    if rows:
        tab, per = summary(rows)
        s = region(s, "MUTANTS", tab)
        # *Catches:* lines
        cur = None
        lines = s.split("\n")
        for i, l in enumerate(lines):
            if l is None:
                continue
            m = re.match(r"### (C\d\d) ", l)
            if m:
                cur = m.group(1)
            if cur and "*Catches:*" in l:
                c, missed = per[cur]
                h, sd = c["hand"], c["seeded"]
                txt = "*Catches:* %d/%d hand mutants and %d/%d seeded changes in the quick tier" % (h[0], h[2], sd[0], sd[2])
                if h[1] or sd[1]:
                    txt += ", %d more with the thorough tier" % (h[1] + sd[1])
                txt += " (§11)." if not missed else "; not caught: " + ", ".join(missed) + " (§11)."
                k = l.index("*Catches:*")
                lines[i] = l[:k] + txt
                # drop continuation lines of the old sentence
                j = i + 1
                while j < len(lines) and lines[j].strip() and not lines[j].startswith("#") and not lines[j].startswith("*") and not lines[j].startswith("---"):
                    lines[j] = None
                    j += 1
                cur = None
        s = "\n".join(l for l in lines if l is not None)
    if len(sys.argv) > 1:
        s = region(s, "COST", costs(sys.argv[1:]))
    open(p, "w").write(s)


if __name__ == "__main__":
    main()
