#!/bin/bash
# tools/sweep.sh <tier> <seed...> : run every claimed check at the given seeds, print a table
tier=$1; shift
cd "$(dirname "$0")/.."
for seed in "$@"; do
  for p in C01 C02 C03 C04 C05 C06 C07 C08 C09 C10 C11 C12 C13 C14 C15 C16 C17 C18 C19; do
    s=$(date +%s.%N)
    out=$(VERIF_SEED=$seed ./check $p $tier 2>&1); rc=$?
    e=$(date +%s.%N)
    printf "%s seed=%s tier=%s exit=%d %.1fs %s\n" $p $seed $tier $rc $(echo "$e - $s" | bc) "$(echo "$out" | grep -E '^(VIOLATION|INCONCLUSIVE)' | head -1 | cut -c1-120)"
  done
done
