#!/usr/bin/env python3
"""seed_import.py <prop> <k> <id> "<needs>"  — verify a sub-agent's mutant in its scratch worktree and keep it as /verif/seeded/<id>/.

Confirms in /tmp/wt-<prop>: patch applies; repo suite passes with it; demo fails with it; demo passes without it."""
import json, os, re, shutil, subprocess, sys
ROOT = os.path.dirname(os.path.dirname(os.path.abspath(__file__)))
ENV = dict(os.environ, GOFLAGS="-mod=mod", GOPROXY="off", GOSUMDB="off", GOTOOLCHAIN="local")
def sh(cmd, cwd):
    p = subprocess.run(cmd, cwd=cwd, env=ENV, stdout=subprocess.PIPE, stderr=subprocess.STDOUT, text=True, errors='replace', timeout=1800)
    return p.returncode, p.stdout
prop, k, sid, needs = sys.argv[1:5]
wt = sys.argv[5] if len(sys.argv) > 5 else "/tmp/wt-" + prop
src = "/tmp/mut-%s/%s" % (prop, k)
patch = os.path.join(src, "patch.diff")
demo = os.path.join(src, "demo_test.go")
first = open(demo, errors='replace').readline()
m = re.search(r"place in:\s*(\S+)", first)
pkgdir = m.group(1).strip("`'\"") if m else "."
pkgdir = pkgdir.rstrip("/") or "."
if pkgdir.startswith("./"): pkgdir = pkgdir[2:] or "."
ran = []
assert sh(["git", "status", "--porcelain"], wt)[1].strip() == "", "worktree dirty"
dst = os.path.join(wt, pkgdir, "zz_demo_test.go")
try:
    shutil.copy(demo, dst)
    rc0, out0 = sh(["go", "test", "-vet=off", "-count=1", "./" + pkgdir], wt)
    ran.append("without patch: go test ./%s (with demo) -> %s" % (pkgdir, "pass" if rc0 == 0 else "FAIL"))
    os.remove(dst)
    rc, out = sh(["git", "apply", patch], wt)
    assert rc == 0, "patch does not apply: " + out
    rc1, out1 = sh(["go", "test", "-vet=off", "-count=1", "./..."], wt)
    ran.append("with patch: go test ./... (existing suite) -> %s" % ("pass" if rc1 == 0 else "FAIL"))
    shutil.copy(demo, dst)
    rc2, out2 = sh(["go", "test", "-vet=off", "-count=1", "./" + pkgdir], wt)
    ran.append("with patch: go test ./%s (with demo) -> %s" % (pkgdir, "pass" if rc2 == 0 else "FAIL"))
finally:
    if os.path.exists(dst): os.remove(dst)
    sh(["git", "checkout", "--", "."], wt)
    sh(["git", "clean", "-fdq"], wt)
ok = rc0 == 0 and rc1 == 0 and rc2 != 0
print("\n".join(ran)); print("CONFIRMED" if ok else "NOT CONFIRMED")
if not ok:
    if rc0 != 0: print(out0[-1500:])
    if rc1 != 0: print(out1[-1500:])
    sys.exit(1)
d = os.path.join(ROOT, "seeded", sid)
os.makedirs(d, exist_ok=True)
shutil.copy(patch, os.path.join(d, "patch.diff"))
shutil.copy(demo, os.path.join(d, "demo_test.go"))
if os.path.exists(os.path.join(src, "notes.md")): shutil.copy(os.path.join(src, "notes.md"), os.path.join(d, "notes.md"))
base = sh(["git", "rev-parse", "HEAD"], wt)[1].strip()
json.dump({"id": sid, "property": prop, "breaks": prop, "needs_to_manifest": needs, "demo_package_dir": pkgdir, "base_commit": base,
           "confirmed_by_me": ran, "source": "independent sub-agent given only the property text and a scratch worktree"}, open(os.path.join(d, "meta.json"), "w"), indent=1)
print("kept as", d)
